"""C09 native reproduction: capacity freed by a preemption is not offered to the head of the wait queue.

capacity 4; A (amount 2, priority 5) and B (amount 2, priority 0) hold everything.  W (amount 2, priority 1,
preempt=False) blocks at t=1.  X (amount 4, priority 2, preempt=True) arrives at t=2: it preempts A (the only
grant with a worse priority), which frees 2 units - not enough for X, so X is queued behind W.  W fits
(available == 2 == its amount) and is the head of the queue, but on the pinned tree nobody wakes it: it is granted
only at t=10 when B releases.  With fixes/C09_preempt-wake-after-preemption.diff W is granted at t=2.

usage: /venv/bin/python findings/c09_preempt_idle_capacity.py   (PYTHONPATH=<patched copy> for the repaired tree)
"""
from happysimulator import Simulation, Event, Instant, Entity
from happysimulator.components.industrial.preemptible_resource import PreemptibleResource
r = PreemptibleResource("r", capacity=4)
log = []
class P(Entity):
    def __init__(s, name, amount, prio, preempt, hold):
        super().__init__(name); s.a, s.p, s.pre, s.hold = amount, prio, preempt, hold
    def handle_event(s, e):
        fut = r.acquire(amount=s.a, priority=s.p, preempt=s.pre, on_preempt=lambda: log.append((s.name, 'preempted', s.now.to_seconds())))
        log.append((s.name, 'asked', s.now.to_seconds(), 'immediate' if fut.is_resolved else 'blocked', 'avail', r.available))
        g = yield fut
        log.append((s.name, 'granted', s.now.to_seconds(), 'avail', r.available))
        yield s.hold
        g.release()
        log.append((s.name, 'released', s.now.to_seconds(), 'avail', r.available))
A = P("A", 2, 5.0, False, 10.0)   # low priority holder (preemptible)
B = P("B", 2, 0.0, False, 10.0)   # high priority holder
W = P("W", 2, 1.0, False, 1.0)    # waits, never preempts
X = P("X", 4, 2.0, True, 1.0)     # wants everything, can only preempt A -> frees 2, still blocked
sim = Simulation(entities=[r, A, B, W, X], end_time=Instant.from_seconds(30))
for ent, t in ((A, 0.0), (B, 0.0), (W, 1.0), (X, 2.0)):
    sim.schedule(Event(time=Instant.from_seconds(t), event_type="go", target=ent))
sim.run()
for l in log: print(l)
print("final available", r.available, "waiters", len(r._waiters))

"""C16 scenario for PageCache: two concurrent page loads both pass the capacity check before either inserts
(the disk-read latency lies between `_ensure_space` and the insert), so the cache ends above its capacity.
Exit 1 if pages_cached > capacity."""
import sys
from happysimulator import Simulation, Event, Instant, Entity
from happysimulator.components.infrastructure.page_cache import PageCache

pc = PageCache("pc", capacity_pages=1, disk_read_latency_s=0.1)
peak = []


class Reader(Entity):
    def handle_event(self, e):
        yield from pc.read_page(e.context["page"])
        peak.append(pc.pages_cached)


r1, r2 = Reader("r1"), Reader("r2")
sim = Simulation(entities=[pc, r1, r2], end_time=Instant.from_seconds(5))
sim.schedule(Event(time=Instant.from_seconds(0.0), event_type="rd", target=r1, context={"page": 1}))
sim.schedule(Event(time=Instant.from_seconds(0.05), event_type="rd", target=r2, context={"page": 2}))
sim.run()
print(f"capacity=1, pages cached after two overlapping misses: {pc.pages_cached} (observed {peak})")
bad = pc.pages_cached > 1
print("VIOLATION: page cache above its capacity" if bad else "ok")
sys.exit(1 if bad else 0)

"""C07 native reproduction: ConnectionPool._handle_warmup stamps each idle-timeout check with now+idle_timeout
when the connection is created, keeps creating further connections (each takes connection latency) and returns
all checks at the end: when (remaining connections x connect latency) > idle_timeout the early checks are in the past."""
import logging, io
buf = io.StringIO(); logging.basicConfig(level=logging.WARNING, stream=buf)
from happysimulator import Simulation, Event, Instant, Entity
from happysimulator.components.client.connection_pool import ConnectionPool
from happysimulator.distributions.constant import ConstantLatency
class T(Entity):
    def handle_event(self, e): return None
t = T("t")
pool = ConnectionPool("pool", target=t, min_connections=3, max_connections=5, connection_latency=ConstantLatency(1.0), idle_timeout=0.5)
sim = Simulation(entities=[t, pool], end_time=Instant.from_seconds(10.0))
sim.schedule(pool.warmup() if hasattr(pool, "warmup") else None)
sim.run()
dropped = buf.getvalue().count("Time travel detected")
print("engine discards:", dropped); print(buf.getvalue()[:400])
print("VIOLATION reproduced" if dropped else "ok")

"""C17 native check (public API only, fresh interpreter): random per-message delays in the three replication schemes.

usage:  PYTHONPATH=<repo> python c17_replication.py [--json] <seed> [quick|thorough]
Prints the violations found (none on the repaired tree; on the unrepaired tree: replicas diverge under message
reordering, chain reads return values the tail has not committed).  Used by specs/C17.py as the bounded stand-in.
"""
import json
import sys

from happysimulator import Event, Instant, Entity
from happysimulator.components.datastore.kv_store import KVStore
from happysimulator.components.network.network import Network
from happysimulator.components.replication.primary_backup import PrimaryNode, BackupNode, ReplicationMode
from happysimulator.components.replication.multi_leader import LeaderNode


def _random_replication_runs(seed, tier):
    """BOUNDED (not a proof): the three schemes inside real Simulations (public API only) with random per-message
    delays - so messages for one key overtake each other -, repeated keys, all modes / sizes, concurrent writers.
    Checks the statement itself: where an acknowledged write is at the moment of the acknowledgement, what a chain
    read returns relative to the tail, and that all replicas agree after the run has drained (multi-leader: with
    anti-entropy running).  Covers the anti-entropy handlers and the cross-node composition that the per-handler
    contracts leave to the paper argument."""
    import random
    from happysimulator import Simulation, SimFuture
    from happysimulator.core.temporal import Duration
    from happysimulator.components.network.link import NetworkLink
    from happysimulator.distributions.latency_distribution import LatencyDistribution
    from happysimulator.components.replication.chain_replication import build_chain

    class Jitter(LatencyDistribution):
        def __init__(self, rng, lo, hi):
            super().__init__((lo + hi) / 2)
            self.rng, self.lo, self.hi = rng, lo, hi

        def get_latency(self, now):
            return Duration.from_seconds(self.rng.uniform(self.lo, self.hi))

    def full_mesh(net, nodes, rng):
        for a in nodes:
            for b in nodes:
                if a is not b:
                    net.add_link(a, b, NetworkLink(name=f"{a.name}-{b.name}", latency=Jitter(rng, 0.002, 0.2)))

    def num(v):     # values are "v<n>", n = global issue order
        return -1 if v is None else int(v[1:])

    runs = 60 if tier == "quick" else 600
    viol, evals = [], 0
    for run in range(runs):
        rng = random.Random(seed * 7919 + run)
        keys = ["k0", "k1"]
        # ---------------- primary-backup
        mode = rng.choice(list(ReplicationMode))
        nb = rng.choice([1, 2, 3])
        net = Network(name="net")
        prim_kv = KVStore("p_kv", write_latency=0.001)
        bkv = [KVStore(f"b{i}_kv", write_latency=0.001) for i in range(nb)]
        holder = []

        class _P(Entity):
            def handle_event(self, e):
                return None
        backups = [BackupNode(f"b{i}", store=bkv[i], network=net, primary=_P("pp")) for i in range(nb)]
        prim = PrimaryNode("p", store=prim_kv, backups=backups, network=net, mode=mode)
        for b in backups:
            b._primary = prim
        full_mesh(net, [prim] + backups, rng)
        bad = []

        class Client(Entity):
            def handle_event(self, e, _bad=bad):
                m = e.context["metadata"]
                f = SimFuture()
                yield 0.0, [Event(time=self.now, event_type="Write", target=prim,
                                  context={"metadata": {"key": m["key"], "value": m["value"], "reply_future": f}})]
                yield f
                have = [num(s.get_sync(m["key"])) >= num(m["value"]) for s in bkv]
                if mode is ReplicationMode.SYNC and not all(have):
                    _bad.append(("sync-ack-before-applied-on-every-backup", m["value"], have))
                if mode is ReplicationMode.SEMI_SYNC and not any(have):
                    _bad.append(("semi-sync-ack-before-applied-on-any-backup", m["value"], have))
        cl = Client("client")
        sim = Simulation(entities=[net, cl, prim, prim_kv] + backups + bkv, end_time=Instant.from_seconds(30))
        nw = rng.randint(3, 8)
        t = 1.0
        for i in range(nw):         # strictly increasing times: value index order == primary sequence order
            t += rng.uniform(0.0005, 0.03)
            sim.schedule(Event(time=Instant.from_seconds(t), event_type="op", target=cl,
                               context={"metadata": {"key": rng.choice(keys), "value": f"v{i}"}}))
        sim.run()
        evals += nw
        for k in keys:
            vals = {prim_kv.get_sync(k)} | {s.get_sync(k) for s in bkv}
            if len(vals) > 1:
                bad.append(("primary-backup-replicas-diverged", k, sorted(map(str, vals))))
        if bad:
            viol.append({"case": bad[0][0], "run": run, "scheme": f"primary-backup/{mode.name}/{nb}", "detail": [str(x) for x in bad[0][1:]]})
        # ---------------- chain
        craq = rng.random() < 0.5
        n = rng.choice([2, 3, 4])
        net = Network(name="net")
        nodes = build_chain([f"n{i}" for i in range(n)], net, lambda nm: KVStore(nm, write_latency=0.005, read_latency=0.001),
                            craq_enabled=craq)
        full_mesh(net, nodes, rng)
        head, tail = nodes[0], nodes[-1]
        bad = []

        class CClient(Entity):
            def handle_event(self, e, _bad=bad):
                m = e.context["metadata"]
                f = SimFuture()
                if m["op"] == "w":
                    yield 0.0, [Event(time=self.now, event_type="Write", target=head,
                                      context={"metadata": {"key": m["key"], "value": m["value"], "reply_future": f}})]
                    yield f
                    have = [num(x.store.get_sync(m["key"])) >= num(m["value"]) for x in nodes]
                    if not all(have):
                        _bad.append(("chain-ack-before-applied-at-every-node", m["value"], have))
                else:
                    yield 0.0, [Event(time=self.now, event_type="Read", target=m["node"],
                                      context={"metadata": {"key": m["key"], "reply_future": f}})]
                    r = yield f
                    if num(r.get("value")) > num(tail.store.get_sync(m["key"])):
                        _bad.append(("chain-read-returned-a-value-not-committed-at-the-tail", r.get("value"),
                                     tail.store.get_sync(m["key"]), m["node"].name))
        cl = CClient("client")
        sim = Simulation(entities=[net, cl] + nodes + [x.store for x in nodes], end_time=Instant.from_seconds(60))
        t = 1.0
        nw = rng.randint(3, 7)
        for i in range(nw):
            t += rng.uniform(0.0, 0.15)
            sim.schedule(Event(time=Instant.from_seconds(t), event_type="op", target=cl,
                               context={"metadata": {"op": "w", "key": rng.choice(keys), "value": f"v{i}"}}))
            for _ in range(rng.randint(0, 3)):
                sim.schedule(Event(time=Instant.from_seconds(t + rng.uniform(0.0, 0.6)), event_type="op", target=cl,
                                   context={"metadata": {"op": "r", "key": rng.choice(keys), "node": rng.choice(nodes)}}))
        sim.run()
        evals += nw
        for k in keys:
            vals = {x.store.get_sync(k) for x in nodes}
            if len(vals) > 1:
                bad.append(("chain-replicas-diverged", k, sorted(map(str, vals))))
        if bad:
            viol.append({"case": bad[0][0], "run": run, "scheme": f"chain/{'craq' if craq else 'plain'}/{n}", "detail": [str(x) for x in bad[0][1:]]})
        # ---------------- multi-leader (concurrent writers on different leaders, anti-entropy running)
        net = Network(name="net")
        nl = rng.choice([2, 3])
        ls = [LeaderNode(f"L{i}", KVStore(f"L{i}_kv", write_latency=0.005), net, anti_entropy_interval=1.0) for i in range(nl)]
        for a in ls:
            a.add_peers([b for b in ls if b is not a])
        full_mesh(net, ls, rng)
        sim = Simulation(entities=[net] + ls + [x.store for x in ls], end_time=Instant.from_seconds(40))
        nw = rng.randint(3, 8)
        for i in range(nw):
            sim.schedule(Event(time=Instant.from_seconds(1 + rng.uniform(0, 0.3)), event_type="Write", target=rng.choice(ls),
                               context={"metadata": {"key": rng.choice(keys), "value": f"v{i}"}}))
        for a in ls:
            ev = a.get_anti_entropy_event()
            if ev is not None:
                sim.schedule(ev)
        sim.run()
        evals += nw
        for k in keys:
            vals = {x.store.get_sync(k) for x in ls}
            if len(vals) > 1:
                viol.append({"case": "multi-leader-replicas-diverged", "run": run, "scheme": f"multi-leader/{nl}",
                             "detail": [k, sorted(map(str, vals))]})
                break
    return {"evaluations": evals, "violations": viol[:6]}


if __name__ == "__main__":
    args = [a for a in sys.argv[1:] if a != "--json"]
    seed = int(args[0]) if args else 0
    tier = args[1] if len(args) > 1 else "quick"
    r = _random_replication_runs(seed, tier)
    if "--json" in sys.argv:
        print("C17-RESULT " + json.dumps(r, default=str))
    else:
        print(json.dumps(r, indent=1, default=str))
        print("violations:", len(r["violations"]))

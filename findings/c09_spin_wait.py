"""C09 native reproduction: a blocked acquirer of a sync primitive busy-waits with `yield 0.0`.

Two processes contend for a Mutex (then a Semaphore, an RWLock writer, a Barrier and a Condition);
the holder keeps the lock for 1.0 s of simulated time.  The blocked process re-schedules itself at the
*same* instant forever (`while not acquired[0]: yield 0.0`), its continuation always sorts before the
holder's wake-up at t+1.0, so the clock never advances: Simulation.run() does not return.

usage:  /venv/bin/python findings/c09_spin_wait.py            (pinned tree: every scenario HANGS)
        PYTHONPATH=<patched copy> /venv/bin/python findings/c09_spin_wait.py   (with fixes/C09_sync-wait-on-future.diff: all finish)
Each scenario runs under a 5 s wall-clock watchdog.  Prints one line per scenario; exit code 1 if any hangs.
"""
import signal
import sys

from happysimulator import Entity, Event, Instant, Simulation
from happysimulator.components.sync import Barrier, Condition, Mutex, RWLock, Semaphore


class Hang(Exception):
    pass


def _alarm(sig, frm):
    raise Hang()


def run(name, entities, starts):
    log = []
    for e in entities:
        e.log = log
    sim = Simulation(entities=entities, end_time=Instant.from_seconds(10))
    for ent, t in starts:
        sim.schedule(Event(time=Instant.from_seconds(t), event_type="go", target=ent))
    signal.signal(signal.SIGALRM, _alarm)
    signal.alarm(5)
    try:
        sim.run()
        signal.alarm(0)
        print(f"{name}: finished, acquisitions at {log}")
        return True
    except Hang:
        print(f"{name}: HANG - run() still spinning after 5 s wall clock; acquisitions so far at {log}")
        return False
    finally:
        signal.alarm(0)


class Proc(Entity):
    def __init__(self, name, acquire, release, hold):
        super().__init__(name)
        self.acquire, self.release, self.hold = acquire, release, hold

    def handle_event(self, event):
        yield from self.acquire()
        self.log.append((self.name, self.now.to_seconds()))
        yield self.hold
        self.release()


def scenarios():
    ok = True
    m = Mutex("m")
    a, b = Proc("a", m.acquire, m.release, 1.0), Proc("b", m.acquire, m.release, 1.0)
    ok &= run("mutex    ", [m, a, b], [(a, 0.0), (b, 0.0)])
    s = Semaphore("s", 1)
    a, b = Proc("a", s.acquire, s.release, 1.0), Proc("b", s.acquire, s.release, 1.0)
    ok &= run("semaphore", [s, a, b], [(a, 0.0), (b, 0.5)])
    rw = RWLock("rw")
    a, b = Proc("reader", rw.acquire_read, rw.release_read, 1.0), Proc("writer", rw.acquire_write, rw.release_write, 1.0)
    ok &= run("rwlock   ", [rw, a, b], [(a, 0.0), (b, 0.1)])
    bar = Barrier("bar", 2)
    a, b = Proc("first", bar.wait, lambda: None, 0.0), Proc("second", bar.wait, lambda: None, 0.0)
    ok &= run("barrier  ", [bar, a, b], [(a, 0.0), (b, 1.0)])
    lock = Mutex("cl")
    cond = Condition("c", lock)

    class Waiter(Entity):
        def handle_event(self, event):
            yield from lock.acquire()
            yield from cond.wait()
            self.log.append((self.name, self.now.to_seconds()))
            lock.release()

    class Notifier(Entity):
        def handle_event(self, event):
            yield from lock.acquire()
            cond.notify()
            lock.release()
            self.log.append((self.name, self.now.to_seconds()))

    w, n = Waiter("waiter"), Notifier("notifier")
    ok &= run("condition", [cond, lock, w, n], [(w, 0.0), (n, 1.0)])
    return ok


if __name__ == "__main__":
    sys.exit(0 if scenarios() else 1)

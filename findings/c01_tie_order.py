"""C01 scenario: an event created DURING the run for timestamp T must be delivered after an event
created BEFORE the run for the same timestamp (creation order).  Prints the delivery order; exits 1
if the in-run event overtakes the pre-run one (the defect fixed by the index-source repair)."""
import sys
from happysimulator.core.simulation import Simulation
from happysimulator.core.entity import Entity
from happysimulator.core.event import Event
from happysimulator.core.temporal import Instant

log = []

class E(Entity):
    def handle_event(self, event):
        log.append((event.time.to_seconds(), event.event_type))
        if event.event_type == "kick":
            return [Event(time=Instant.from_seconds(1.0), event_type="run-created", target=self)]
        return None

e = E("e")
sim = Simulation(entities=[e], end_time=Instant.from_seconds(5.0))
sim.schedule(Event(time=Instant.from_seconds(0.0), event_type="kick", target=e))
sim.schedule(Event(time=Instant.from_seconds(1.0), event_type="pre", target=e))
sim.run()
print(log)
order = [t for _, t in log]
sys.exit(0 if order.index("pre") < order.index("run-created") else 1)

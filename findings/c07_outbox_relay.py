"""C07 native reproduction: OutboxRelay._handle_poll stamps each relay event with self.now inside the batch
loop, yields relay_latency after each entry, and returns the whole list afterwards: with the default
relay_latency=0.001 every relayed event is in the past when the engine receives it and is discarded."""
import logging, io
buf = io.StringIO(); logging.basicConfig(level=logging.WARNING, stream=buf)
from happysimulator import Simulation, Event, Instant, Entity
from happysimulator.components.microservice.outbox_relay import OutboxRelay
got = []
class Sink(Entity):
    def handle_event(self, e): got.append((self.now.to_seconds(), e.event_type))
class Writer(Entity):
    def handle_event(self, e):
        relay.write({"n": 1}); relay.write({"n": 2})
        return [relay.prime_poll()]
sink = Sink("sink"); relay = OutboxRelay("relay", downstream=sink); w = Writer("w")
sim = Simulation(entities=[sink, relay, w], end_time=Instant.from_seconds(1.0))
sim.schedule(Event(time=Instant.from_seconds(0.1), event_type="go", target=w))
sim.run()
dropped = buf.getvalue().count("Time travel detected")
print("relayed (stats):", relay.stats.entries_relayed, " received downstream:", len(got), " engine discards:", dropped)
assert relay.stats.entries_relayed == 2
print("VIOLATION reproduced" if len(got) < 2 else "ok")

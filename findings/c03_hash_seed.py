"""C03 scenarios: the same model + seeds must behave identically in every process (public API, real code).

Each scenario is run in fresh interpreters with PYTHONHASHSEED = 1, 2, 3 (and, for the wall-clock scenario,
with two different host speeds); it violates the property when the observations differ.

  /venv/bin/python findings/c03_hash_seed.py            (unrepaired /repo: 5 violations)
  /venv/bin/python findings/c03_hash_seed.py <copy>     (copy with the C03_* repairs: 2 left - the known findings)
Exit code = number of violating scenarios.
"""
import subprocess
import sys

ROOT = sys.argv[1] if len(sys.argv) > 1 else "/repo"

SCENARIOS = {
    # CountMinSketch._hash uses builtin hash(item): table layout / collision-dependent estimates vary
    "count-min-sketch-estimates": r'''
from happysimulator.sketching.count_min_sketch import CountMinSketch
c = CountMinSketch(width=8, depth=2, seed=1)
for w in ["alpha","beta","gamma","delta","eps","zeta","eta","theta","iota","kappa"]:
    c.add(w)
print([c.estimate(w) for w in ["alpha","beta","gamma","nope","nope2"]], c._counters)
''',
    # RandomEviction.evict: rng.choice(list(<set of str>)) - the list order is hash-randomised
    "random-eviction-victims": r'''
from happysimulator.components.datastore.eviction_policies import RandomEviction
p = RandomEviction(seed=7)
for k in ["alpha","beta","gamma","delta","eps","zeta","eta","theta"]:
    p.on_insert(k)
print([p.evict() for _ in range(4)])
''',
    # CachedStore.flush / WriteBack.get_keys_to_flush: write-backs are issued in set enumeration order
    "write-back-flush-order": r'''
from happysimulator import Simulation, Event, Instant, Entity
from happysimulator.components.datastore.cached_store import CachedStore
from happysimulator.components.datastore.kv_store import KVStore
from happysimulator.components.datastore.eviction_policies import LRUEviction
from happysimulator.components.datastore.write_policies import WriteBack
order = []
class RecordingKV(KVStore):
    def put(self, key, value):
        order.append((round(self.now.to_seconds(), 3), key))      # (time, key) of every backing-store write
        return (yield from super().put(key, value))
kv = RecordingKV("kv", read_latency=0.1, write_latency=0.1)
cs = CachedStore("cs", backing_store=kv, cache_capacity=16, eviction_policy=LRUEviction(), write_through=False)
class Script(Entity):
    def handle_event(self, e):
        for k in ["alpha","beta","gamma","delta","eps","zeta"]:
            yield from cs.put(k, k.upper())
        yield from cs.flush()
a = Script("script")
sim = Simulation(entities=[a, cs, kv], end_time=Instant.from_seconds(10))
sim.schedule(Event(time=Instant.Epoch, event_type="go", target=a))
sim.run()
wb = WriteBack(max_dirty=100)
for k in ["alpha","beta","gamma","delta","eps","zeta"]:
    wb.on_write(k, k) if hasattr(wb, "on_write") else wb._dirty_keys.add(k)
print(order, wb.get_keys_to_flush())
''',
    # an Event built before Simulation(...) keeps an index of the previous counter epoch
    "event-built-before-simulation": r'''
import sys
from happysimulator import Simulation, Event, Instant, Entity, Source
log = []
class X(Entity):
    def handle_event(self, e): log.append(e.event_type)
x = X("x")
for _ in range(PRIOR):            # earlier activity in the interpreter (e.g. a previous simulation)
    Event(time=Instant.from_seconds(9), event_type="junk", target=x)
pre = Event(time=Instant.from_seconds(1), event_type="user-pre", target=x)   # built BEFORE the Simulation
src = Source.constant(rate=1, target=x, event_type="src")                    # first event at t=1
sim = Simulation(sources=[src], entities=[x], end_time=Instant.from_seconds(1))
sim.schedule(pre)
sim.run()
print(log)
''',
    # TTLEviction() without clock_func reads time.time(): the victim depends on the speed of the host
    "ttl-eviction-default-clock": r'''
import time
from happysimulator.components.datastore.eviction_policies import TTLEviction
p = TTLEviction(ttl=0.05)
p.on_insert("a"); p.on_insert("b"); p.on_insert("a")
time.sleep(PAUSE)
print(p.evict())
''',
}
VARIANTS = {
    "event-built-before-simulation": [("1", {"PRIOR": "0"}), ("1", {"PRIOR": "5"})],
    "ttl-eviction-default-clock": [("1", {"PAUSE": "0.0"}), ("1", {"PAUSE": "0.1"})],
}

bad = 0
for name, code in SCENARIOS.items():
    outs = []
    for seed, subst in VARIANTS.get(name, [("1", {}), ("2", {}), ("3", {})]):
        src = code
        for k, v in subst.items():
            src = src.replace(k, v)
        r = subprocess.run(["/venv/bin/python", "-c", src], env={"PYTHONHASHSEED": seed, "PYTHONPATH": ROOT},
                           capture_output=True, text=True)
        outs.append(r.stdout.strip() or r.stderr.strip()[-300:])
    same = len(set(outs)) == 1
    print(f"{'ok       ' if same else 'VIOLATION'} {name}")
    for o in outs:
        print("     ", o[:200])
    bad += not same
sys.exit(bad)

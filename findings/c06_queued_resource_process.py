import warnings; warnings.simplefilter("ignore")
from happysimulator import Entity, Event, Instant, Simulation, Sink
from happysimulator.components.queued_resource import QueuedResource
from happysimulator.faults import FaultSchedule, CrashNode
log=[]
class R(QueuedResource):
    def has_capacity(self): return True
    def handle_queued_event(self, ev):
        log.append(("start", self.now.to_seconds()))
        yield 2.0
        log.append(("resumed", self.now.to_seconds()))
        yield 2.0
        log.append(("done", self.now.to_seconds()))
        return None
r=R("r")
fs=FaultSchedule(); fs.add(CrashNode("r", at=2.0, restart_at=10.0))
sim=Simulation(entities=[r], end_time=Instant.from_seconds(20), fault_schedule=fs)
sim.schedule(Event(time=Instant.from_seconds(1.0), event_type="job", target=r))
sim.run(); print(log)
import sys; sys.exit(1 if any(1 < t and 2.0 <= t < 10.0 for k,t in log if k!="start") else 0)

"""C12 native reproduction: single-decree Paxos (happysimulator.components.consensus.paxos) under random
per-message delays with competing proposers.  Usage:
    PYTHONPATH=<repo> /venv/bin/python findings/c12_paxos.py [first_seed last_seed [n_nodes [n_proposers]]]
Reports every seed on which two nodes report different decided values (agreement), a node reports a
value nobody proposed (validity: e.g. None), or a reported decision changes (stability).
Exit status 1 when any violation was seen."""
import random
import sys

from happysimulator import Entity, Event, Instant, Simulation
from happysimulator.components.consensus.paxos import PaxosNode
from happysimulator.components.network.link import NetworkLink
from happysimulator.components.network.network import Network
from happysimulator.core.temporal import Duration
from happysimulator.distributions.latency_distribution import LatencyDistribution


class RandLat(LatencyDistribution):
    def __init__(self, rng):
        super().__init__(0.1)
        self.rng = rng

    def get_latency(self, now):
        return Duration.from_seconds(self.rng.choice([0.01, 0.05, 0.2, 0.6, 1.5]))


class Kick(Entity):
    def __init__(self, nm, node, val):
        super().__init__(nm)
        self.node, self.val = node, val

    def handle_event(self, e):
        self.node.propose(self.val)
        return self.node.start_phase1()


def trial(seed, n=3, props=2):
    rng = random.Random(seed)
    random.seed(seed)
    net = Network(name="net")
    names = [chr(65 + i) for i in range(n)]
    nodes = [PaxosNode(nm, net, retry_delay=0.3) for nm in names]
    for nd in nodes:
        nd.set_peers(nodes)
    for a in nodes:
        for b in nodes:
            if a is not b:
                net.add_link(a, b, NetworkLink(name=f"{a.name}{b.name}", latency=RandLat(rng)))
    kicks = [Kick(f"k{i}", nodes[i], f"v{i}") for i in range(props)]
    sim = Simulation(entities=[net, *nodes, *kicks], end_time=Instant.from_seconds(20))
    for k in kicks:
        sim.schedule(Event(time=Instant.from_seconds(rng.choice([0, 0.02, 0.1, 0.3])), event_type="go", target=k))
    seen = {}
    problems = []

    def obs(e):
        for nd in nodes:
            if nd.is_decided:
                v = nd.decided_value
                if nd.name in seen and seen[nd.name] != v:
                    problems.append(f"stability: {nd.name} changed {seen[nd.name]!r} -> {v!r}")
                seen[nd.name] = v
    sim.control.on_event(obs)
    sim.run()
    vals = set(seen.values())
    proposed = {f"v{i}" for i in range(props)}
    if len(vals) > 1:
        problems.append(f"agreement: decided values {sorted(map(repr, vals))}")
    if vals - proposed:
        problems.append(f"validity: decided {sorted(map(repr, vals - proposed))} was never proposed")
    return problems, len(seen)


def sweep(lo, hi, configs=((3, 2), (3, 3), (4, 3), (5, 2), (5, 3))):
    """all configs x seeds lo..hi-1 -> {"evaluations": n, "violations": [{"case": ..}, ..]} (first 5 per config)"""
    out = {"evaluations": 0, "violations": [], "decided_runs": 0}
    for n, props in configs:
        shown = 0
        for seed in range(lo, hi):
            pr, nd = trial(seed, n, props)
            out["evaluations"] += 1
            out["decided_runs"] += nd > 0
            if pr and shown < 5:
                shown += 1
                out["violations"].append({"case": f"n={n} proposers={props} seed={seed}", "what": "; ".join(pr)})
    return out


if __name__ == "__main__" and "--json" in sys.argv:
    import json
    i = sys.argv.index("--json")
    print("C12-RESULT " + json.dumps(sweep(int(sys.argv[i + 1]), int(sys.argv[i + 2]))))
    sys.exit(0)

if __name__ == "__main__":
    lo, hi = (int(sys.argv[1]), int(sys.argv[2])) if len(sys.argv) > 2 else (0, 400)
    n = int(sys.argv[3]) if len(sys.argv) > 3 else 3
    props = int(sys.argv[4]) if len(sys.argv) > 4 else 2
    bad = decided_runs = 0
    for seed in range(lo, hi):
        pr, nd = trial(seed, n, props)
        decided_runs += nd > 0
        if pr:
            bad += 1
            if bad <= 8:
                print(f"seed {seed} n={n} proposers={props}: " + "; ".join(pr))
    print(f"seeds {lo}..{hi - 1}: {bad} violating runs, {decided_runs} runs with a decision")
    sys.exit(1 if bad else 0)

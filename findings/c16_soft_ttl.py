"""C16 scenario for SoftTTLCache: a request coalesced with an in-flight background refresh is served the
old entry although it is past its hard TTL (the refresh found the key deleted in the backing store, so the
entry was not replaced).  Exit 1 if an entry older than the hard TTL is served."""
import sys
from happysimulator import Simulation, Event, Instant, Entity
from happysimulator.components.datastore.soft_ttl_cache import SoftTTLCache
from happysimulator.components.datastore.kv_store import KVStore

kv = KVStore("kv", read_latency=0.2, write_latency=0.05)
kv.put_sync("k", "v0")
c = SoftTTLCache("c", backing_store=kv, soft_ttl=1.0, hard_ttl=2.0, cache_read_latency=0.0)
out = []


class Script(Entity):
    def handle_event(self, e):
        return e.context["fn"]()


def read():
    t0 = c.now.to_seconds()
    entry = c._cache.get("k")
    age = None if entry is None else round(t0 - entry.cached_at.to_seconds(), 3)
    v = yield from c.get("k")
    out.append((round(t0, 3), v, age))


def delete_in_store():
    kv.delete_sync("k")
    return None


a = Script("s")
sim = Simulation(entities=[a, c, kv], end_time=Instant.from_seconds(10))
for t, fn in [(0.0, read),                 # miss, cached at 0.2
              (2.1, read),                 # age 1.9: stale hit, starts the background refresh (done at 2.3)
              (2.15, delete_in_store),     # the key disappears from the backing store
              (2.25, read)]:               # age 2.05 >= hard TTL: hard miss, coalesced with the refresh
    sim.schedule(Event(time=Instant.from_seconds(t), event_type="step", target=a, context={"fn": fn}))
sim.run()
for t, v, age in out:
    print(f"get issued at {t}: entry age {age} -> {v!r}")
t, v, age = out[-1]
bad = v is not None and age is not None and age >= 2.0
print("VIOLATION: served an entry older than hard_ttl=2.0" if bad else "ok: expired entry not served")
sys.exit(1 if bad else 0)

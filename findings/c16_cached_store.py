"""C16 scenarios for CachedStore (public API, real engine).  Each scenario prints what it observed and
whether the property clause holds; exit code = number of scenarios that violate the property.

  PYTHONPATH=/repo /venv/bin/python findings/c16_cached_store.py          (unrepaired tree: 7 violations)
  PYTHONPATH=<patched copy> /venv/bin/python findings/c16_cached_store.py  (all repairs applied: 0)
"""
import sys
from happysimulator import Simulation, Event, Instant, Entity
from happysimulator.components.datastore.cached_store import CachedStore
from happysimulator.components.datastore.kv_store import KVStore
from happysimulator.components.datastore.eviction_policies import LRUEviction


class Script(Entity):
    """runs one generator function per scheduled event (event.context['fn'])"""

    def handle_event(self, e):
        return e.context["fn"]()


def run(cs, kv, steps, until=10.0):
    a = Script("script")
    sim = Simulation(entities=[a, cs, kv], end_time=Instant.from_seconds(until))
    for t, fn in steps:
        sim.schedule(Event(time=Instant.from_seconds(t), event_type="step", target=a, context={"fn": fn}))
    sim.run()


bad = 0


def verdict(name, ok, detail):
    global bad
    print(f"{'ok       ' if ok else 'VIOLATION'} {name}: {detail}")
    if not ok:
        bad += 1


# 1. write-back: a dirty entry is evicted without reaching the backing store
kv = KVStore("kv", read_latency=0.1, write_latency=0.1)
cs = CachedStore("cs", backing_store=kv, cache_capacity=1, eviction_policy=LRUEviction(), write_through=False)


def s1():
    yield from cs.put("a", "A1")
    yield from cs.put("b", "B1")        # evicts dirty 'a'
    yield from cs.flush()


run(cs, kv, [(0.0, s1)])
verdict("dirty-eviction", kv.get_sync("a") == "A1", f"after put a, put b (capacity 1), flush: backing a = {kv.get_sync('a')!r}")

# 2. write-back: a miss fill overwrites a concurrent write; the write is lost for good
kv = KVStore("kv", read_latency=0.2, write_latency=0.05)
kv.put_sync("k", "old")
cs = CachedStore("cs", backing_store=kv, cache_capacity=10, eviction_policy=LRUEviction(), write_through=False)
seen = []


def s2_read():
    seen.append((yield from cs.get("k")))


def s2_write():
    yield from cs.put("k", "new")


def s2_flush():
    yield from cs.flush()
    seen.append((yield from cs.get("k")))


run(cs, kv, [(0.0, s2_read), (0.1, s2_write), (1.0, s2_flush)])
verdict("fill-overwrites-write(write-back)", kv.get_sync("k") == "new" and seen[-1] == "new",
        f"get@0 (miss, fetch 0.2s), put new@0.1, flush@1.0: backing = {kv.get_sync('k')!r}, get@1 -> {seen[-1]!r}")

# 3. write-through: a read issued long after a completed write returns the old value (stale fill)
kv = KVStore("kv", read_latency=0.2, write_latency=0.3)
kv.put_sync("k", "old")
cs = CachedStore("cs", backing_store=kv, cache_capacity=10, eviction_policy=LRUEviction(), write_through=True)
seen = []


def s3_read():
    seen.append((yield from cs.get("k")))


def s3_write():
    yield from cs.put("k", "new")


run(cs, kv, [(0.0, s3_read), (0.1, s3_write), (1.0, s3_read)])
verdict("stale-after-completed-write(write-through)", seen[-1] == "new",
        f"get@0, put new@0.1 (done 0.4), get@1.0 -> {seen[-1]!r}, backing = {kv.get_sync('k')!r}")

# 3b. same with the entry invalidated between the write and the fill (needs the completion-time repair of put)
kv = KVStore("kv", read_latency=0.2, write_latency=0.3)
kv.put_sync("k", "old")
cs = CachedStore("cs", backing_store=kv, cache_capacity=10, eviction_policy=LRUEviction(), write_through=True)
seen = []


def s3b_inval():
    cs.invalidate("k")
    return None


run(cs, kv, [(0.0, s3_read), (0.1, s3_write), (0.15, s3b_inval), (1.0, s3_read)])
verdict("stale-after-completed-write+invalidate(write-through)", seen[-1] == "new",
        f"get@0, put new@0.1, invalidate@0.15, get@1.0 -> {seen[-1]!r}, backing = {kv.get_sync('k')!r}")

# 4. delete: a miss fill that raced with the delete keeps serving the deleted value
kv = KVStore("kv", read_latency=0.2, write_latency=0.3)
kv.put_sync("k", "old")
cs = CachedStore("cs", backing_store=kv, cache_capacity=10, eviction_policy=LRUEviction(), write_through=True)
seen = []


def s4_delete():
    yield from cs.delete("k")


run(cs, kv, [(0.0, s3_read), (0.1, s4_delete), (1.0, s3_read)])
verdict("deleted-value-served", seen[-1] is None,
        f"get@0, delete@0.1 (done 0.4), get@1.0 -> {seen[-1]!r}, backing = {kv.get_sync('k')!r}")

# 5. write-back: invalidate / invalidate_all drop the only copy of a write
kv = KVStore("kv", read_latency=0.1, write_latency=0.1)
cs = CachedStore("cs", backing_store=kv, cache_capacity=10, eviction_policy=LRUEviction(), write_through=False)
seen = []


def s5():
    yield from cs.put("k", "v1")
    cs.invalidate("k")
    yield from cs.flush()
    seen.append((yield from cs.get("k")))


run(cs, kv, [(0.0, s5)])
verdict("invalidate-drops-dirty", seen[-1] == "v1", f"put k (write-back), invalidate k, flush, get k -> {seen[-1]!r}")

kv = KVStore("kv", read_latency=0.1, write_latency=0.1)
cs = CachedStore("cs", backing_store=kv, cache_capacity=10, eviction_policy=LRUEviction(), write_through=False)
seen = []


def s5b():
    yield from cs.put("k", "v1")
    cs.invalidate_all()
    yield from cs.flush()
    seen.append((yield from cs.get("k")))


run(cs, kv, [(0.0, s5b)])
verdict("invalidate_all-drops-dirty", seen[-1] == "v1", f"put k (write-back), invalidate_all, flush, get k -> {seen[-1]!r}")

# 6. write-back: a put during flush's backing-store write is marked clean although it was never written
kv = KVStore("kv", read_latency=0.1, write_latency=0.3)
cs = CachedStore("cs", backing_store=kv, cache_capacity=10, eviction_policy=LRUEviction(), write_through=False)


def s6_first():
    yield from cs.put("k", "v1")
    yield from cs.flush()               # writes v1, takes 0.3 s


def s6_second():
    yield from cs.put("k", "v2")        # while the flush is in flight


def s6_flush():
    yield from cs.flush()


run(cs, kv, [(0.0, s6_first), (0.1, s6_second), (1.0, s6_flush)])
verdict("flush-marks-newer-write-clean", kv.get_sync("k") == "v2",
        f"put v1, flush (0.3 s) || put v2 @0.1, flush @1.0: backing = {kv.get_sync('k')!r}, dirty = {cs.get_dirty_keys()}")

sys.exit(bad)

"""C16 scenarios for MultiTierCache (public API, real engine); exit code = number of violations.
  a) get() promotes a value it read from tier 1 before a write completed over the newer tier-0 entry
  b) a miss fill that raced with delete() leaves the deleted value in tier 0 for good
  c) the miss fill of get() (_cache_value) overwrites a dirty write-back entry of tier 0
"""
import sys
from happysimulator import Simulation, Event, Instant, Entity
from happysimulator.components.datastore.cached_store import CachedStore
from happysimulator.components.datastore.multi_tier_cache import MultiTierCache
from happysimulator.components.datastore.kv_store import KVStore
from happysimulator.components.datastore.eviction_policies import LRUEviction


class Script(Entity):
    def handle_event(self, e):
        return e.context["fn"]()


def build(read_latency, write_latency):
    db = KVStore("db", read_latency=read_latency, write_latency=write_latency)
    db.put_sync("k", "old")
    l1 = CachedStore("l1", backing_store=db, cache_capacity=10, eviction_policy=LRUEviction(), cache_read_latency=0.0)
    mt = MultiTierCache("mt", tiers=[l1], backing_store=db)
    return db, l1, mt


def run(ents, steps):
    a = Script("script")
    sim = Simulation(entities=[a, *ents], end_time=Instant.from_seconds(10))
    for t, fn in steps:
        sim.schedule(Event(time=Instant.from_seconds(t), event_type="step", target=a, context={"fn": fn}))
    sim.run()


bad = 0
# a) promotion of a value read from tier 1 before a write completed overwrites the newer tier-0 entry
db = KVStore("db", read_latency=0.2, write_latency=0.05)
db.put_sync("k", "old")
l1 = CachedStore("l1", backing_store=db, cache_capacity=10, eviction_policy=LRUEviction(), cache_read_latency=0.0)
l2 = CachedStore("l2", backing_store=db, cache_capacity=10, eviction_policy=LRUEviction(), cache_read_latency=0.1)
l2._cache_put("k", "old")           # tier 1 holds the current value
mt = MultiTierCache("mt", tiers=[l1, l2], backing_store=db)
seen = []


def read():
    seen.append((yield from mt.get("k")))


def write():
    yield from mt.put("k", "new")


run([db, l1, l2, mt], [(0.0, write), (0.01, read), (1.0, read)])
ok = seen[-1] == "new"
print(f"{'ok       ' if ok else 'VIOLATION'} promotion-overwrites-write: put new@0 (done ~0.1), get@0.01 (tier-1 hit, 0.1 s), "
      f"get@1.0 -> {seen[-1]!r}; db = {db.get_sync('k')!r}")
bad += not ok

# b) deleted value served from tier 0
db, l1, mt = build(0.2, 0.3)
seen = []


def read():  # noqa: F811
    seen.append((yield from mt.get("k")))


def delete():
    yield from mt.delete("k")


run([db, l1, mt], [(0.0, read), (0.1, delete), (1.0, read)])
ok = seen[-1] is None
print(f"{'ok       ' if ok else 'VIOLATION'} deleted-value-served: get@0, delete@0.1 (done 0.4), get@1.0 -> {seen[-1]!r}; db = {db.get_sync('k')!r}")
bad += not ok
# c) the miss fill (_cache_value) overwrites a dirty write-back entry of tier 0: the write is lost for good
db = KVStore("db", read_latency=0.2, write_latency=0.05)
db.put_sync("k", "old")
l1 = CachedStore("l1", backing_store=db, cache_capacity=10, eviction_policy=LRUEviction(), write_through=False)
mt = MultiTierCache("mt", tiers=[l1], backing_store=db)
seen = []


def read():  # noqa: F811
    seen.append((yield from mt.get("k")))


def tier_write():
    yield from l1.put("k", "new")       # write-back write into the fastest tier


def flush():
    yield from l1.flush()


run([db, l1, mt], [(0.0, read), (0.1, tier_write), (1.0, flush), (2.0, read)])
ok = db.get_sync("k") == "new" and seen[-1] == "new"
print(f"{'ok       ' if ok else 'VIOLATION'} fill-overwrites-dirty-tier-entry: get@0 (fetch 0.2 s), tier-0 put new@0.1, flush@1.0: "
      f"db = {db.get_sync('k')!r}, get@2.0 -> {seen[-1]!r}")
bad += not ok
sys.exit(bad)

# C11 / L6: RaftNode._handle_append_entries_response accepts a success reply of an OLDER term.
# A 5-node cluster is driven through the public API (handle_event / submit) with a hand-chosen delivery
# order (the property quantifies over all delivery orders): messages returned by the handlers are
# delivered exactly as NetworkLink does (same event type, copied context, target = destination).
# Outcome on the unrepaired tree: leader A (term 3) commits and applies index 2 although only A and D
# store that entry (2 of 5), and C then wins term 4 without it: a committed entry is lost.
from happysimulator.core.clock import Clock
from happysimulator.core.event import Event
from happysimulator.core.temporal import Instant
from happysimulator.components.consensus.raft import RaftNode, RaftState
from happysimulator.components.network.network import Network
from happysimulator.core import sim_future


class RecSM:
    def __init__(self):
        self.applied = []

    def apply(self, cmd):
        self.applied.append(cmd)
        return len(self.applied)


clock = Clock(Instant.from_seconds(0))
net = Network(name="net")
net.set_clock(clock)
names = "ABCDE"
nodes = {n: RaftNode(n, net, state_machine=RecSM()) for n in names}
for n in nodes.values():
    n.set_clock(clock)
    n.set_peers(list(nodes.values()))
A, B, C, D, E = (nodes[n] for n in names)


def msgs(out):
    return [e for e in (out or []) if e.target is net]


def deliver(m):
    """what NetworkLink.handle_event does at the end of the delay"""
    md = m.context["metadata"]
    dst = nodes[md["destination"]]
    ev = Event(time=clock.now, event_type=m.event_type, target=dst, daemon=m.daemon, context=m.context.copy())
    return msgs(dst.handle_event(ev))


def to(ms, dest):
    return [m for m in ms if m.context["metadata"]["destination"] == dest][0]


def timeout(n):
    return msgs(n.handle_event(Event(time=clock.now, event_type="RaftElectionTimeout", target=n)))


def heartbeat(n):
    return msgs(n.handle_event(Event(time=clock.now, event_type="RaftHeartbeat", target=n)))


def elect(cand, voters):
    rv = timeout(cand)
    out = []
    for v in voters:
        for resp in deliver(to(rv, v.name)):
            out += deliver(resp)
    assert cand.state == RaftState.LEADER, (cand, cand.state)
    return out          # the first AppendEntries round of the new leader (not delivered)


# term 1: A leads (votes of B, C); A stores x1, x2 and replicates them to B only; B's success reply R is delayed
elect(A, [B, C])
A.submit("x1"); A.submit("x2")
R = deliver(to(heartbeat(A), "B"))[0]
assert R.context["metadata"]["success"] and R.context["metadata"]["match_index"] == 2 and R.context["metadata"]["term"] == 1
# term 2: C leads with the votes of D, E (none of them has x1, x2); stores y1, replicates it to A, B (overwriting x1, x2) and D
elect(C, [D, E])
C.submit("y1")
hb = heartbeat(C)
deliver(to(hb, "A")); deliver(to(hb, "B")); deliver(to(hb, "D"))
assert [e.command for e in A.log._entries] == ["y1"] and [e.command for e in B.log._entries] == ["y1"]
# term 3: A leads again (votes of D, E), stores z2 at index 2 and replicates it to D only
elect(A, [D, E])
assert A.current_term == 3
A.submit("z2")
acks = deliver(to(heartbeat(A), "D"))
for a in acks:
    deliver(a)
print("before the stale reply: A.commit_index =", A.log.commit_index)
# the delayed reply of term 1 arrives now
deliver(R)
print("after  the stale reply: A.commit_index =", A.log.commit_index, " match_index =", dict(A._match_index))
holders = [n.name for n in nodes.values() if len(n.log._entries) >= 2 and n.log._entries[1].command == "z2"]
print("entry (index 2, 'z2') is stored on", holders, "of 5 nodes; applied by A:", A._state_machine.applied)
# B (which never heard of term 3) times out twice and wins term 4 with the votes of C and E; its log does not
# contain the entry A committed
timeout(B)
elect(B, [C, E])
print("leader of term", B.current_term, "is B with log", [e.command for e in B.log._entries])
bad = A.log.commit_index >= 2 and len(holders) < 3
print("VIOLATION: committed without a majority and lost by the next leader" if bad else "ok: not committed")
raise SystemExit(1 if bad else 0)

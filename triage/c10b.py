import logging, inspect
logging.basicConfig(level=logging.WARNING)
from happysimulator import Simulation, Event, Instant, Entity
from happysimulator.components.rate_limiter.distributed import DistributedRateLimiter
from happysimulator.components.datastore.kv_store import KVStore
print(inspect.signature(DistributedRateLimiter.__init__))
got=[]
class D(Entity):
    def handle_event(self,e): got.append(round(self.now.to_seconds(),4))
d=D('d'); kv=KVStore('kv', read_latency=0.001, write_latency=0.001)
rl=DistributedRateLimiter('rl', downstream=d, backing_store=kv, global_limit=100, window_size=1.0)
sim=Simulation(entities=[d,kv,rl], end_time=Instant.from_seconds(2))
for t in (0.1,0.2,0.3): sim.schedule(Event(time=Instant.from_seconds(t), event_type='req', target=rl))
sim.run(); print('downstream received', got, 'forwarded stat', rl._requests_forwarded)

"""C12 native triage: LeaderElection (happysimulator.components.consensus.leader_election) - does a node ever report two
different leaders for the same term?

    PYTHONPATH=<repo> /venv/bin/python triage/c12_leader_election.py [first_seed last_seed] [--json]

Part 1 (minimal, public API only): one node, a victory announcement from n2 followed by a heartbeat of another
self-declared leader n3 carrying the SAME term number.
Part 2 (cluster): three nodes a < b < c on a real Network inside a real Simulation, Bully strategy, random per-message
delays.  a and b form the cluster, c joins at t = 6 s (add_member on all three).  After every event the pair
(current_term, current_leader) of every node is recorded; a violation is a node that shows two different non-None
leaders under one term number.
Exit status 1 when a violation was seen."""
import json
import random
import sys

from happysimulator import Entity, Event, Instant, Simulation
from happysimulator.components.consensus.election_strategies import BullyStrategy, RingStrategy
from happysimulator.components.consensus.leader_election import LeaderElection
from happysimulator.components.network.link import NetworkLink
from happysimulator.components.network.network import Network
from happysimulator.core.clock import Clock
from happysimulator.core.temporal import Duration
from happysimulator.distributions.latency_distribution import LatencyDistribution


class RandLat(LatencyDistribution):
    def __init__(self, rng):
        super().__init__(0.1)
        self.rng = rng

    def get_latency(self, now):
        return Duration.from_seconds(self.rng.choice([0.01, 0.05, 0.2, 0.6, 1.5]))


def minimal():
    """victory(n2) then heartbeat(n3) with the term the node is in"""
    net = Network(name="net")
    le = LeaderElection("n1", net, members={})
    clock = Clock(Instant.from_seconds(1.0))
    le.set_clock(clock)
    le.handle_event(Event(time=Instant.from_seconds(1.0), event_type="ElectionVictory", target=le,
                          context={"metadata": {"leader": "n2", "term": 1}}))
    first = (le.current_term, le.current_leader)
    le.handle_event(Event(time=Instant.from_seconds(1.0), event_type="LeaderHeartbeat", target=le,
                          context={"metadata": {"leader": "n3", "term": le.current_term}}))
    second = (le.current_term, le.current_leader)
    return first, second


class Joiner(Entity):
    def __init__(self, nodes):
        super().__init__("joiner")
        self.nodes = nodes

    def handle_event(self, e):
        for x in self.nodes:
            for y in self.nodes:
                x.add_member(y)
        return self.nodes[-1].start()


def trial(seed, strategy=BullyStrategy):
    rng = random.Random(seed)
    random.seed(seed)
    net = Network(name="net")
    a, b, c = (LeaderElection(nm, net, strategy=strategy(), election_timeout=2.0, heartbeat_interval=0.5) for nm in "abc")
    nodes = [a, b, c]
    for x in (a, b):
        for y in (a, b):
            x.add_member(y)
    for x in nodes:
        for y in nodes:
            if x is not y:
                net.add_link(x, y, NetworkLink(name=f"{x.name}{y.name}", latency=RandLat(rng)))
    joiner = Joiner(nodes)
    sim = Simulation(entities=[net, *nodes, joiner], end_time=Instant.from_seconds(40))
    for x in (a, b):
        for ev in x.start():
            sim.schedule(ev)
    sim.schedule(Event(time=Instant.from_seconds(6.0), event_type="join", target=joiner))
    seen = {n.name: {} for n in nodes}
    problems = []

    def obs(e):
        for n in nodes:
            t, l = n.current_term, n.current_leader
            if l is None:
                continue
            prev = seen[n.name].get(t)
            if prev is not None and prev != l:
                problems.append(f"{n.name}: term {t} leader {prev!r} -> {l!r} (after {e.event_type} at {e.time.to_seconds():.2f}s)")
            seen[n.name][t] = l
    sim.control.on_event(obs)
    sim.run()
    return problems


def main(argv):
    as_json = "--json" in argv
    nums = [int(x) for x in argv if x.lstrip("-").isdigit()]
    lo, hi = (nums + [0, 200])[:2] if len(nums) < 2 else nums[:2]
    out = {"evaluations": 0, "violations": []}
    first, second = minimal()
    out["evaluations"] += 1
    if first[0] == second[0] and first[1] != second[1]:
        out["violations"].append({"case": f"minimal: node n1 reports (term, leader) = {first} and then {second}"})
    for strat in (BullyStrategy, RingStrategy):
        shown = 0
        for seed in range(lo, hi):
            out["evaluations"] += 1
            pr = trial(seed, strat)
            if pr and shown < 3:
                shown += 1
                out["violations"].append({"case": f"cluster {strat.__name__} seed {seed}: {pr[0]} (+{len(pr) - 1} more)"})
    if as_json:
        print(json.dumps(out))
    else:
        print(f"evaluations={out['evaluations']} violations={len(out['violations'])}")
        for v in out["violations"]:
            print("  " + v["case"])
    return 1 if out["violations"] else 0


if __name__ == "__main__":
    sys.exit(main(sys.argv[1:]))

import random, sys, logging
from happysimulator import Simulation, Event, Instant, Entity
from happysimulator.components.consensus.raft import RaftNode, RaftState
from happysimulator.components.network.network import Network
from happysimulator.components.network.link import NetworkLink
from happysimulator.distributions.latency_distribution import LatencyDistribution
from happysimulator.core.temporal import Duration
class RandLat(LatencyDistribution):
    def __init__(self, rng, choices): super().__init__(0.1); self.rng=rng; self.c=choices
    def get_latency(self, now): return Duration.from_seconds(self.rng.choice(self.c))
class RecSM:
    def __init__(s): s.applied=[]
    def apply(s, cmd): s.applied.append(cmd); return len(s.applied)
    def snapshot(s): return list(s.applied)
    def restore(s, x): s.applied=list(x)
def trial(seed, n=3):
    rng=random.Random(seed); random.seed(seed)
    net=Network(name='net'); names=[chr(65+i) for i in range(n)]
    sms=[RecSM() for _ in names]
    nodes=[RaftNode(nm, net, state_machine=sm, election_timeout_min=0.3, election_timeout_max=0.6, heartbeat_interval=0.1) for nm,sm in zip(names,sms)]
    for nd in nodes: nd._peers=[p for p in nodes if p is not nd]
    lat=rng.choice([[0.005,0.02],[0.005,0.05,0.2],[0.01,0.1,0.4,0.9]])
    for a in nodes:
        for b in nodes:
            if a is not b: net.add_link(a,b,NetworkLink(name=f'{a.name}{b.name}', latency=RandLat(rng,lat)))
    cmds=[]
    class Client(Entity):
        def handle_event(s,e):
            # submit to whoever currently believes to be leader (any node: property says "submitted to any node")
            tgt=rng.choice(nodes); c=f'c{len(cmds)}'; cmds.append(c); tgt.submit(c); return None
    cl=Client('cl')
    sim=Simulation(entities=[net,cl]+nodes, end_time=Instant.from_seconds(8))
    for nd in nodes:
        for e in nd.start(): sim.schedule(e)
    for i in range(rng.randint(3,15)): sim.schedule(Event(time=Instant.from_seconds(rng.uniform(0.5,6)), event_type='submit', target=cl))
    leaders={}; viol=[]
    def obs(e):
        for nd in nodes:
            if nd._state==RaftState.LEADER:
                prev=leaders.setdefault(nd._current_term, nd.name)
                if prev!=nd.name: viol.append(('two leaders', nd._current_term, prev, nd.name))
        # applied prefixes must agree
        for i in range(len(sms)):
            for j in range(i+1,len(sms)):
                a,b=sms[i].applied,sms[j].applied; m=min(len(a),len(b))
                if a[:m]!=b[:m]: viol.append(('apply divergence', names[i], a[:m], names[j], b[:m]))
    sim.control.on_event(obs); sim.run()
    return viol[:1]
bad=[]
for seed in range(int(sys.argv[1]), int(sys.argv[2])):
    v=trial(seed)
    if v: bad.append((seed,v[0][:3]))
    if len(bad)>=6: break
print('violations', len(bad), bad)

"""C05 observation (outside the statement: liveness): validate_partitions accepts window_size <= 0; WindowedCoordinator.run
then never returns (the barrier time does not advance / moves backwards).  The run() loop contract in specs/C05.py
requires window_size > 0.   usage: PYTHONPATH=/repo python c05_window_nonpositive.py   (killed by SIGALRM after 5 s = hang)"""
import warnings; warnings.simplefilter("ignore")
from happysimulator import Entity, Event, Instant
from happysimulator.parallel import ParallelSimulation, PartitionLink, SimulationPartition
class N(Entity):
    def handle_event(self, ev): return None
a, b = N("a"), N("b")
for w in (0.0, -0.1):
    try:
        ps = ParallelSimulation([SimulationPartition("A", entities=[a]), SimulationPartition("B", entities=[b])],
                                links=[PartitionLink("A", "B", min_latency=0.1)], window_size=w, duration=1.0)
        print("accepted window_size", w, "->", ps._window_size)
    except ValueError as e:
        print("rejected", w, e)
ps.schedule(Event(time=Instant.from_seconds(0.5), event_type="x", target=a), partition="A")
import signal
signal.alarm(5)
ps.run(); print("run returned")

"""C05 bounded differential stand-in: random partitioned models run by ParallelSimulation (windowed coordinator,
real threads) and by one sequential Simulation must give every entity the same multiset of (time_ns, event_type,
token) deliveries.

Model family (seeded): P partitions x E entities.  Every event carries a token (id, hops).  On delivery an entity
records it and, while hops > 0, forwards the token to the entity chosen by a fixed function of (id, hops) with a
delay chosen by a fixed function of (id, hops): >= the link latency L when the destination lives in another
partition (L, 1.5 L, 2 L+1ns ...), any small delay otherwise.  Reactions depend only on the token, never on arrival
order, so the delivered multiset is independent of tie order.  Ingredients that the unit tests do not combine: idle
gaps of many windows between bursts, multi-hop chains across partitions, local events far in the future, daemon
heartbeats crossing partitions, a finite end_time that is not a multiple of the window, cross deliveries landing
exactly on window boundaries.

usage: c05_diff.py [n_models] [seed]   exit 0 = all equal
"""
import random
import sys
import warnings

warnings.simplefilter("ignore")


def run_models(n, seed, verbose=False):
    from happysimulator import Entity, Event, Instant, Simulation
    from happysimulator.parallel import ParallelSimulation, PartitionLink, SimulationPartition
    bad = []
    for m in range(n):
        rnd = random.Random(seed * 100003 + m)
        P = rnd.choice([2, 2, 3])
        E = rnd.choice([1, 2])
        L_ns = rnd.choice([100_000_000, 50_000_000, 333_333_333, 1_000_000])
        L = L_ns / 1e9
        end_s = rnd.choice([1.0, 2.5, 3.05, 7.0])
        names = [(p, e) for p in range(P) for e in range(E)]
        n_tok = rnd.randint(1, 6)
        # per token: start (time, entity, hops, daemon), routing/delay tables
        toks = []
        for t in range(n_tok):
            hops = rnd.randint(0, 6)
            route = [rnd.choice(names) for _ in range(hops + 1)]
            delays = [rnd.choice([0, 1, L_ns // 3, L_ns, L_ns + 1, 3 * L_ns // 2, 2 * L_ns, 10 * L_ns, 37 * L_ns])
                      for _ in range(hops + 1)]
            start_ns = rnd.choice([0, 1, L_ns, 2 * L_ns, rnd.randrange(0, int(end_s * 1e9))])
            toks.append({"route": route, "delays": delays, "start_ns": start_ns, "daemon": rnd.random() < 0.3})

        def build():
            logs = {}
            ents = {}

            class Node(Entity):
                def handle_event(self, ev):
                    md = ev.context["metadata"]
                    tid, hop = md["tid"], md["hop"]
                    logs[self.name].append((ev.time.nanoseconds, ev.event_type, tid, hop))
                    tk = toks[tid]
                    if hop >= len(tk["route"]) - 1:
                        return None
                    dst = tk["route"][hop + 1]
                    d = tk["delays"][hop + 1]
                    me = self.key
                    if dst[0] != me[0] and d < L_ns:
                        d = L_ns + d          # cross-partition: respect the declared minimum latency
                    out = [Event(time=Instant(ev.time.nanoseconds + d), event_type="tok", target=ents[dst], daemon=tk["daemon"],
                                 context={"metadata": {"tid": tid, "hop": hop + 1}})]
                    if (tid + hop) % 2 == 0:
                        # a timeout armed and disarmed in the same handler: a CANCELLED local event stays in the heap
                        # (sometimes as the last entry before a window barrier) and must simply be skipped
                        dead = Event(time=Instant(ev.time.nanoseconds + [L_ns // 2, L_ns - 1, L_ns, 3 * L_ns][(tid + 2 * hop) % 4]),
                                     event_type="dead", target=self, context={"metadata": {"tid": tid, "hop": -1}})
                        dead.cancel()
                        out.append(dead)
                    return out
            for k in names:
                e = Node(f"n{k[0]}_{k[1]}")
                e.key = k
                ents[k] = e
                logs[e.name] = []
            initial = []
            for tid, tk in enumerate(toks):
                k0 = tk["route"][0]
                initial.append((k0, Event(time=Instant(tk["start_ns"]), event_type="tok", target=ents[k0], daemon=tk["daemon"],
                                          context={"metadata": {"tid": tid, "hop": 0}})))
            return ents, logs, initial
        end = Instant.from_seconds(end_s)
        # sequential reference
        ents, logs_s, initial = build()
        sim = Simulation(entities=list(ents.values()), end_time=end)
        for _, ev in initial:
            sim.schedule(ev)
        sim.run()
        # partitioned
        ents, logs_p, initial = build()
        parts = [SimulationPartition(f"p{p}", entities=[ents[(p, e)] for e in range(E)]) for p in range(P)]
        links = [PartitionLink(f"p{a}", f"p{b}", min_latency=L) for a in range(P) for b in range(P) if a != b]
        ps = ParallelSimulation(parts, end_time=end, links=links)
        for k0, ev in initial:
            ps.schedule(ev, partition=f"p{k0[0]}")
        try:
            ps.run()
        except Exception as ex:      # noqa: BLE001
            bad.append({"case": f"model {m} seed {seed}: parallel run raised {type(ex).__name__}: {ex}"})
            continue
        for name in logs_s:
            # (the sequential loop delivers the first event LATER than end_time before it stops - its exit test reads the
            #  clock, not the next timestamp; such events are not live in the sense of C01 and are left out here)
            end_ns = end.nanoseconds
            a = sorted(x for x in logs_s[name] if x[0] <= end_ns)
            b = sorted(x for x in logs_p[name] if x[0] <= end_ns)
            if a != b:
                miss = [x for x in a if x not in b][:3]
                extra = [x for x in b if x not in a][:3]
                bad.append({"case": "parallel-differs-from-sequential", "model": m, "seed": seed, "entity": name,
                            "P": P, "E": E, "L_ns": L_ns, "end_s": end_s, "missing_in_parallel": miss, "extra_in_parallel": extra})
                if verbose:
                    print(bad[-1])
                break
        if len(bad) > 3:
            break
    rb = run_models_b(max(10, n // 5), seed, verbose)
    rc = run_models_c(3 if n <= 200 else 8, seed, verbose)
    return {"evaluations": n + rb["evaluations"] + rc["evaluations"], "violations": (bad + rb["violations"] + rc["violations"])[:6]}


def run_models_c(n, seed, verbose=False):
    """third family: FAN-IN under real thread overlap - two free-running producer partitions (per-partition event ids run in
    parallel and coincide) send many readings to one collector partition within the same windows; every reading must
    arrive exactly once.  Depends on OS thread scheduling: a loss shows with high probability per run, not with certainty."""
    from happysimulator import Entity, Event, Instant
    from happysimulator.parallel import ParallelSimulation, PartitionLink, SimulationPartition
    bad = []
    for m in range(n):
        count = 40000

        class Ticker(Entity):
            def __init__(self, name, period_ns):
                super().__init__(name)
                self.period_ns, self.sent, self.collector = period_ns, 0, None

            def handle_event(self, ev):
                if self.sent >= count:
                    return None
                self.sent += 1
                t = ev.time.nanoseconds
                return [Event(time=Instant(t + 500_000_000), event_type="Reading", target=self.collector,
                              context={"metadata": {"src": self.name, "k": self.sent}}),
                        Event(time=Instant(t + self.period_ns), event_type="Tick", target=self)]

        class Collector(Entity):
            def __init__(self, name):
                super().__init__(name)
                self.got = []

            def handle_event(self, ev):
                md = ev.context["metadata"]
                self.got.append((md["src"], md["k"]))
                return None
        a, b, c = Ticker("a", 100_000), Ticker("b", 130_000 + 1000 * ((seed + m) % 7)), Collector("c")
        a.collector = b.collector = c
        ps = ParallelSimulation([SimulationPartition("A", entities=[a]), SimulationPartition("B", entities=[b]),
                                 SimulationPartition("C", entities=[c])], end_time=Instant.from_seconds(100.0),
                                links=[PartitionLink("A", "C", min_latency=0.5), PartitionLink("B", "C", min_latency=0.5)])
        ps.schedule(Event(time=Instant.Epoch, event_type="Tick", target=a), partition="A")
        ps.schedule(Event(time=Instant.Epoch, event_type="Tick", target=b), partition="B")
        try:
            ps.run()
        except Exception as ex:      # noqa: BLE001
            bad.append({"case": f"family-c model {m}: parallel run raised {type(ex).__name__}: {ex}"})
            continue
        want = 2 * count
        if len(c.got) != want or len(set(c.got)) != want:
            bad.append({"case": "fan-in-readings-lost-or-duplicated", "family": "c", "model": m, "received": len(c.got),
                        "distinct": len(set(c.got)), "sent": want})
            if verbose:
                print(bad[-1])
    return {"evaluations": n, "violations": bad}


def run_models_b(n, seed, verbose=False):
    """second model family: a closed-loop load generator (a Source that also receives cross-partition feedback - sources and
    probes are cross-partition targets too), a backend whose generator handler PARKS ON A FUTURE that a later local event
    resolves (the resume must land on its own partition's heap and clock), run with the default pool and with
    max_workers=1 (one worker thread reused for every partition)."""
    from happysimulator import Entity, Event, Instant, Simulation
    from happysimulator.core.sim_future import SimFuture
    from happysimulator.load.source import Source
    from happysimulator.load.source_event import SourceEvent
    from happysimulator.parallel import ParallelSimulation, PartitionLink, SimulationPartition
    bad = []
    for m in range(n):
        rnd = random.Random(seed * 7919 + m)
        L = rnd.choice([0.05, 0.1, 0.013])
        rate = rnd.choice([2, 4, 7])
        end_s = rnd.choice([1.0, 2.0, 3.0])
        park = rnd.choice([0.0, 0.003, 0.021, L, 2.5 * L])
        every = rnd.choice([1, 2, 3])
        workers = rnd.choice([None, 1, 1])

        def build():
            logs = {"lg": [], "fe": [], "be": []}

            class FeedbackSource(Source):
                def handle_event(self, event):
                    if isinstance(event, SourceEvent):
                        return super().handle_event(event)
                    logs["lg"].append((event.time.nanoseconds, event.event_type))
                    return []

            class Frontend(Entity):
                def handle_event(self, event):
                    logs["fe"].append((self.now.nanoseconds, event.event_type))
                    if event.event_type == "Req":
                        return [Event(time=self.now + L, event_type="Fwd", target=self.backend)]
                    return []

            class Waker(Entity):
                def handle_event(self, event):
                    event.context["metadata"]["fut"].resolve(event.context["metadata"]["n"])
                    return []

            class Backend(Entity):
                seen = 0

                def handle_event(self, event):
                    logs["be"].append((self.now.nanoseconds, event.event_type))
                    self.seen += 1
                    k = self.seen
                    fut = SimFuture()
                    got = yield 0.0, [Event(time=self.now + park, event_type="Wake", target=self.waker,
                                            context={"metadata": {"fut": fut, "n": k}})]
                    got = yield fut
                    logs["be"].append((self.now.nanoseconds, f"resumed{got}"))
                    out = [Event(time=self.now + L, event_type="Reply", target=self.frontend)]
                    if k % every == 0:
                        out.append(Event(time=self.now + L, event_type="Feedback", target=self.gen))
                    return out
            fe, be, wk = Frontend("fe"), Backend("be"), Waker("wk")
            gen = FeedbackSource.constant(rate=rate, target=fe, event_type="Req", name="lg")
            fe.backend, be.frontend, be.gen, be.waker = be, fe, gen, wk
            return gen, fe, be, wk, logs
        end = Instant.from_seconds(end_s)
        gen, fe, be, wk, logs_s = build()
        Simulation(end_time=end, sources=[gen], entities=[fe, be, wk]).run()
        gen, fe, be, wk, logs_p = build()
        parts = [SimulationPartition("g", entities=[fe], sources=[gen]), SimulationPartition("s", entities=[be, wk])]
        links = list(PartitionLink.bidirectional("g", "s", min_latency=L))
        kw = {} if workers is None else {"max_workers": workers}
        try:
            ParallelSimulation(parts, end_time=end, links=links, **kw).run()
        except Exception as ex:      # noqa: BLE001
            bad.append({"case": f"family-b model {m} seed {seed}: parallel run raised {type(ex).__name__}: {ex}"})
            continue
        end_ns = end.nanoseconds
        for name in logs_s:
            a = sorted(x for x in logs_s[name] if x[0] <= end_ns)
            b = sorted(x for x in logs_p[name] if x[0] <= end_ns)
            if a != b:
                bad.append({"case": "parallel-differs-from-sequential", "family": "b", "model": m, "seed": seed, "entity": name,
                            "L": L, "rate": rate, "park": park, "max_workers": workers,
                            "missing_in_parallel": [x for x in a if x not in b][:3], "extra_in_parallel": [x for x in b if x not in a][:3]})
                if verbose:
                    print(bad[-1])
                break
        if len(bad) > 3:
            break
    return {"evaluations": n, "violations": bad}


if __name__ == "__main__":
    if "--json" in sys.argv:
        import json
        print(json.dumps(run_models(int(sys.argv[1]), int(sys.argv[2]))))
        sys.exit(0)
    n = int(sys.argv[1]) if len(sys.argv) > 1 else 60
    seed = int(sys.argv[2]) if len(sys.argv) > 2 else 0
    r = run_models(n, seed, verbose=True)
    print(r["evaluations"], "models,", len(r["violations"]), "violations")
    sys.exit(1 if r["violations"] else 0)

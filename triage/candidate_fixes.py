"""EXPLORATORY — candidate repairs tried on scratch copies while writing DESIGN.md.

Not applied to /repo, not part of the framework. Each function patches a *copy* of the repo
(`python candidate_fixes.py <name> <copy-root>`); the unedited 3002-test suite was then run on
that copy (results in DESIGN.md §7 step 4). They are recorded so that the later `fix:` commits
(one per defect, minimal, unguarded) do not have to be rediscovered.
"""
import sys, pathlib
def sub(root, rel, old, new, count=1):
    p=pathlib.Path(root)/rel; s=p.read_text()
    assert s.count(old)>=1, (rel, old[:50])
    p.write_text(s.replace(old,new,count))
FIX={}
def fix(f): FIX[f.__name__]=f; return f

@fix
def F2_horizon(root):   # peek before pop in both loops
    sub(root,'happysimulator/core/simulation.py',
"""        while heap_has_events() and current_time.nanoseconds <= end_time_ns:
            event = heap_pop()
""","""        heap_peek = heap.peek
        while heap_has_events() and current_time.nanoseconds <= end_time_ns:
            if heap_peek().time.nanoseconds > end_time_ns:
                break
            event = heap_pop()
""")
    sub(root,'happysimulator/core/simulation.py',
"""            event = heap.pop()

            # Skip cancelled events (lazy deletion)""","""            if heap.peek().time > end_time:
                break

            event = heap.pop()

            # Skip cancelled events (lazy deletion)""")
@fix
def F3_window_int(root):
    sub(root,'happysimulator/parallel/coordinator.py',
"""                window_end_s = current_time.to_seconds() + self._window_size
                # Clamp to end_time
                if self._end_time != Instant.Infinity:
                    end_s = self._end_time.to_seconds()
                    if window_end_s > end_s:
                        window_end_s = end_s
                window_end = Instant.from_seconds(window_end_s)
""","""                window_end = current_time + self._window_size
                # Clamp to end_time
                if self._end_time != Instant.Infinity and window_end > self._end_time:
                    window_end = self._end_time
""")
@fix
def F4_crash_gate(root):
    sub(root,'happysimulator/core/event.py',
"""        from happysimulator.core.sim_future import SimFuture

        tracing_on = _event_tracing_enabled""","""        from happysimulator.core.sim_future import SimFuture

        if getattr(self.target, "_crashed", False):
            return []

        tracing_on = _event_tracing_enabled""")
@fix
def F5_reset_faults(root):
    sub(root,'happysimulator/core/control/control.py',
"""        # Replay events that were scheduled before the first run()
        self._sim._replay_pre_run_events()
""","""        # Re-prime the fault schedule
        if self._sim._fault_schedule is not None:
            for event in self._sim._fault_schedule.start(self._sim._start_time, self._sim):
                self._sim._event_heap.push(event)

        # Replay events that were scheduled before the first run()
        self._sim._replay_pre_run_events()
""")
@fix
def F6_cms_hash(root):
    sub(root,'happysimulator/sketching/count_min_sketch.py',
"""        item_hash = hash(item)
""","""        item_hash = struct.unpack(
            ">Q", hashlib.sha256(repr(item).encode("utf-8")).digest()[:8]
        )[0]
""")
@fix
def F7_commit_monotone(root):
    sub(root,'happysimulator/components/streaming/consumer_group.py',
"""            for pid, offset in offsets.items():
                self._committed_offsets[consumer_name][pid] = offset
""","""            committed = self._committed_offsets[consumer_name]
            for pid, offset in offsets.items():
                if offset > committed.get(pid, 0):
                    committed[pid] = offset
""")
@fix
def F8_stale_now(root):
    sub(root,'happysimulator/components/messaging/message_queue.py',
"""        delivery_event = Event(
            time=now,
            event_type="message_delivery",""","""        delivery_event = Event(
            time=self._clock.now if self._clock else now,
            event_type="message_delivery",""")
    sub(root,'happysimulator/components/messaging/topic.py',
"""            delivery_event = Event(
                time=now,
                event_type="topic_message",
                target=subscription.subscriber,""","""            delivery_event = Event(
                time=self._clock.now if self._clock else now,
                event_type="topic_message",
                target=subscription.subscriber,""")
    sub(root,'happysimulator/components/rate_limiter/distributed.py',
"""            forward_event = Event(
                time=now,""","""            forward_event = Event(
                time=self.now,""")
@fix
def F9_synced_monotone(root):
    sub(root,'happysimulator/components/storage/wal.py',
"""            self._synced_up_to_sequence = seq
""","""            self._synced_up_to_sequence = max(self._synced_up_to_sequence, seq)
""")
@fix
def F11_flush_window(root):
    sub(root,'happysimulator/components/storage/lsm_tree.py',
"""        # Flush to SSTable
        sstable = old_memtable.flush()
        self._sstable_bytes_written += sstable.size_bytes

        # Write latency for creating SSTable on disk
        pages = max(1, sstable.key_count // 16)
        yield pages * self._sstable_write_latency
""","""        # Write latency for creating SSTable on disk (the immutable memtable
        # keeps serving reads until the SSTable is installed)
        pages = max(1, old_memtable.size // 16)
        yield pages * self._sstable_write_latency

        # Flush to SSTable
        sstable = old_memtable.flush()
        self._sstable_bytes_written += sstable.size_bytes
""")
@fix
def F14_raft_vote(root):
    sub(root,'happysimulator/components/consensus/raft.py',
"""        if term >= self._current_term:
            self._step_down(term)
""","""        if term > self._current_term:
            self._step_down(term)
        elif self._state != RaftState.FOLLOWER:
            # Same term: yield to the established leader but keep our vote
            self._state = RaftState.FOLLOWER
            if self._heartbeat_event:
                self._heartbeat_event.cancel()
                self._heartbeat_event = None
""")
@fix
def F15_backup_order(root):
    sub(root,'happysimulator/components/replication/primary_backup.py',
"""        # Apply locally
        yield from self._store.put(key, value)

        self._replications_applied += 1
        self._last_applied_seq = seq
""","""        # Apply locally (never let a reordered older write overwrite a newer one)
        if seq >= self._key_seq.get(key, 0):
            self._key_seq[key] = seq
            yield from self._store.put(key, value)

        self._replications_applied += 1
        self._last_applied_seq = max(self._last_applied_seq, seq)
""")
    sub(root,'happysimulator/components/replication/primary_backup.py',
"""        self._last_applied_seq = 0

    def downstream_entities(self) -> list[Entity]:
        return [self._primary]""","""        self._last_applied_seq = 0
        self._key_seq: dict[str, int] = {}

    def downstream_entities(self) -> list[Entity]:
        return [self._primary]""")
@fix
def F16_rl_order(root):
    sub(root,'happysimulator/components/rate_limiter/rate_limited_entity.py',
"""        if self._policy.try_acquire(now):
            return self._forward(event, now)

        # Queue the event""","""        if self._queue.is_empty() and self._policy.try_acquire(now):
            return self._forward(event, now)

        # Queue the event""")
@fix
def F17_pool_reserve(root):
    sub(root,'happysimulator/components/client/connection_pool.py',
"""        latency = self._connection_latency.get_latency(self.now)
        yield latency.to_seconds()

        self._next_connection_id += 1""","""        latency = self._connection_latency.get_latency(self.now)
        # Reserve the slot before the set-up latency so concurrent acquirers see it
        self._total_connections += 1
        yield latency.to_seconds()

        self._next_connection_id += 1""")
    sub(root,'happysimulator/components/client/connection_pool.py',
"""        self._total_connections += 1
        self._connections_created += 1
""","""        self._connections_created += 1
""")
@fix
def F18_cancel_before_start(root):
    sub(root,'happysimulator/faults/schedule.py',
"""            handle._events = fault_events
""","""            handle._events = fault_events
            if handle.cancelled:
                for fault_event in fault_events:
                    fault_event.cancel()
""")

@fix
def F2b_window_strict(root):
    sub(root,'happysimulator/core/simulation.py',
"""    def _execute_until(self, end_time_ns: int) -> None:""","""    def _execute_until(self, end_time_ns: int, *, strict: bool = False) -> None:""")
    sub(root,'happysimulator/core/simulation.py',
"""        while heap_has_events() and current_time.nanoseconds <= end_time_ns:
            event = heap_pop()
""","""        heap_peek = heap.peek
        while heap_has_events() and current_time.nanoseconds <= end_time_ns:
            # Windowed execution must not run past the barrier: a partition that
            # overshoots would discard later cross-partition arrivals as time travel.
            if strict and heap_peek().time.nanoseconds > end_time_ns:
                break
            event = heap_pop()
""")
    sub(root,'happysimulator/core/simulation.py',
"""                self._execute_until(window_end.nanoseconds)
""","""                self._execute_until(window_end.nanoseconds, strict=True)
""")
@fix
def F8b_stale_now(root):
    sub(root,'happysimulator/components/messaging/message_queue.py',
"""        delivery_event = Event(
            time=now,
            event_type="message_delivery",""","""        delivery_event = Event(
            time=self._clock.now if self._clock else now,
            event_type="message_delivery",""")
    sub(root,'happysimulator/components/messaging/topic.py',
"""            delivery_event = Event(
                time=now,
                event_type="topic_message",
                target=subscription.subscriber,""","""            delivery_event = Event(
                time=self._clock.now if self._clock else now,
                event_type="topic_message",
                target=subscription.subscriber,""")
    sub(root,'happysimulator/components/rate_limiter/distributed.py',
"""            forward_event = Event(
                time=now,""","""            forward_event = Event(
                time=self._clock.now if self._clock is not None else now,""")


@fix
def F1_index_source(root):
    # keep creation order across the global counter (pre-run / paused) and the per-heap counter (in-run)
    sub(root,'happysimulator/core/sim_future.py',
"""    heap_counter = getattr(heap, "_event_counter", None)
    if heap_counter is not None:
        _active_counter_var.set(heap_counter)
""","""    heap_counter = getattr(heap, "_event_counter", None)
    if heap_counter is not None:
        # Continue after every index issued so far (pre-run or while paused) so that
        # equal-timestamp events stay in creation order.
        from happysimulator.core import event as _event_module

        start = max(_peek_counter(heap_counter), _peek_counter(_event_module._global_event_counter))
        heap_counter = count(start)
        heap._event_counter = heap_counter
        _active_counter_var.set(heap_counter)
""")
    sub(root,'happysimulator/core/sim_future.py',
"""    from happysimulator.core.event import _active_counter_var

    _active_heap_var.set(None)
    _active_clock_var.set(None)
    _active_counter_var.set(None)
""","""    from happysimulator.core import event as _event_module
    from happysimulator.core.event import _active_counter_var

    heap = _active_heap_var.get()
    heap_counter = getattr(heap, "_event_counter", None)
    if heap_counter is not None:
        # Events created outside the run (e.g. while paused) must sort after in-run ones.
        nxt = max(_peek_counter(heap_counter), _peek_counter(_event_module._global_event_counter))
        _event_module._global_event_counter = count(nxt)
    _active_heap_var.set(None)
    _active_clock_var.set(None)
    _active_counter_var.set(None)
""")
    sub(root,'happysimulator/core/sim_future.py',
"""def _set_active_context(heap: EventHeap, clock: Clock) -> None:""","""def _peek_counter(counter: count) -> int:
    \"\"\"Return the next value of an itertools.count without consuming it.\"\"\"
    return counter.__reduce__()[1][0]


def _set_active_context(heap: EventHeap, clock: Clock) -> None:""")


@fix
def F1c_no_reset(root):
    sub(root,'happysimulator/core/simulation.py',
"""        reset_event_counter()

""","""""")
@fix
def F12_dirty_evict(root):
    sub(root,'happysimulator/components/datastore/cached_store.py',
"""                self._cache.pop(evict_key, None)
                self._dirty_keys.discard(evict_key)
""","""                evicted_value = self._cache.pop(evict_key, None)
                if evict_key in self._dirty_keys:
                    # Write-back: never drop unflushed data on eviction
                    self._backing_store.put_sync(evict_key, evicted_value)
                    self._dirty_keys.discard(evict_key)
                    self._writebacks += 1
""")
@fix
def F13_orset_tombstones(root):
    p='happysimulator/components/crdt/or_set.py'
    sub(root,p,"""        self._entries: dict[Any, set[tuple[str, int]]] = {}
        self._seq: int = 0
""","""        self._entries: dict[Any, set[tuple[str, int]]] = {}
        self._removed: set[tuple[str, int]] = set()
        self._seq: int = 0
""")
    sub(root,p,"""    __slots__ = ("_entries", "_node_id", "_seq")""","""    __slots__ = ("_entries", "_node_id", "_removed", "_seq")""")
    sub(root,p,"""            "seq": self._seq,
            "entries": entries,
""","""            "seq": self._seq,
            "entries": entries,
            "removed": [list(tag) for tag in sorted(self._removed)],
""")
    sub(root,p,"""            s._entries[element] = {tuple(tag) for tag in tags}
        return s
""","""            s._entries[element] = {tuple(tag) for tag in tags}
        s._removed = {tuple(tag) for tag in data.get("removed", [])}
        return s
""")
    sub(root,p,"""        if element in self._entries:
            self._entries[element].clear()
""","""        if element in self._entries:
            self._removed |= self._entries[element]
            self._entries[element].clear()
""")
    sub(root,p,"""        for element, other_tags in other._entries.items():
            if element not in self._entries:
                self._entries[element] = set(other_tags)
            else:
                self._entries[element] |= other_tags
""","""        self._removed |= other._removed
        for element, other_tags in other._entries.items():
            if element not in self._entries:
                self._entries[element] = set(other_tags)
            else:
                self._entries[element] |= other_tags
        for tags in self._entries.values():
            tags -= self._removed
""")


@fix
def F8c_topic_handover(root):
    # stamp deliveries when they are handed to the engine (at return), not when built inside the per-subscriber loop
    sub(root,'happysimulator/components/messaging/topic.py',
"""            delivery_events.append(delivery_event)

        return delivery_events

    def publish_sync""","""            delivery_events.append(delivery_event)

        if self._clock:
            emit_time = self._clock.now
            for delivery_event in delivery_events:
                delivery_event.time = emit_time
        return delivery_events

    def publish_sync""")
@fix
def F19_crash_depth(root):
    p='happysimulator/faults/node_faults.py'
    sub(root,p,"""        def crash(e: Event) -> None:
            entity._crashed = True  # type: ignore[attr-defined]
""","""        def crash(e: Event) -> None:
            entity._crash_depth = getattr(entity, "_crash_depth", 0) + 1  # type: ignore[attr-defined]
            entity._crashed = True  # type: ignore[attr-defined]
""")
    sub(root,p,"""            def restart(e: Event) -> None:
                entity._crashed = False  # type: ignore[attr-defined]
""","""            def restart(e: Event) -> None:
                entity._crash_depth = max(0, getattr(entity, "_crash_depth", 1) - 1)  # type: ignore[attr-defined]
                entity._crashed = entity._crash_depth > 0  # type: ignore[attr-defined]
""")
    sub(root,p,"""        def pause(e: Event) -> None:
            entity._crashed = True  # type: ignore[attr-defined]
""","""        def pause(e: Event) -> None:
            entity._crash_depth = getattr(entity, "_crash_depth", 0) + 1  # type: ignore[attr-defined]
            entity._crashed = True  # type: ignore[attr-defined]
""")
    sub(root,p,"""        def resume(e: Event) -> None:
            entity._crashed = False  # type: ignore[attr-defined]
""","""        def resume(e: Event) -> None:
            entity._crash_depth = max(0, getattr(entity, "_crash_depth", 1) - 1)  # type: ignore[attr-defined]
            entity._crashed = entity._crash_depth > 0  # type: ignore[attr-defined]
""")
@fix
def F22_raft_match_index(root):
    sub(root,'happysimulator/components/consensus/raft.py',
"""                "success": True,
                "from": self.name,
                "match_index": self._log.last_index,""","""                "success": True,
                "from": self.name,
                "match_index": prev_log_index + len(entries),""")

if __name__=='__main__':
    FIX[sys.argv[1]](sys.argv[2])

"""C17 native reproductions (public API only):
 (1) chain replication: Propagate messages for one key overtake each other on one hop -> the nodes behind
     that hop keep the OLDER value forever (replicas diverge although every write is acknowledged);
 (2) multi-leader: two concurrent writes to one key reach a third leader within the store's write latency
     -> no conflict resolution happens there, the later ARRIVAL wins, replicas diverge;
 (3) multi-leader: a local write whose store.put is in flight overwrites a concurrent remote version that
     arrived meanwhile and would win last-writer-wins -> the two leaders keep different values.
"""
from happysimulator import Simulation, Event, Instant, Entity, SimFuture
from happysimulator.core.temporal import Duration
from happysimulator.components.replication.chain_replication import build_chain
from happysimulator.components.replication.multi_leader import LeaderNode
from happysimulator.components.datastore.kv_store import KVStore
from happysimulator.components.network.network import Network
from happysimulator.components.network.link import NetworkLink
from happysimulator.distributions.constant import ConstantLatency
from happysimulator.distributions.latency_distribution import LatencyDistribution


class Scripted(LatencyDistribution):
    """per-message delay choices: the k-th message on the link takes delays[k] (then the last one)"""
    def __init__(self, delays):
        super().__init__(delays[0]); self.delays = list(delays); self.k = 0
    def get_latency(self, now):
        d = self.delays[min(self.k, len(self.delays) - 1)]; self.k += 1
        return Duration.from_seconds(d)


def chain_reorder():
    net = Network(name='net')
    nodes = build_chain(['head', 'mid', 'tail'], net, lambda n: KVStore(n, write_latency=0.001, read_latency=0.001))
    head, mid, tail = nodes
    for a in nodes:
        for b in nodes:
            if a is not b:
                lat = Scripted([0.30, 0.05]) if (a is head and b is mid) else ConstantLatency(0.05)
                net.add_link(a, b, NetworkLink(name=f'{a.name}-{b.name}', latency=lat))
    acks = []
    class Client(Entity):
        def handle_event(self, e):
            f = SimFuture()
            yield 0.0, [Event(time=self.now, event_type='Write', target=head,
                              context={'metadata': {'key': 'k', 'value': e.context['metadata']['v'], 'reply_future': f}})]
            yield f
            acks.append((e.context['metadata']['v'], round(self.now.to_seconds(), 3)))
    c = Client('c')
    sim = Simulation(entities=[net, c] + nodes + [n.store for n in nodes], end_time=Instant.from_seconds(5))
    for t, v in ((1.0, 'v1'), (1.1, 'v2')):
        sim.schedule(Event(time=Instant.from_seconds(t), event_type='op', target=c, context={'metadata': {'v': v}}))
    sim.run()
    state = {n.name: n.store.get_sync('k') for n in nodes}
    print('chain: acks', acks, 'final', state, '-> DIVERGED' if len(set(state.values())) > 1 else '-> converged')
    return len(set(state.values())) > 1


def _leaders(delays):
    net = Network(name='net')
    ls = [LeaderNode(n, KVStore(n + '_kv', write_latency=0.005), net) for n in ('A', 'B', 'C')]
    for a in ls:
        a.add_peers([b for b in ls if b is not a])
        for b in ls:
            if a is not b:
                net.add_link(a, b, NetworkLink(name=f'{a.name}-{b.name}', latency=ConstantLatency(delays.get((a.name, b.name), 0.05))))
    sim = Simulation(entities=[net] + ls + [x.store for x in ls], end_time=Instant.from_seconds(5))
    return sim, ls


def ml_arrival_race():
    # A writes at 1.000, B at 1.001 (concurrent; LWW winner is B's, later timestamp). At C, B's message arrives
    # at 1.011 and A's at 1.013 (< 5 ms apart): both find no existing version.
    sim, (A, B, C) = _leaders({('A', 'C'): 0.013, ('B', 'C'): 0.010})
    sim.schedule(Event(time=Instant.from_seconds(1.000), event_type='Write', target=A, context={'metadata': {'key': 'k', 'value': 'fromA'}}))
    sim.schedule(Event(time=Instant.from_seconds(1.001), event_type='Write', target=B, context={'metadata': {'key': 'k', 'value': 'fromB'}}))
    sim.run()
    state = {x.name: x.store.get_sync('k') for x in (A, B, C)}
    print('multi-leader arrival race: final', state, '-> DIVERGED' if len(set(state.values())) > 1 else '-> converged')
    return len(set(state.values())) > 1


def ml_local_write_race():
    # B writes at 0.999, A at 1.000 (concurrent; LWW winner is A's). A's own store.put is in flight from 1.000 to
    # 1.020; B's version arrives at A at ~1.010, finds no existing version (A's is recorded only after its put),
    # and is recorded at ~1.030 over A's newer one without any conflict resolution.
    sim, (A, B, C) = _leaders({('B', 'A'): 0.011, ('A', 'B'): 0.05})
    A.store._write_latency = 0.020
    sim.schedule(Event(time=Instant.from_seconds(1.000), event_type='Write', target=A, context={'metadata': {'key': 'k', 'value': 'fromA'}}))
    sim.schedule(Event(time=Instant.from_seconds(0.999), event_type='Write', target=B, context={'metadata': {'key': 'k', 'value': 'fromB'}}))
    sim.run()
    state = {x.name: x.store.get_sync('k') for x in (A, B, C)}
    print('multi-leader local-write race: final', state, '-> DIVERGED' if len(set(state.values())) > 1 else '-> converged')
    return len(set(state.values())) > 1


if __name__ == '__main__':
    r = [chain_reorder(), ml_arrival_race(), ml_local_write_race()]
    print('defects reproduced:', r)

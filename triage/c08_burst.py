"""C08 bounded stand-in for the pipeline-level clause "no simulated time passes while an item waits and the worker
has free capacity for it": bursts of k requests at ONE instant, reaching a Server (queue + driver + worker) with
concurrency c through paths of different hop counts, constant service time 1 s.  With FIFO and constant service the
only work-conserving schedule starts request i (arrival order) at  t0 + floor(i / c);  every request is completed
exactly once and none is rejected.

usage: c08_burst.py   exit 0 = every grid point matches
"""
import sys
import warnings

warnings.simplefilter("ignore")


def run_grid(tier="quick"):
    from happysimulator import Entity, Event, Instant, Server, Simulation, Sink
    from happysimulator.distributions.constant import ConstantLatency
    ks = (1, 2, 3, 5) if tier == "quick" else (1, 2, 3, 4, 5, 8, 13)
    cs = (1, 2, 3) if tier == "quick" else (1, 2, 3, 4, 7)
    hop_patterns = ("direct", "staggered") if tier == "quick" else ("direct", "staggered", "reverse")
    bad, n = [], 0
    for k in ks:
        for c in cs:
            for hp in hop_patterns:
                n += 1
                starts = {}

                class Srv(Server):
                    def handle_queued_event(self, e):
                        starts[e.context["metadata"]["tag"]] = self.now.nanoseconds
                        return (yield from super().handle_queued_event(e))
                sink = Sink("sink")
                s = Srv("s", concurrency=c, service_time=ConstantLatency(1.0), downstream=sink)

                class Hop(Entity):
                    """zero-delay relay: the request reaches the server at the same instant through one more hop"""
                    def __init__(self, name, nxt):
                        super().__init__(name)
                        self.nxt = nxt

                    def handle_event(self, e):
                        return [Event(time=self.now, event_type=e.event_type, target=self.nxt, context=e.context)]
                ents = [s, sink]
                sim = Simulation(entities=ents, end_time=Instant.from_seconds(1000))
                t0 = Instant.from_seconds(1)
                evs = []
                for i in range(k):
                    hops = 0 if hp == "direct" else (i % 3 if hp == "staggered" else (k - i) % 3)
                    tgt = s
                    for h in range(hops):
                        tgt = Hop(f"h{i}_{h}", tgt)
                        ents.append(tgt)
                    evs.append(Event(time=t0, event_type="req", target=tgt, context={"metadata": {"tag": i}}))
                sim = Simulation(entities=ents, end_time=Instant.from_seconds(1000))
                for e in evs:
                    sim.schedule(e)
                sim.run()
                st = s.stats
                if st.requests_completed != k or st.requests_rejected != 0 or len(starts) != k:
                    bad.append({"case": "burst-request-lost-or-rejected", "k": k, "concurrency": c, "hops": hp,
                                "completed": st.requests_completed, "rejected": st.requests_rejected, "started": len(starts)})
                    continue
                got = sorted(starts.values())
                want = [t0.nanoseconds + (i // c) * 1_000_000_000 for i in range(k)]
                if got != want:
                    late = next(i for i in range(k) if got[i] != want[i])
                    kind = ("burst-at-one-instant-served-one-at-a-time-with-free-capacity" if c >= 2 and got[late] > want[late]
                            else "burst-start-times-differ-from-the-work-conserving-schedule")
                    bad.append({"case": kind, "k": k, "concurrency": c, "hops": hp,
                                "start_times_s": [g / 1e9 for g in got], "work_conserving_s": [w / 1e9 for w in want]})
    return {"evaluations": n, "violations": bad}


if __name__ == "__main__":
    if "--json" in sys.argv:
        import json
        print(json.dumps(run_grid(sys.argv[1] if len(sys.argv) > 2 else "quick")))
        sys.exit(0)
    r = run_grid(sys.argv[1] if len(sys.argv) > 1 else "quick")
    for v in r["violations"][:10]:
        print(v)
    print(r["evaluations"], "grid points,", len(r["violations"]), "violations")
    sys.exit(1 if r["violations"] else 0)

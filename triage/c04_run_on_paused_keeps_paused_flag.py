"""C04 / Simulation.run re-entry: run() is documented as re-entrant ("calling run() on a paused simulation resumes
from where it left off"), but unlike control.resume()/step() it does not clear the paused flag: the loop then runs
ACTIVELY with is_paused == True.  Observable: hooks see is_paused True while events are being delivered, and
control.reset() - which refuses only `_is_running and not _is_paused` - is accepted from inside a handler/hook of the
active run (the loop keeps popping from the OLD heap object it holds in a local, the simulation now owns a new one).
Delivery order/times of the undisturbed run are not affected.  Exit 1 = the stale flag is observed."""
import sys
from happysimulator import Simulation, Event, Instant, Entity
from happysimulator.core.control.breakpoints import EventCountBreakpoint


class X(Entity):
    def handle_event(self, e):
        return None


def main():
    x = X("x")
    sim = Simulation(entities=[x], end_time=Instant.from_seconds(10))
    for i in range(1, 6):
        sim.schedule(Event(time=Instant.from_seconds(i), event_type="t", target=x))
    seen = []
    sim.control.on_event(lambda e: seen.append((sim.control.is_running, sim.control.is_paused)))
    sim.control.add_breakpoint(EventCountBreakpoint(count=2))
    sim.run()                                    # pauses after 2 deliveries (breakpoint)
    assert sim.control.is_paused and len(seen) == 2, (sim.control.is_paused, seen)
    seen.clear()
    sim.run()                                    # documented re-entry: continues ...
    stale = [s for s in seen if s == (True, True)]
    print("deliveries after re-entry:", len(seen), " observed (is_running, is_paused) during them:", sorted(set(seen)))
    if stale:
        print("STALE FLAG: the loop delivered", len(stale), "event(s) while the simulation was flagged paused")
        return 1
    return 0


if __name__ == "__main__":
    sys.exit(main())

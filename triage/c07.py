import logging
logging.basicConfig(level=logging.WARNING)
from happysimulator import Simulation, Event, Instant, Entity
from happysimulator.components.messaging.message_queue import MessageQueue
got=[]
class C(Entity):
    def handle_event(self, e): got.append((round(self.now.to_seconds(),4), e.event_type, e.context.get('message_id') is not None))
c=C('c'); mq=MessageQueue('mq', delivery_latency=0.05); mq.subscribe(c)
class P(Entity):
    def handle_event(self, e):
        yield from mq.publish(Event(time=self.now, event_type='payload', target=c))
        return [Event(time=self.now, event_type='poll', target=mq)]
p=P('p')
sim=Simulation(entities=[c,mq,p], end_time=Instant.from_seconds(2))
sim.schedule(Event(time=Instant.from_seconds(0.1), event_type='go', target=p))
sim.run(); print('consumer got', got, 'in_flight', mq.in_flight_count, 'pending', mq.pending_count)

from happysimulator import Simulation, Event, Instant, Entity, SimFuture, any_of, all_of
log=[]
class P(Entity):
    def handle_event(self, e):
        k=e.event_type
        if k=='pre':                      # any_of over an already-resolved input
            f1=SimFuture(); f2=SimFuture(); f2.resolve('two')
            r = yield any_of(f1,f2); log.append(('pre',self.now.to_seconds(),r))
        elif k=='nest':
            f1=SimFuture(); f2=SimFuture(); f3=SimFuture()
            def later(ev): f3.resolve('c'); f1.resolve('a'); f2.resolve('b'); f1.resolve('again')
            yield 0.0, [Event.once(time=self.now+0.5, event_type='t', fn=later)]
            r = yield all_of(any_of(f1,f3), all_of(f2,f1)); log.append(('nest',self.now.to_seconds(),r))
        elif k=='hook':
            f=SimFuture()
            yield 0.0, [Event.once(time=self.now+0.25, event_type='t', fn=lambda ev: f.resolve(1))]
            v = yield f
            yield 0.1
            log.append(('hook-body-end', self.now.to_seconds(), v))
            return [Event(time=self.now, event_type='ret', target=sinkE)]
class S(Entity):
    def handle_event(self,e): log.append(('sink',e.event_type,self.now.to_seconds()))
sinkE=S('s'); p=P('p')
sim=Simulation(entities=[p,sinkE], end_time=Instant.from_seconds(5))
sim.schedule(Event(time=Instant.from_seconds(1), event_type='pre', target=p))
sim.schedule(Event(time=Instant.from_seconds(2), event_type='nest', target=p))
ev=Event(time=Instant.from_seconds(3), event_type='hook', target=p)
ev.add_completion_hook(lambda t: (log.append(('HOOK', t.to_seconds())), None)[1])
sim.schedule(ev)
sim.run()
for l in log: print(l)

"""C10 native reproduction: Inductor re-arms its drain poll at now + 0 for ever when the smoothed
inter-arrival interval is positive but below one nanosecond (Duration.from_seconds truncates the
wait to 0 ns while _can_forward still says no) - the run spins at a frozen clock."""
import sys
from happysimulator import Simulation, Event, Instant, Entity
from happysimulator.components.rate_limiter.inductor import Inductor
class D(Entity):
    def handle_event(self, e): return None
d = D('d'); ind = Inductor('ind', downstream=d, time_constant=1.0)
polls = [0]
real = ind._handle_poll
def counting(ev):
    polls[0] += 1
    if polls[0] > 5000:
        print(f"VIOLATION: {polls[0]} polls at frozen clock {ev.time.nanoseconds} ns, smoothed_interval={ind._smoothed_interval!r}, queue_depth={ind.queue_depth}")
        sys.exit(1)
    return real(ev)
ind._handle_poll = counting
sim = Simulation(entities=[ind, d], end_time=Instant.from_seconds(1))
t0 = 1_000_000_000 // 2
for t in (t0, t0, t0 + 1, t0 + 1):            # two simultaneous arrivals, then two more one nanosecond later
    sim.schedule(Event(time=Instant(t), event_type='req', target=ind))
sim.run()
print("finished; polls:", polls[0], "forwarded:", ind.stats.forwarded, "queued now:", ind.queue_depth)

import sys, subprocess, json
code = r'''
from happysimulator.sketching.count_min_sketch import CountMinSketch
c = CountMinSketch(width=8, depth=2, seed=1)
for w in ["alpha","beta","gamma","delta","eps","zeta","eta","theta","iota","kappa"]:
    c.add(w)
print([c.estimate(w) for w in ["alpha","beta","gamma","nope","nope2"]], c._counters)
'''
outs=set()
for seed in ("1","2","3"):
    r=subprocess.run(["/venv/bin/python","-c",code],env={"PYTHONHASHSEED":seed,"PYTHONPATH":"/repo"},capture_output=True,text=True)
    print(seed, r.stdout.strip()[:160], r.stderr[-200:]); outs.add(r.stdout)
print("CMS differs across hash seeds:", len(outs)>1)

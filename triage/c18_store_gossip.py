"""C18 bounded stand-in: CRDTStore clusters gossiping serialised CRDT state, against an op-based oracle written from the
statement; plus the parts of the CRDT / clock API the deductive check cannot reach (dict comprehensions, sums,
sorted(set) loops): _serialize_state, to_dict/from_dict of the OR-set, value/elements/__eq__, VectorClock.merge.

Family (seeded): 2..4 stores, one CRDT type per cluster (GCounter, PNCounter, ORSet; LWWRegister replicas are written
through get_or_create(key).set(value, hlc.now()) because the store's Write handler cannot stamp a write), 1..3 keys,
8..20 steps; a step is a client Write at a random store or one gossip round a -> b (GossipTick at a whose only peer is
b: push, merge at b, response, merge at a), steps 1 s apart so that rounds never overlap.  After the schedule every
ordered pair gossips twice.  Checked after every step: what a store would send (_serialize_state) is every key with
the to_dict of its replica, and from_dict(to_dict(r)) has r's value and merges like r.  Checked at the end: all stores
hold the same value per key, and it is the oracle's: counter = increments - decrements; OR-set element present iff
some add of it was not observed by a remove (adds carry ids, every store has an observed set that travels with the
gossip); LWW register = the write with the greatest (physical, logical, node) stamp.

On the pinned tree two defects make the full family fail (see the two triage/c18_*.py repros), so the family is
narrowed by source tests: without fixes/C18_store-adopts-remote-state-under-own-identity.diff every key is created on
every store before the first gossip; without fixes/C18_orset-serialisation-keeps-element-type.diff OR-set elements are
strings only.

usage: c18_store_gossip.py [n_schedules] [seed] [--json] [--full]   (--full: never narrow the family)
"""
import inspect
import json
import random
import sys
import warnings

warnings.simplefilter("ignore")


def main(n, seed, full=False):
    from happysimulator import Event, Instant, Network, Simulation, datacenter_network
    from happysimulator.components.crdt.crdt_store import CRDTStore
    from happysimulator.components.crdt.g_counter import GCounter
    from happysimulator.components.crdt.pn_counter import PNCounter
    from happysimulator.components.crdt.or_set import ORSet
    from happysimulator.components.crdt.lww_register import LWWRegister
    from happysimulator.core.logical_clocks import HybridLogicalClock, VectorClock
    from happysimulator.core.node_clock import NodeClock, FixedSkew, LinearDrift
    from happysimulator.core.temporal import Duration

    identity_ok = full or "__class__(self.name)" in inspect.getsource(CRDTStore._merge_remote_state)
    typed_ok = full or "entries[str(element)]" not in inspect.getsource(ORSet.to_dict)
    bad, evals = [], 0

    def view(c):
        if isinstance(c, GCounter):
            return ("G", tuple(sorted((k, v) for k, v in c._counts.items() if v)))
        if isinstance(c, PNCounter):
            return ("PN", view(c._p), view(c._n))
        if isinstance(c, LWWRegister):
            return ("LWW", c._value, c._timestamp)
        return ("OR", frozenset((e, frozenset(t)) for e, t in c._entries.items() if t), frozenset(c._removed))

    def check_wire(tag, store):
        nonlocal evals
        st = store._serialize_state()
        evals += 1
        if set(st) != set(store._crdts) or any(st[k] != store._crdts[k].to_dict() for k in st):
            bad.append(f"{tag}: {store.name} would not send its full state: {sorted(st)} vs {sorted(store._crdts)}")
        for k, c in store._crdts.items():
            rt = type(c).from_dict(c.to_dict())
            if view(rt) != view(c) or rt.value != c.value or rt.node_id != c.node_id:
                bad.append(f"{tag}: {store.name}[{k}] round trip changed the replica: {c.to_dict()} -> {rt.to_dict()}")
            other = type(c)("fresh")
            other2 = type(c)("fresh")
            other.merge(c)
            other2.merge(rt)
            if view(other) != view(other2):
                bad.append(f"{tag}: {store.name}[{k}] the round-tripped replica merges differently")

    for m in range(n):
        rnd = random.Random(seed * 7919 + m)
        kind = rnd.choice(["G", "PN", "OR", "LWW"])
        factory = {"G": GCounter, "PN": PNCounter, "OR": ORSet, "LWW": LWWRegister}[kind]
        N = rnd.choice([2, 2, 3, 4])
        keys = [f"key{i}" for i in range(rnd.choice([1, 2, 3]))]
        elems = ["a", "b", "1"] + ([1, 7, (1, 2)] if typed_ok else [])
        net = Network(name="net")
        stores = [CRDTStore(f"n{i}", network=net, crdt_factory=lambda nid, f=factory: f(nid), gossip_interval=1000.0)
                  for i in range(N)]
        for a in stores:
            a.add_peers([b for b in stores if b is not a])
            for b in stores:
                if a is not b and stores.index(a) < stores.index(b):
                    net.add_bidirectional_link(a, b, datacenter_network(f"l{a.name}{b.name}"))
        sim = Simulation(start_time=Instant.Epoch, end_time=Instant.from_seconds(10_000.0), sources=[], entities=[*stores, net])
        # node clocks with skew / drift for the LWW stamps
        models = [None, FixedSkew(Duration.from_seconds(-0.5)), LinearDrift(50_000.0), FixedSkew(Duration.from_seconds(3.0))]
        hlcs = []
        for i, s in enumerate(stores):
            nc = NodeClock(models[i % 4])
            nc.set_clock(s._clock)
            hlcs.append(HybridLogicalClock(s.name, physical_clock=nc))
        if not identity_ok:
            for s in stores:
                for k in keys:
                    s.get_or_create(k)
        # oracle state
        incs = {k: 0 for k in keys}
        decs = {k: 0 for k in keys}
        adds = {k: {} for k in keys}                  # add id -> element
        removed = {k: set() for k in keys}            # add ids observed by some remove
        observed = [{k: set() for k in keys} for _ in stores]
        writes = {k: [] for k in keys}                # (stamp, value)
        seen_ts = [{k: None for k in keys} for _ in stores]
        next_id = [0]
        t = [0.0]
        events = []

        def at(fn, dt=0.0):
            events.append(Event.once(time=Instant.from_seconds(t[0] + dt), event_type="step", fn=fn))

        def write(i, k, op, val):
            def run(_e):
                s = stores[i]
                if op == "increment":
                    incs[k] += val
                elif op == "decrement":
                    decs[k] += val
                elif op == "add":
                    adds[k][next_id[0]] = val
                    observed[i][k].add(next_id[0])
                    next_id[0] += 1
                elif op == "remove":
                    removed[k] |= {a for a in observed[i][k] if adds[k][a] == val}
                if kind == "LWW":
                    # (an HLC must also see the stamps its node has merged: receive() them first)
                    cur = s.crdts.get(k)
                    if cur is not None and cur.timestamp is not None:
                        hlcs[i].receive(cur.timestamp)
                    ts = hlcs[i].now()
                    s.get_or_create(k).set(val, ts)
                    writes[k].append((ts, val))
                    return None
                return Event(time=s.now, event_type="Write", target=s, context={"metadata": {"key": k, "operation": op, "value": val}})
            t[0] += 1.0
            at(run)

        def gossip(i, j):
            def run(_e):
                a, b = stores[i], stores[j]
                a._peers = [b]
                for k in keys:
                    observed[j][k] |= observed[i][k]
                    observed[i][k] |= observed[j][k]
                return Event(time=a.now, event_type="GossipTick", target=a, daemon=False)

            def restore(_e):
                stores[i]._peers = [b for b in stores if b is not stores[i]]
                for s in stores:
                    check_wire(f"model {m} ({kind})", s)
            t[0] += 1.0
            at(run)
            at(restore, 0.5)

        for _ in range(rnd.randint(8, 20)):
            if rnd.random() < 0.6:
                i, k = rnd.randrange(N), rnd.choice(keys)
                if kind == "G":
                    op, val = "increment", rnd.randint(1, 5)
                elif kind == "PN":
                    op, val = rnd.choice(["increment", "decrement"]), rnd.randint(1, 5)
                elif kind == "OR":
                    op, val = rnd.choice(["add", "add", "remove"]), rnd.choice(elems)
                else:
                    op, val = "set", rnd.randint(0, 99)
                write(i, k, op, val)
            else:
                i = rnd.randrange(N)
                j = rnd.choice([x for x in range(N) if x != i])
                gossip(i, j)
        for _round in range(2):
            for i in range(N):
                for j in range(N):
                    if i != j:
                        gossip(i, j)
        sim.schedule(events)
        try:
            sim.run()
        except Exception as e:      # noqa: BLE001
            bad.append(f"model {m} ({kind}, seed {seed}): {type(e).__name__}: {e}")
            continue
        evals += 1
        for k in keys:
            if kind in ("G", "PN"):
                want = incs[k] - decs[k]
                touched = incs[k] or decs[k]
            elif kind == "OR":
                want = frozenset(e for a, e in adds[k].items() if a not in removed[k])
                touched = bool(adds[k])
            else:
                want = max(writes[k], key=lambda w: (w[0].physical_ns, w[0].logical, w[0].node_id))[1] if writes[k] else None
                touched = bool(writes[k])
            got = [s.crdts[k].value if k in s.crdts else None for s in stores]
            if not touched:
                want = got[0]
            if any(g != want for g in got):
                bad.append(f"model {m} ({kind}, {N} stores, seed {seed}) key {k}: replicas hold {got}, specified value {want!r}")
            ids = [s.crdts[k].node_id for s in stores if k in s.crdts]
            if identity_ok and ids != [s.name for s in stores if k in s.crdts]:
                bad.append(f"model {m} ({kind}) key {k}: replicas carry the node ids {ids}")
            reps = [s.crdts[k] for s in stores if k in s.crdts]
            if any(r != reps[0] for r in reps):
                bad.append(f"model {m} ({kind}) key {k}: replicas are not == after full gossip")

    # ---- VectorClock.merge / GCounter.value / ORSet.elements on random states
    for m in range(n):
        rnd = random.Random(seed * 31 + m)
        ids = ["a", "b", "c", "d"]
        x = VectorClock("a", rnd.sample(ids, rnd.randint(0, 3)))
        y = VectorClock("b", rnd.sample(ids, rnd.randint(0, 3)))
        for _ in range(rnd.randint(0, 6)):
            c, o = (x, y) if rnd.random() < 0.5 else (y, x)
            rnd.choice([c.tick, lambda c=c, o=o: c.receive(o.send())])()
        bx, by = x.snapshot(), y.snapshot()
        z = x.merge(y)
        evals += 1
        zs = z.snapshot()
        if any(zs.get(k, 0) != max(bx.get(k, 0), by.get(k, 0)) for k in ids) or z.node_id != "a" \
                or x.snapshot() != bx or y.snapshot() != by or set(zs) - set(ids):
            bad.append(f"VectorClock.merge({bx}, {by}) = {zs}")
        g = GCounter("a")
        g._counts = {k: rnd.randint(0, 9) for k in rnd.sample(ids, rnd.randint(0, 4))}
        if g.value != sum(g._counts.values()):
            bad.append(f"GCounter.value {g.value} for {g._counts}")
    return {"evaluations": evals, "violations": bad[:8], "narrowed": {"identity": not identity_ok, "element_types": not typed_ok}}


if __name__ == "__main__":
    args = [a for a in sys.argv[1:] if not a.startswith("--")]
    n = int(args[0]) if args else 150
    seed = int(args[1]) if len(args) > 1 else 0
    r = main(n, seed, full="--full" in sys.argv)
    if "--json" in sys.argv:
        print(json.dumps(r))
    else:
        print(r["evaluations"], "evaluations;", "narrowed:", r["narrowed"])
        for v in r["violations"]:
            print("VIOLATION", v)
    sys.exit(1 if r["violations"] else 0)

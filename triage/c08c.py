from happysimulator import Simulation, Event, Instant, Entity, Server, Sink
from happysimulator.distributions.constant import ConstantLatency
depth=1
sink=Sink('sink'); s=Server('s', concurrency=1, service_time=ConstantLatency(1.0), downstream=sink)
class Hop(Entity):
    def __init__(self,n,left): super().__init__(n); self.left=left
    def handle_event(self,e):
        if self.left==0: return [Event(time=self.now, event_type='req', target=s, context={'metadata':{'tag':'b'}})]
        self.left-=1; return [Event(time=self.now, event_type='hop', target=self)]
h=Hop('h',depth)
class Kick(Entity):
    def handle_event(self,e):
        return [Event(time=self.now, event_type='req', target=s, context={'metadata':{'tag':'a'}}), Event(time=self.now, event_type='hop', target=h)]
k=Kick('k')
sim=Simulation(entities=[s,sink,h,k], end_time=Instant.from_seconds(3))
sim.schedule(Event(time=Instant.from_seconds(1), event_type='go', target=k))
sim.control.on_event(lambda e: print(round(e.time.to_seconds(),3), e._sort_index, e.event_type, getattr(e.target,'name',None), type(e).__name__, 'active',s.active_requests,'depth',s.depth))
sim.run()

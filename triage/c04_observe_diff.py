"""C04 bounded differential stand-in: the SAME seeded model is run (A) plain, (B) with the control surface
attached, (C) with event/time hooks and non-firing breakpoints of every class, (D) with an in-memory trace recorder,
(E) recorder + control driven by a random pause / step(n) / resume / breakpoint schedule, (F) reset() + run() again.
Every mode must give the delivery log (time_ns, entity, event type, token, hops) of mode A, the same per-entity
counters, the same processed / cancelled counts, final time and left-over heap.  Also checked, from the statement:
step(n) delivers exactly n events unless the run ends; a count breakpoint pauses right after the first delivery
that satisfies it; every hook is called exactly once per delivery in registration order with that event, a removed
hook never; MetricBreakpoint.should_break (outside the verifier's reach: getattr by a data-dependent name) is a
pure read whose answer is op(attribute, threshold); record() of the recorder never raises.

Model family: N relay entities; tokens hop along a seeded route with delays on a 0.25 s grid (many equal
timestamps: tie order matters), some hops fan out, some cancel the entity's oldest still-pending event (lazy
deletion: cancelled pops must not be counted as steps), daemon heartbeats, finite end_time or auto-termination.

usage: c04_observe_diff.py [n_models] [seed] [--json]     exit 0 = all equal
"""
import json
import random
import sys
import warnings

warnings.simplefilter("ignore")


def build(rnd_seed, recorder=None):
    from happysimulator import Entity, Event, Instant, Simulation
    rnd = random.Random(rnd_seed)
    n = rnd.randint(2, 4)
    log = []

    class Relay(Entity):
        def __init__(self, name):
            super().__init__(name)
            self.count = 0
            self.pending = []

        def handle_event(self, e):
            md = e.context["metadata"]
            tok, hops = md["tok"], md["hops"]
            md["hops"] = hops - 1       # a handler may use the delivered event's own metadata in place (hop budget)
            log.append((self.now.nanoseconds, self.name, e.event_type, tok, hops))
            self.count += 1
            if hops <= 0:
                return None
            nxt, delay_q, fan, cancel = table[(tok, hops)]
            if cancel and self.pending:
                self.pending.pop(0).cancel()
            out = []
            for k in range(fan):
                ev = Event(time=Instant(self.now.nanoseconds + (delay_q + k) * 250_000_000), event_type=f"t{tok}",
                           target=nodes[(nxt + k) % n], daemon=md["daemon"],
                           context={"metadata": {"tok": tok, "hops": hops - 1, "daemon": md["daemon"]}})
                out.append(ev)
            if out:
                self.pending.append(out[-1])
            return out

    nodes = [Relay(f"n{i}") for i in range(n)]
    table = {}
    starts = []
    for tok in range(rnd.randint(1, 5)):
        hops = rnd.randint(0, 5)
        daemon = rnd.random() < 0.2
        for h in range(1, hops + 1):
            table[(tok, h)] = (rnd.randrange(n), rnd.choice([0, 0, 1, 1, 2, 4]), rnd.choice([1, 1, 1, 2]), rnd.random() < 0.25)
        starts.append((rnd.choice([0, 0, 1, 2, 3]) * 250_000_000, rnd.randrange(n), tok, hops, daemon))
    end = rnd.choice([None, 2.0, 3.25, 6.0])
    kw = {} if end is None else {"end_time": Instant.from_seconds(end)}
    if end is None and all(s[4] for s in starts):
        starts[0] = starts[0][:4] + (False,)
    sim = Simulation(entities=nodes, trace_recorder=recorder, **kw)
    for t_ns, i, tok, hops, daemon in starts:
        sim.schedule(Event(time=Instant(t_ns), event_type=f"t{tok}", target=nodes[i], daemon=daemon,
                           context={"metadata": {"tok": tok, "hops": hops, "daemon": daemon}}))
    return sim, nodes, log


def final_state(sim, nodes, log):
    left = sorted((e.time.nanoseconds, e.event_type, e.cancelled) for e in sim._event_heap._heap)
    return {"log": list(log), "counts": [x.count for x in nodes], "processed": sim._events_processed,
            "cancelled": sim._events_cancelled, "now": sim._current_time.nanoseconds, "left": left,
            "running": sim._is_running, "paused": sim._is_paused}


def engine_snapshot(sim, nodes):
    h = sim._event_heap
    return (id(h), [id(e) for e in h._heap], [(e.time.nanoseconds, e._sort_index, e.cancelled) for e in h._heap],
            h._primary_event_count, sim._clock.now.nanoseconds, sim._current_time.nanoseconds, sim._events_processed,
            sim._events_cancelled, sim._is_running, sim._is_paused, [(x.count, len(x.pending)) for x in nodes])


def run_models(n_models, seed):
    from happysimulator import Instant
    from happysimulator.core.control.breakpoints import (ConditionBreakpoint, EventCountBreakpoint, EventTypeBreakpoint,
                                                         MetricBreakpoint, TimeBreakpoint)
    from happysimulator.core.control.state import BreakpointContext
    from happysimulator.instrumentation.recorder import InMemoryTraceRecorder
    import operator
    bad = []
    evals = 0

    def differ(m, mode, ref, got):
        for k in ref:
            if k in ("running", "paused"):
                continue
            if ref[k] != got[k]:
                bad.append({"model": m, "mode": mode, "field": k, "plain": str(ref[k])[:160], "observed": str(got[k])[:160]})
                return

    for m in range(n_models):
        ms = seed * 1_000_003 + m
        rnd = random.Random(ms ^ 0x5EED)
        # ---- A plain
        sim, nodes, log = build(ms)
        sim.run()
        ref = final_state(sim, nodes, log)
        evals += 1
        # ---- B control attached, nothing else
        sim, nodes, log = build(ms)
        sim.control
        sim.run()
        differ(m, "control-attached", ref, final_state(sim, nodes, log))
        # ---- C hooks + breakpoints that never fire + MetricBreakpoint purity
        sim, nodes, log = build(ms)
        c = sim.control
        calls = []
        ids = [c.on_event(lambda e, k=k: calls.append((k, id(e), len(log)))) for k in range(3)]
        c.remove_hook(ids[1])
        c.on_time_advance(lambda t: calls.append(("t", t.nanoseconds, len(log))))
        c.add_breakpoint(TimeBreakpoint(time=Instant.from_seconds(10_000.0)))
        c.add_breakpoint(EventCountBreakpoint(count=10**9))
        c.add_breakpoint(ConditionBreakpoint(fn=lambda ctx: False))
        c.add_breakpoint(EventTypeBreakpoint(event_type="never"))
        c.add_breakpoint(MetricBreakpoint(entity_name="n0", attribute="count", operator="gt", threshold=10**9))
        ops = {"gt": operator.gt, "ge": operator.ge, "lt": operator.lt, "le": operator.le, "eq": operator.eq, "ne": operator.ne}

        def probe(e, sim=sim, nodes=nodes, rnd=rnd, m=m):
            ctx = BreakpointContext(current_time=sim._current_time, events_processed=sim._events_processed,
                                    last_event=sim._last_event, simulation=sim)
            opn, thr, who = rnd.choice(sorted(ops)), rnd.randint(0, 4), rnd.choice(nodes + [None])
            bp = MetricBreakpoint(entity_name=who.name if who else "nobody", attribute=rnd.choice(["count", "missing"]),
                                  operator=opn, threshold=thr)
            before = engine_snapshot(sim, nodes)
            ans = bp.should_break(ctx)
            if engine_snapshot(sim, nodes) != before:
                bad.append({"model": m, "mode": "metric-breakpoint", "field": "should_break wrote engine/entity state"})
            want = bool(who is not None and bp.attribute == "count" and ops[opn](who.count, thr))
            if bool(ans) != want:
                bad.append({"model": m, "mode": "metric-breakpoint", "field": f"answer {ans!r} != {want!r} ({who and who.count} {opn} {thr})"})
        c.on_event(probe)
        sim.run()
        got = final_state(sim, nodes, log)
        differ(m, "hooks+breakpoints", ref, got)
        ev_calls = [x for x in calls if x[0] != "t"]
        want_calls = []
        for d in range(1, len(got["log"]) + 1):
            want_calls += [(0, d), (2, d)]
        if [(k, at) for k, _, at in ev_calls] != want_calls:
            bad.append({"model": m, "mode": "hooks", "field": "event hooks not called exactly once per delivery in registration order "
                        "(or a removed hook was called)", "observed": str([(k, at) for k, _, at in ev_calls])[:160]})
        times = [x[1] for x in calls if x[0] == "t"]
        if times != sorted(set(times)) or not set(times) <= {r[0] for r in got["log"]}:
            bad.append({"model": m, "mode": "hooks", "field": "time hooks not called once per strict time advance", "observed": str(times)[:160]})
        # ---- D trace recorder
        rec = InMemoryTraceRecorder()
        sim, nodes, log = build(ms, recorder=rec)
        sim.run()
        got = final_state(sim, nodes, log)
        differ(m, "trace-recorder", ref, got)
        deq = [s for s in rec.spans if s["kind"] == "simulation.dequeue"]
        if len(deq) != len(got["log"]):
            bad.append({"model": m, "mode": "trace-recorder", "field": "dequeue spans != deliveries", "observed": f"{len(deq)} vs {len(got['log'])}"})
        # ---- E recorder + control + random schedule
        rec = InMemoryTraceRecorder()
        sim, nodes, log = build(ms, recorder=rec)
        c = sim.control
        c.pause()
        sim.run()
        if log or not c.is_paused:
            bad.append({"model": m, "mode": "schedule", "field": "pause() before run() must take effect before the first event"})
        guard = 0
        while c.is_paused and guard < 10_000:
            guard += 1
            op = rnd.choice(["step", "step", "bp", "resume-pause-hook", "resume"])
            n0 = len(log)
            if op == "step":
                k = rnd.randint(1, 4)
                c.step(k)
                d = len(log) - n0
                if not (d == k or (d < k and not sim._is_running)):
                    bad.append({"model": m, "mode": "schedule", "field": f"step({k}) delivered {d} events, run still active: {sim._is_running}"})
            elif op == "bp":
                k = rnd.randint(1, 3)
                target = sim._events_processed + k
                c.add_breakpoint(EventCountBreakpoint(count=target))
                c.resume()
                if c.is_paused and sim._events_processed != target:
                    bad.append({"model": m, "mode": "schedule", "field": f"count breakpoint {target} paused at {sim._events_processed}"})
                if not c.is_paused and sim._events_processed >= target and sim._is_running:
                    bad.append({"model": m, "mode": "schedule", "field": "breakpoint did not pause"})
                if c.list_breakpoints():
                    bad.append({"model": m, "mode": "schedule", "field": "one-shot breakpoint still registered after firing"}) if c.is_paused else None
                    c.clear_breakpoints()
            elif op == "resume-pause-hook":
                k = rnd.randint(1, 3)
                seen = [0]

                def pause_at_kth(e, seen=seen, k=k, c=c):
                    seen[0] += 1
                    if seen[0] == k:
                        c.pause()
                hid = c.on_event(pause_at_kth)
                c.resume()
                c.remove_hook(hid)
                d = len(log) - n0
                if c.is_paused and d != k:
                    bad.append({"model": m, "mode": "schedule", "field": f"pause() from a hook at delivery {k} took effect after {d} deliveries"})
            else:
                c.resume()
        differ(m, "pause/step/resume-schedule", ref, final_state(sim, nodes, log))
        # ---- F reset() + run() repeats the original delivery sequence (relay entities: state cleared by hand)
        sim, nodes, log = build(ms)
        c = sim.control
        c.pause()
        sim.run()
        c.step(rnd.randint(1, 3))
        c.reset()
        del log[:]
        for x in nodes:
            x.count, x.pending = 0, []
        sim.run()
        differ(m, "reset+run", ref, final_state(sim, nodes, log))
        # ... and a SECOND reset()+run() as well (the replayed events must not share state with the saved specs)
        c.reset()
        del log[:]
        for x in nodes:
            x.count, x.pending = 0, []
        sim.run()
        differ(m, "reset+run twice", ref, final_state(sim, nodes, log))
        evals += 7
    return evals, bad


def main():
    args = [a for a in sys.argv[1:] if not a.startswith("--")]
    n = int(args[0]) if args else 100
    seed = int(args[1]) if len(args) > 1 else 0
    evals, bad = run_models(n, seed)
    if "--json" in sys.argv:
        print(json.dumps({"evaluations": evals, "violations": bad[:10]}))
    else:
        print(f"{evals} evaluations, {len(bad)} violations")
        for b in bad[:10]:
            print("  ", b)
    return 1 if bad else 0


if __name__ == "__main__":
    sys.exit(main())

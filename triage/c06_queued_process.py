"""C06 bounded stand-in: while an entity is crashed or paused NO in-flight process of it advances - including the generator
of a queue-fronted resource, whose continuations are addressed to the resource's internal worker adapter rather than to
the resource itself.  Crash / pause windows at several offsets relative to the yields of a two-step job.

usage: c06_queued_process.py [--json]   exit 0 = no step of the job runs inside a crash / pause window
"""
import itertools
import json
import sys
import warnings

warnings.simplefilter("ignore")


def run():
    from happysimulator import Event, Instant, Simulation
    from happysimulator.components.queued_resource import QueuedResource
    from happysimulator.faults import CrashNode, FaultSchedule, PauseNode
    bad, n = [], 0
    for kind, at, length, step in itertools.product(("crash", "pause"), (1.5, 2.0, 2.5, 3.5, 4.0), (0.75, 3.0, 8.0), (1.0, 2.0)):
        n += 1
        log = []

        class Res(QueuedResource):
            def has_capacity(self):
                return True

            def handle_queued_event(self, ev):
                log.append(("start", self.now.to_seconds()))
                yield step
                log.append(("step1", self.now.to_seconds()))
                yield step
                log.append(("step2", self.now.to_seconds()))
                return None
        r = Res("r")
        fs = FaultSchedule()
        fs.add(CrashNode("r", at=at, restart_at=at + length) if kind == "crash" else PauseNode("r", start=at, end=at + length))
        sim = Simulation(entities=[r], end_time=Instant.from_seconds(40), fault_schedule=fs)
        sim.schedule(Event(time=Instant.from_seconds(1.0), event_type="job", target=r))
        sim.run()
        inside = [(k, t) for k, t in log if at <= t < at + length]
        if inside:
            bad.append({"case": "process-of-a-queued-resource-advances-while-it-is-down", "fault": kind, "window": [at, at + length],
                        "step_s": step, "ran_inside_the_window": inside, "log": log})
    return {"evaluations": n, "violations": bad[:5]}


if __name__ == "__main__":
    r = run()
    if "--json" in sys.argv:
        print(json.dumps(r))
        sys.exit(0)
    for v in r["violations"]:
        print(v)
    print(r["evaluations"], "scenarios,", len(r["violations"]), "violations")
    sys.exit(1 if r["violations"] else 0)

# randomized differential: LSM (sync API, all compaction strategies), BTree, vs dict
import random, sys
from happysimulator.components.storage.lsm_tree import LSMTree, SizeTieredCompaction, LeveledCompaction, FIFOCompaction
from happysimulator.components.storage.btree import BTree
import inspect
print(inspect.signature(LSMTree.__init__)); print(inspect.signature(BTree.__init__)); print(inspect.signature(LeveledCompaction.__init__))
def run_lsm(seed):
    rng=random.Random(seed)
    strat=rng.choice([SizeTieredCompaction(min_sstables=rng.choice([2,3,4])), LeveledCompaction(level_0_max=rng.choice([1,2]), size_ratio=rng.choice([2,3]), base_size_keys=rng.choice([1,2,4])), FIFOCompaction(max_total_sstables=rng.choice([2,3,5]))])
    t=LSMTree('t', memtable_size=rng.choice([1,2,3,4]), compaction_strategy=strat, max_levels=rng.choice([2,3,4]))
    model={}; keys=[f'k{i}' for i in range(6)]
    for step in range(rng.randint(20,250)):
        k=rng.choice(keys); op=rng.random()
        if op<0.5:
            v=f'v{step}'; t.put_sync(k,v); model[k]=v
        elif op<0.7:
            # delete via tombstone: sync API? use internal path
            from happysimulator.components.storage import lsm_tree as L
            t.put_sync(k, L._TOMBSTONE); model.pop(k,None); t._logical_data.pop(k,None)
        else:
            got=t.get_sync(k)
            if got!=model.get(k): return (seed, type(strat).__name__, 'get', k, got, model.get(k), step)
    for k in keys:
        if t.get_sync(k)!=model.get(k): return (seed,type(strat).__name__,'final',k,t.get_sync(k),model.get(k))
    return None
bad=[]
for seed in range(6000):
    r=run_lsm(seed)
    if r: bad.append(r)
print('LSM mismatches', len(bad), bad[:5])

"""C20 observation (assumption of the spec, not a proved violation): Bloom filter, Count-Min sketch and HyperLogLog
identify an item by repr(item); TopK / the reservoir by ==/hash.  Keys that are equal under == but print
differently (1, 1.0, True) are therefore DIFFERENT items for the first three: after add(1) the filter reports
1.0 absent and the Count-Min estimate of 1.0 is 0, while TopK counts them together.  The spec's opaque-item task
(bloom_add_then_contains) promises presence only for items with the same repr.  exit 0 always (documentation)."""
from happysimulator.sketching import BloomFilter, CountMinSketch, TopK

bf = BloomFilter(size_bits=1024)
bf.add(1)
print("bloom after add(1):   1 in bf =", 1 in bf, "  1.0 in bf =", 1.0 in bf, "  True in bf =", True in bf)
c = CountMinSketch(width=64, depth=4)
c.add(1, 5)
print("count-min after add(1, 5):  estimate(1) =", c.estimate(1), " estimate(1.0) =", c.estimate(1.0))
t = TopK(k=4)
t.add(1, 5)
print("topk after add(1, 5):  estimate(1.0) =", t.estimate(1.0))

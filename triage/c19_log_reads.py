"""C19 bounded stand-in (native, clean interpreter): readers see a partition in offset order, each record goes to exactly one
member of a group, committed offsets never move backwards - EventLog.read/_do_read/_apply_retention and ConsumerGroup poll/commit
end to end under the real engine.

Part 1 (log): 1-3 partitions, no retention / SizeRetention(2) / SizeRetention(5); 12 appends; then read(partition, offset, max) for
every partition, offset in -1..hw+1, max in {1, 2, 100}: the result is exactly the retained records with offset >= the requested
one, in increasing gap-free offset order, at most max of them; high watermarks never go back; a key always lands in one partition.
Part 2 (group): 2 members, 1-4 partitions, Range / RoundRobin / Sticky: append, poll(max_records in {2, 100}), commit the offsets
read, (optionally commit a LOWER offset afterwards), append more, poll again ... until drained: every record is delivered to exactly
one member, exactly once, per partition in offset order; a backwards commit does not cause redelivery.
Usage: PYTHONPATH=<tree> python triage/c19_log_reads.py [--json]
"""
import sys, json, logging, itertools
logging.disable(logging.CRITICAL)
from happysimulator import Simulation, Instant, Event, Entity
from happysimulator.components.streaming.consumer_group import ConsumerGroup, RangeAssignment, RoundRobinAssignment, StickyAssignment
from happysimulator.components.streaming.event_log import EventLog, SizeRetention


class Driver(Entity):
    """runs one scripted generator inside the simulation"""
    def __init__(self, name, script):
        super().__init__(name); self.script = script

    def handle_event(self, e):
        yield from self.script(self)


def simulate(entities, drivers, end=200.0):
    sim = Simulation(entities=entities + drivers, end_time=Instant.from_seconds(end))
    for k, d in enumerate(drivers):
        sim.schedule(Event(time=Instant.from_seconds(0.1 + 0.001 * k), event_type="go", target=d))
    sim.run()


def part1(nparts, keep):
    bad = []
    log = EventLog("log", num_partitions=nparts, retention_policy=SizeRetention(keep) if keep else None, retention_check_interval=0.5)
    appended, reads, hws = [], [], []

    def script(me):
        for i in range(12):
            rec = yield from log.append(f"k{i % 5}", i)
            appended.append(rec)
            hws.append([log.high_watermark(p) for p in range(nparts)])
            yield 0.3
        yield 2.0                                     # let a retention sweep run
        for p in range(nparts):
            hw = log.high_watermark(p)
            for off in range(-1, hw + 2):
                for mx in (1, 2, 100):
                    got = yield from log.read(p, off, mx)
                    reads.append((p, off, mx, list(got)))
    simulate([log], [Driver("d", script)])
    by_key = {}
    for r in appended:
        if by_key.setdefault(r.key, r.partition) != r.partition:
            bad.append(f"key {r.key} landed in partitions {by_key[r.key]} and {r.partition}")
    for p in range(nparts):
        offs = [r.offset for r in appended if r.partition == p]
        if offs != list(range(len(offs))):
            bad.append(f"partition {p}: appended offsets {offs} are not 0..n-1")
    for a, b in zip(hws, hws[1:]):
        if any(y < x for x, y in zip(a, b)):
            bad.append(f"high watermark went back: {a} -> {b}")
    if not reads:
        bad.append("the read script did not run")
    for p, off, mx, got in reads:
        hw = log.high_watermark(p)
        retained = [r.offset for r in appended if r.partition == p]
        if keep:
            retained = retained[-keep:] if len(retained) > keep else retained
            # (a sweep may lag behind the last appends: accept any low mark between `all appended` and `newest keep`)
        want_min = [o for o in retained if o >= off][:mx]
        offs = [r.offset for r in got]
        ok = (all(r.partition == p for r in got) and len(offs) <= mx and all(o >= off for o in offs)
              and all(b == a + 1 for a, b in zip(offs, offs[1:])) and all(0 <= o < hw for o in offs))
        if ok and not keep:
            ok = offs == want_min
        if ok and keep and want_min:
            ok = offs[-len(want_min):] == want_min or (len(offs) == mx and offs[0] <= want_min[0])
        if not ok:
            bad.append(f"read(partition={p}, offset={off}, max={mx}) -> offsets {offs}, retained {retained}")
    return bad


def part2(strategy, nparts, maxrec, backwards):
    bad = []
    log = EventLog("log", num_partitions=nparts)
    group = ConsumerGroup("g", event_log=log, assignment_strategy=strategy(), rebalance_delay=0.1)
    appended, got = [], {"a": [], "b": []}

    def producer(me):
        for i in range(10):
            rec = yield from log.append(f"k{i}", i)
            appended.append(rec)
        yield 20.0
        for i in range(10, 16):
            rec = yield from log.append(f"k{i}", i)
            appended.append(rec)

    def member(name):
        def script(me):
            yield from group.join(name, me)
            yield 1.0
            for _round in range(40):
                recs = yield from group.poll(name, max_records=maxrec)
                got[name].extend(recs)
                nxt = {}
                for r in recs:
                    nxt[r.partition] = max(nxt.get(r.partition, 0), r.offset + 1)
                if nxt:
                    yield from group.commit(name, nxt)
                    if backwards:
                        yield 0.01
                        yield from group.commit(name, {p: max(0, o - 2) for p, o in nxt.items()})
                yield 1.0
        return script
    da, db = Driver("a", member("a")), Driver("b", member("b"))
    simulate([log, group], [Driver("p", producer), da, db])
    want = sorted((r.partition, r.offset) for r in appended)
    have = sorted((r.partition, r.offset) for rs in got.values() for r in rs)
    if have != want:
        dup = sorted({x for x in have if have.count(x) > 1})
        miss = sorted(set(want) - set(have))
        bad.append(f"records delivered to the group != records appended: duplicates {dup[:4]} missing {miss[:4]}")
    for name, rs in got.items():
        last = {}
        for r in rs:
            if last.get(r.partition, -1) >= r.offset:
                bad.append(f"{name} read partition {r.partition} out of offset order ({last[r.partition]} then {r.offset})")
                break
            last[r.partition] = r.offset
    pa, pb = {r.partition for r in got["a"]}, {r.partition for r in got["b"]}
    if pa & pb:
        bad.append(f"partitions {sorted(pa & pb)} were read by both members")
    return bad


evals, viol = 0, []
for nparts, keep in itertools.product((1, 2, 3), (0, 2, 5)):
    evals += 1
    bad = part1(nparts, keep)
    if bad:
        viol.append({"case": f"log partitions={nparts} size_retention={keep or None}", "problems": bad[:3]})
for strategy, nparts, maxrec, backwards in itertools.product((RangeAssignment, RoundRobinAssignment, StickyAssignment), (1, 2, 4), (2, 100), (False, True)):
    evals += 1
    bad = part2(strategy, nparts, maxrec, backwards)
    if bad:
        viol.append({"case": f"group {strategy.__name__} partitions={nparts} max_records={maxrec} backwards_commit={backwards}", "problems": bad[:3]})
print(json.dumps({"evaluations": evals, "violations": viol[:3], "violating_cases": len(viol)}))

"""C17 finding (ReplicatedStore): QUORUM write + QUORUM read (R + W > N) does NOT give read-your-writes once a replica
has missed a write - the failure mode the code itself handles (`except (TimeoutError, RuntimeError, OSError)`).

ReplicatedStore.get consults the replicas in list order and returns the FIRST non-None answer among the first R;
replica values carry no version, so 'the newest among the R answers' cannot be chosen.  Scenario, N = 3, R = W = 2:
  put(k, 'v1')  -> all three replicas hold v1, acknowledged
  replica 0 is unavailable during put(k, 'v2') (raises TimeoutError): replicas 1, 2 hold v2, acks = 2 >= W -> acknowledged
  get(k) with R = 2: replica 0 answers 'v1', replica 1 answers 'v2' -> returns 'v1' (stale, although R + W > N)
The class docstring promises '(R + W > N guarantees seeing most recent write)'.

Run:  PYTHONPATH=/repo /venv/bin/python /verif/triage/c17_quorum_stale_read.py      (exit 1 = stale read reproduced)
"""
import sys

from happysimulator.components.datastore import ConsistencyLevel, KVStore, ReplicatedStore


class FlakyKV(KVStore):
    """a replica that can be unavailable for writes (what the except clause of ReplicatedStore.put is for)"""
    down = False

    def put(self, key, value):
        if self.down:
            raise TimeoutError("replica unavailable")
        return super().put(key, value)


def drive(gen):
    try:
        while True:
            next(gen)
    except StopIteration as e:
        return e.value


def main():
    replicas = [FlakyKV(name=f"node{i}") for i in range(3)]
    store = ReplicatedStore(name="db", replicas=replicas, read_consistency=ConsistencyLevel.QUORUM,
                            write_consistency=ConsistencyLevel.QUORUM)
    assert drive(store.put("k", "v1")) is True
    replicas[0].down = True
    acked = drive(store.put("k", "v2"))
    replicas[0].down = False
    got = drive(store.get("k"))
    held = [r.get_sync("k") for r in replicas]
    print(f"second write acknowledged={acked}  replicas hold {held}  quorum read returned {got!r}")
    if acked and got != "v2":
        print("STALE READ: acknowledged QUORUM write not seen by a QUORUM read (R + W > N)")
        return 1
    return 0


if __name__ == "__main__":
    sys.exit(main())

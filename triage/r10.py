import random
from fractions import Fraction as Fr
from happysimulator.core.temporal import Instant, Duration
from happysimulator.components.rate_limiter.policy import TokenBucketPolicy, LeakyBucketPolicy, SlidingWindowPolicy, FixedWindowPolicy, AdaptivePolicy
bad={}
def times(rng, rate):
    t=0; out=[]
    step=int(1e9/rate)
    for _ in range(rng.randint(5,80)):
        t+=rng.choice([0,1,2,step-1,step,step+1,step//2,step//3,rng.randrange(1,3*step)])
        out.append(t)
    return out
for seed in range(3000):
    rng=random.Random(seed)
    rate=rng.choice([1.0,3.0,7.0,10.0,0.3,1000.0]); cap=rng.choice([1.0,2.0,5.0])
    ts=times(rng,rate)
    # token bucket interval bound
    p=TokenBucketPolicy(capacity=cap, refill_rate=rate); adm=[t for t in ts if p.try_acquire(Instant(t))]
    for i in range(len(adm)):
        for j in range(i,len(adm)):
            n=j-i+1; L=Fr(adm[j]-adm[i],10**9)
            if n > Fr(cap)+Fr(rate)*L + Fr(1,10**6): bad.setdefault('token bound',(seed,rate,cap,n,float(L))); break
    # leaky spacing
    p=LeakyBucketPolicy(leak_rate=rate); adm=[t for t in ts if p.try_acquire(Instant(t))]
    if any(Fr(b-a,10**9) < Fr(1)/Fr(rate) - Fr(2,10**9) for a,b in zip(adm,adm[1:])): bad.setdefault('leaky spacing',(seed,rate,[b-a for a,b in zip(adm,adm[1:])][:5]))
    # sliding window
    W=rng.choice([0.1,0.5,1.0]); N=rng.choice([1,2,5]); p=SlidingWindowPolicy(window_size_seconds=W,max_requests=N); adm=[t for t in ts if p.try_acquire(Instant(t))]
    Wn=int(W*1e9)
    for i in range(len(adm)):
        if sum(1 for x in adm if adm[i]<=x<adm[i]+Wn)>N: bad.setdefault('sliding >N in window',(seed,W,N)); break
    # fixed window
    p=FixedWindowPolicy(requests_per_window=N, window_size=W); adm=[t for t in ts if p.try_acquire(Instant(t))]
    for i in range(len(adm)):
        if sum(1 for x in adm if adm[i]<=x<adm[i]+Wn)>2*N: bad.setdefault('fixed >2N',(seed,W,N)); break
    from collections import Counter
    c=Counter(x//Wn for x in adm)
    if any(v>N for v in c.values()): bad.setdefault('fixed >N per aligned window',(seed,W,N,c.most_common(2)))
    # TUA truthfulness on token bucket + sliding + fixed + leaky
    for mk in (lambda: TokenBucketPolicy(capacity=cap, refill_rate=rate), lambda: LeakyBucketPolicy(leak_rate=rate), lambda: SlidingWindowPolicy(W,N), lambda: FixedWindowPolicy(N,W)):
        p=mk(); 
        for t in ts[:20]: p.try_acquire(Instant(t))
        now=Instant(ts[min(19,len(ts)-1)]); w=p.time_until_available(now)
        name=type(p).__name__
        if w==Duration.ZERO:
            if not p.try_acquire(now): bad.setdefault(name+' TUA zero but denied',(seed,))
        else:
            import copy
            q=copy.deepcopy(p)
            if w.nanoseconds>1 and q.try_acquire(now+Duration(w.nanoseconds-1)): bad.setdefault(name+' acquire before TUA',(seed,rate,cap,W,N,w.nanoseconds))
            # progress
            cur=now; ok=False; q=copy.deepcopy(p)
            for _ in range(4):
                ww=q.time_until_available(cur)
                if ww==Duration.ZERO: ok=q.try_acquire(cur); break
                cur=cur+ww
            if not ok: bad.setdefault(name+' drain stalls',(seed,rate,cap,W,N))
print(bad if bad else 'rate limiter checks OK')

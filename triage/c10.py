from happysimulator import Simulation, Event, Instant, Entity
from happysimulator.components.rate_limiter.rate_limited_entity import RateLimitedEntity
from happysimulator.components.rate_limiter.policy import TokenBucketPolicy
got=[]
class D(Entity):
    def handle_event(self, e): got.append((e.context['metadata'].get('tag'), round(self.now.to_seconds(),6)))
d=D('d')
rl=RateLimitedEntity('rl', downstream=d, policy=TokenBucketPolicy(capacity=1, refill_rate=1.0), queue_capacity=10)
class Relay(Entity):   # emits request 'd' for t=1.0 at t=0.05, i.e. before the poll event exists
    def handle_event(self, e):
        return [Event(time=Instant.from_seconds(1.0), event_type='req', target=rl, context={'metadata':{'tag':'d'}})]
relay=Relay('relay')
sim=Simulation(entities=[rl,d,relay], end_time=Instant.from_seconds(10))
for tag,t in [('a',0.0),('b',0.1),('c',0.2)]:
    sim.schedule(Event(time=Instant.from_seconds(t), event_type='req', target=rl, context={'metadata':{'tag':tag}}))
sim.schedule(Event(time=Instant.from_seconds(0.05), event_type='go', target=relay))
sim.run(); print(got)

import random, sys
sys.path.insert(0,'/repo')
from tests.integration.consensus.test_consensus_membership import _build_membership_cluster
from happysimulator.components.consensus.membership import MemberState
from happysimulator.core.simulation import Simulation
bad=0; susp=0
for seed in range(60):
    random.seed(seed)
    n=random.choice([3,4,5,7]); pi=random.choice([0.2,0.5,1.0]); st=random.choice([0.5,1.0,3.0]); phi=random.choice([1.0,3.0,8.0])
    net,nodes=_build_membership_cluster(n=n, probe_interval=pi, suspicion_timeout=st, phi_threshold=phi)
    sim=Simulation(duration=60.0, entities=[net,*nodes])
    for nd in nodes:
        for e in nd.start(): sim.schedule(e)
    seen=set()
    def obs(e):
        for nd in nodes:
            for nm,info in nd._members.items():
                if info.state==MemberState.DEAD: seen.add(('DEAD',nd.name,nm))
                elif info.state==MemberState.SUSPECT: seen.add(('SUS',nd.name,nm))
    sim.control.on_event(obs); sim.run()
    d=[s for s in seen if s[0]=='DEAD']; s=[x for x in seen if x[0]=='SUS']
    if d: bad+=1; print('seed',seed,(n,pi,st,phi),'DEAD',d[:3])
    if s: susp+=1
print('runs with false DEAD:',bad,' runs with SUSPECT:',susp)

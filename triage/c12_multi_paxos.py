"""C12 native triage: Multi-Paxos / Flexible Paxos (happysimulator.components.consensus.{multi_paxos,flexible_paxos}) -
do two nodes ever report different commands for the same committed slot, does a committed slot ever change, is a
committed command one that a client submitted?

    PYTHONPATH=<repo> /venv/bin/python triage/c12_multi_paxos.py [first_seed last_seed] [--json] [-v]

Real nodes on a real Network inside a real Simulation, random per-message delays from {0.01, 0.05, 0.2, 0.6, 1.5} s,
no loss, no partition.  Scenario "one-leader": node A starts at t=0 and stays the only proposer; a client submits
c1..c4 to A at random times in [0, 2.5] s (commands that arrive before A leads are queued by submit() and get
their slots when A becomes leader).  Scenario "takeover": additionally node B starts (phase 1 with a higher
ballot) at a random time in [4, 8] s and gets c5, c6 submitted later.
After every event, for every node and every slot i <= commit_index the command log.get(i).command is recorded:
  agreement - two nodes hold different commands in a committed slot;
  stability - the command of a committed slot of one node changes (or the slot disappears);
  validity  - a committed command that no client submitted.
Exit status 1 when any violation was seen."""
import json
import random
import sys

from happysimulator import Entity, Event, Instant, Simulation
from happysimulator.components.consensus.flexible_paxos import FlexiblePaxosNode
from happysimulator.components.consensus.multi_paxos import MultiPaxosNode
from happysimulator.components.network.link import NetworkLink
from happysimulator.components.network.network import Network
from happysimulator.core.temporal import Duration
from happysimulator.distributions.latency_distribution import LatencyDistribution


class RandLat(LatencyDistribution):
    def __init__(self, rng):
        super().__init__(0.1)
        self.rng = rng

    def get_latency(self, now):
        return Duration.from_seconds(self.rng.choice([0.01, 0.05, 0.2, 0.6, 1.5]))


class Do(Entity):
    """runs a closure as an event (client / operator actions through the public API)"""

    def __init__(self, nm, fn):
        super().__init__(nm)
        self.fn = fn

    def handle_event(self, e):
        return self.fn()


def trial(seed, cls=MultiPaxosNode, n=3, takeover=False):
    rng = random.Random(seed)
    random.seed(seed)
    net = Network(name="net")
    names = [chr(65 + i) for i in range(n)]
    if cls is FlexiblePaxosNode:
        # intersecting, non-majority sizes where possible: (2, 2) of 3, (4, 2) of 5
        nodes = [cls(nm, net, phase1_quorum=n - 1, phase2_quorum=2) for nm in names]
    else:
        nodes = [cls(nm, net) for nm in names]
    for nd in nodes:
        nd.set_peers(nodes)
    for a in nodes:
        for b in nodes:
            if a is not b:
                net.add_link(a, b, NetworkLink(name=f"{a.name}{b.name}", latency=RandLat(rng)))
    submitted = set()
    actions = []

    def submit_to(node, cmd):
        def go():
            submitted.add(cmd)
            node.submit({"op": "set", "key": cmd, "value": cmd})
            # the public way to get a freshly assigned slot replicated is the next heartbeat / forward path; the
            # component's own tests call _replicate_slot after submit - do the same when the node leads
            if node.is_leader:
                return node._replicate_slot(node.log.last_index)
            return None
        return go
    actions.append((0.0, Do("startA", lambda: nodes[0].start())))
    for i in range(1, 5):
        actions.append((rng.uniform(0.0, 2.5), Do(f"c{i}", submit_to(nodes[0], f"c{i}"))))
    if takeover:
        tb = rng.uniform(4.0, 8.0)
        actions.append((tb, Do("startB", lambda: nodes[1].start())))
        for i in (5, 6):
            actions.append((tb + rng.uniform(2.0, 4.0), Do(f"c{i}", submit_to(nodes[1], f"c{i}"))))
    sim = Simulation(entities=[net, *nodes, *[d for _t, d in actions]], end_time=Instant.from_seconds(40))
    for t, d in actions:
        sim.schedule(Event(time=Instant.from_seconds(t), event_type="go", target=d))
    seen = {nd.name: {} for nd in nodes}
    problems = []

    def key(cmd):
        return cmd["key"] if isinstance(cmd, dict) else repr(cmd)

    def obs(e):
        for nd in nodes:
            mine = seen[nd.name]
            ci = nd.log.commit_index
            for i in list(mine):
                ent = nd.log.get(i)
                if i > ci or ent is None or key(ent.command) != mine[i]:
                    now = None if ent is None else key(ent.command)
                    problems.append(f"stability: {nd.name} slot {i} was committed as {mine[i]} and is now {now} (commit_index {ci})")
                    del mine[i]
            for i in range(1, ci + 1):
                ent = nd.log.get(i)
                if ent is not None and i not in mine:
                    mine[i] = key(ent.command)
    sim.control.on_event(obs)
    sim.run()
    slots = {}
    for nm, m in seen.items():
        for i, c in m.items():
            slots.setdefault(i, {}).setdefault(c, []).append(nm)
    for i, by in sorted(slots.items()):
        if len(by) > 1:
            problems.append(f"agreement: slot {i} committed as " + ", ".join(f"{c} at {'/'.join(v)}" for c, v in sorted(by.items())))
        for c in by:
            if c not in submitted:
                problems.append(f"validity: slot {i} holds {c}, never submitted")
    return problems, sum(len(m) for m in seen.values())


def main(argv):
    as_json, verbose = "--json" in argv, "-v" in argv
    nums = [int(x) for x in argv if x.isdigit()]
    lo, hi = nums[:2] if len(nums) >= 2 else (0, 100)
    out = {"evaluations": 0, "violations": [], "committed_slots": 0}
    for cls in (MultiPaxosNode, FlexiblePaxosNode):
        for n, takeover in ((3, False), (3, True), (5, True)):
            bad = 0
            kinds = {}
            first = None
            for seed in range(lo, hi):
                pr, k = trial(seed, cls, n, takeover)
                out["evaluations"] += 1
                out["committed_slots"] += k
                if pr:
                    bad += 1
                    for p in pr:
                        kinds[p.split(":")[0]] = kinds.get(p.split(":")[0], 0) + 1
                    if first is None:
                        first = (seed, pr)
                    if verbose:
                        print(cls.__name__, n, takeover, seed, pr[:3])
            if bad:
                out["violations"].append({"case": f"{cls.__name__} n={n} {'takeover' if takeover else 'one-leader'}: {bad}/{hi - lo} seeds violate "
                                                  f"{kinds}; first seed {first[0]}: {first[1][0]}"})
    if as_json:
        print(json.dumps(out))
    else:
        print(f"evaluations={out['evaluations']} committed_slots={out['committed_slots']} violations={len(out['violations'])}")
        for v in out["violations"]:
            print("  " + v["case"])
    return 1 if out["violations"] else 0


if __name__ == "__main__":
    sys.exit(main(sys.argv[1:]))

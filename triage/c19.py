from happysimulator import Simulation, Event, Instant, Entity
from happysimulator.components.streaming.event_log import EventLog
from happysimulator.components.streaming.consumer_group import ConsumerGroup
import inspect
print(inspect.signature(ConsumerGroup.__init__))
log=EventLog('log', num_partitions=1); g=ConsumerGroup('g', event_log=log)
out=[]
class C(Entity):
    def handle_event(self, e):
        yield from g.join('c1', self)
        yield from g.commit('c1', {0: 10})
        yield 0.1
        yield from g.commit('c1', {0: 4})
        yield 0.1
        out.append(dict(g._committed_offsets['c1']))
c=C('c'); sim=Simulation(entities=[c,g,log], end_time=Instant.from_seconds(5))
sim.schedule(Event(time=Instant.from_seconds(0), event_type='go', target=c)); sim.run(); print('committed after 10 then 4:', out)

"""C19 bounded stand-in (native, clean interpreter): MessageQueue end to end under the real engine.

Producer publishes k messages; the queue is polled every 0.5 s; each consumer follows one behaviour per delivery:
  ack          acknowledge at once                 ack_late   request redelivery after the visibility timeout (1.1 s), ack 0.2 s later
  reject       reject(requeue=True)                drop       reject(requeue=False)
  timeout      never ack; after the visibility timeout call schedule_redelivery and hand the returned timer event to the engine
Checked: every delivery arrives at a consumer that is subscribed (nothing after unsubscribe + latency), nothing arrives after its
acknowledgement (+ latency), first deliveries follow publish order, at quiescence every published id is in exactly one of
{live (pending or in flight), acknowledged, dead-lettered / discarded} and the queue's counts agree, a message that is never
acknowledged ends dead-lettered once its deliveries reach the limit, a message is delivered at most max(1, max_redeliveries) times
plus the deliveries nobody asked for.  With --strict (the tree has fixes/C19_redelivery-timer-double-delivers-after-poll.diff):
additionally NO delivery reaches a consumer while the message is in flight at another one without a redelivery request.
Usage: PYTHONPATH=<tree> python triage/c19_queue_e2e.py [--strict] [--json]
"""
import sys, json, logging, itertools
logging.disable(logging.CRITICAL)
from happysimulator import Simulation, Instant, Event, Entity
from happysimulator.components.messaging.message_queue import MessageQueue
from happysimulator.components.messaging.dlq import DeadLetterQueue

STRICT = "--strict" in sys.argv
VIS = 1.1      # (1.1: redelivery timers never fire at a poll instant, so arrival order == decision order)


class World:
    def __init__(self):
        self.deliveries = []      # (arrival time, consumer, id, count)
        self.acked = {}           # id -> time
        self.released = {}        # id -> number of reject / redelivery requests so far
        self.dropped = set()      # reject(requeue=False)
        self.unsub = {}           # consumer name -> time


class Consumer(Entity):
    def __init__(self, name, q, w, behaviour):
        super().__init__(name); self.q, self.w, self.b = q, w, behaviour

    def ack(self, mid, t):
        if self.q.get_message(mid) is not None:       # (an ack of a message that is already gone is a no-op)
            self.w.acked.setdefault(mid, t)
        self.q.acknowledge(mid)

    def handle_event(self, e):
        q, w, t = self.q, self.w, self.now.to_seconds()
        if e.event_type == "message_delivery":
            mid = e.context["message_id"]
            w.deliveries.append((t, self.name, mid, e.context["delivery_count"], w.released.get(mid, 0)))
            if self.b == "ack":
                self.ack(mid, t)
            elif self.b == "reject":
                w.released[mid] = w.released.get(mid, 0) + 1; q.reject(mid, requeue=True)
            elif self.b == "drop":
                w.released[mid] = w.released.get(mid, 0) + 1; w.dropped.add(mid); q.reject(mid, requeue=False)
            else:
                return [Event(time=Instant.from_seconds(t + VIS), event_type="visibility_timeout", target=self, context={"message_id": mid})]
        elif e.event_type == "visibility_timeout":
            mid = e.context["message_id"]
            out = []
            if mid not in w.acked:
                ev = q.schedule_redelivery(mid)
                if ev is not None:
                    w.released[mid] = w.released.get(mid, 0) + 1
                    out.append(ev)
            if self.b == "ack_late":
                out.append(Event(time=Instant.from_seconds(t + 0.2), event_type="late_ack", target=self, context={"message_id": mid}))
            return out
        elif e.event_type == "late_ack":
            self.ack(e.context["message_id"], t)
        elif e.event_type == "unsubscribe":
            q.unsubscribe(self); w.unsub[self.name] = t
        return []


class Producer(Entity):
    def __init__(self, q, k):
        super().__init__("producer"); self.q, self.k, self.ids = q, k, []

    def handle_event(self, e):
        for i in range(self.k):
            mid = yield from self.q.publish(Event(time=self.now, event_type=f"m{i}", target=self.q))
            self.ids.append(mid)


def run(behaviours, k, max_red, with_dlq, latency, delay, unsub_first):
    w = World()
    dlq = DeadLetterQueue("dlq") if with_dlq else None
    q = MessageQueue("q", delivery_latency=latency, redelivery_delay=delay, max_redeliveries=max_red, dead_letter_queue=dlq)
    cons = [Consumer(f"c{i}", q, w, b) for i, b in enumerate(behaviours)]
    for c in cons:
        q.subscribe(c)
    prod = Producer(q, k)
    sim = Simulation(entities=[q, prod] + cons + ([dlq] if dlq else []), end_time=Instant.from_seconds(60))
    sim.schedule(Event(time=Instant.from_seconds(0.1), event_type="go", target=prod))
    for i in range(1, 61):
        sim.schedule(Event(time=Instant.from_seconds(0.5 * i), event_type="poll", target=q))
    if unsub_first and len(cons) > 1:
        sim.schedule(Event(time=Instant.from_seconds(2.2), event_type="unsubscribe", target=cons[0]))
    sim.run()
    bad = []
    eps = latency + 1e-6
    ids = prod.ids
    if len(set(ids)) != k:
        bad.append(f"{k} publishes gave ids {ids}")
    per = {m: [d for d in w.deliveries if d[2] == m] for m in ids}
    for t, c, m, cnt, rel in w.deliveries:
        if m not in per:
            bad.append(f"delivery of an id nobody published: {m}")
        if c in w.unsub and t > w.unsub[c] + eps:
            bad.append(f"t={t}: delivery to {c}, unsubscribed at {w.unsub[c]}")
        if m in w.acked and t > w.acked[m] + eps:
            bad.append(f"t={t}: message delivered after its acknowledgement at {w.acked[m]}")
    firsts = [d[2] for d in sorted(w.deliveries, key=lambda d: d[0]) if d[3] == 1]
    if firsts != [m for m in ids if m in firsts]:
        bad.append(f"first deliveries {firsts} do not follow publish order {ids}")
    dead = [m.id for m in dlq.messages] if dlq else []
    live = 0
    for m in ids:
        msg = q.get_message(m)
        states = [msg is not None, m in w.acked, (m in dead) if dlq else (msg is None and m not in w.acked)]
        if dlq and dead.count(m) > 1:
            bad.append(f"{m} dead-lettered {dead.count(m)} times")
        if sum(states) != 1:
            bad.append(f"message in states live/acked/dead = {states}")
        live += msg is not None
        unasked = 0
        for a, b in zip(per[m], per[m][1:]):
            if b[4] == a[4]:                    # no reject / redelivery request between two deliveries
                unasked += 1
                if STRICT:
                    bad.append(f"t={b[0]}: delivered to {b[1]} while in flight at {a[1]} (no redelivery was requested)")
        if len(per[m]) > max(1, max_red) + unasked:
            bad.append(f"{len(per[m])} deliveries with max_redeliveries={max_red}")
        if msg is not None and all(b in ("reject", "timeout") for b in behaviours) and not w.unsub:
            bad.append(f"never acknowledged, always released, yet still live after 60 s: deliveries={len(per[m])} limit={max_red}")
    if q.pending_count + q.in_flight_count != live:
        bad.append(f"pending {q.pending_count} + in flight {q.in_flight_count} != live {live}")
    return bad


evals, viol = 0, []
B = ("ack", "reject", "drop", "timeout", "ack_late")
for behaviours in [(b,) for b in B] + list(itertools.product(B, repeat=2)):
    for k, max_red, with_dlq, latency, delay in itertools.product((1, 3), (0, 1, 3), (False, True), (0.0, 0.01), (0.3, 2.0)):
        for unsub_first in ((False, True) if len(behaviours) > 1 and k == 3 and latency else (False,)):
            evals += 1
            bad = run(behaviours, k, max_red, with_dlq, latency, delay, unsub_first)
            if bad:
                viol.append({"case": f"consumers={behaviours} messages={k} max_redeliveries={max_red} dlq={with_dlq} "
                                     f"latency={latency} redelivery_delay={delay} unsubscribe_c0={unsub_first}", "problems": bad[:3]})
print(json.dumps({"evaluations": evals, "violations": viol[:3], "violating_cases": len(viol)}))

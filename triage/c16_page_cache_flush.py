"""C16 / PageCache.flush iterates self._pages.values() across yields: a page loaded (or evicted) by another
process while a dirty page is being written back makes the iteration raise RuntimeError (OrderedDict mutated
during iteration) - flush crashes and the remaining dirty pages are not written back.  Exit 1 on the crash."""
import sys
from happysimulator import Simulation, Event, Instant, Entity
from happysimulator.components.infrastructure.page_cache import PageCache

pc = PageCache("pc", capacity_pages=8, disk_read_latency_s=0.01, disk_write_latency_s=0.1)
out = []


class Writer(Entity):
    def handle_event(self, e):
        yield from pc.write_page(1)
        yield from pc.write_page(2)
        try:
            n = yield from pc.flush()
            out.append(("flushed", n))
        except RuntimeError as ex:
            out.append(("flush raised", repr(ex), "dirty pages left", pc.dirty_pages))


class Reader(Entity):
    def handle_event(self, e):
        yield from pc.read_page(7)


w, r = Writer("w"), Reader("r")
sim = Simulation(entities=[pc, w, r], end_time=Instant.from_seconds(5))
sim.schedule(Event(time=Instant.from_seconds(0.0), event_type="go", target=w))
sim.schedule(Event(time=Instant.from_seconds(0.05), event_type="rd", target=r))
sim.run()
print(out)
bad = any(o[0] == "flush raised" for o in out)
print("VIOLATION: flush crashed, dirty pages not written back" if bad else "ok")
sys.exit(1 if bad else 0)

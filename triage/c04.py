from happysimulator import Simulation, Event, Instant, Entity, Source
from happysimulator.faults import FaultSchedule, CrashNode
def mk():
    log=[]
    class X(Entity):
        def handle_event(self, e): log.append((round(self.now.to_seconds(),3), e.event_type))
    x=X('x')
    fs=FaultSchedule(); fs.add(CrashNode('x', at=2.5, restart_at=4.5))
    src=Source.constant(rate=1, target=x, event_type='req')
    sim=Simulation(sources=[src], entities=[x], end_time=Instant.from_seconds(6), fault_schedule=fs)
    return sim, log, x
sim, log, x = mk()
sim.control  # attach control
sim.run(); first=list(log); log.clear()
x._crashed=False
sim.control.reset(); sim.run(); second=list(log)
print(first); print(second); print("reset repeats:", first==second)

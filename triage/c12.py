import random, sys, itertools
from happysimulator import Simulation, Event, Instant, Entity
from happysimulator.components.consensus.paxos import PaxosNode
from happysimulator.components.network.network import Network
from happysimulator.components.network.link import NetworkLink
from happysimulator.distributions.latency_distribution import LatencyDistribution
from happysimulator.core.temporal import Duration
class RandLat(LatencyDistribution):
    def __init__(self, rng): super().__init__(0.1); self.rng=rng
    def get_latency(self, now): return Duration.from_seconds(self.rng.choice([0.01,0.05,0.2,0.6,1.5]))
def trial(seed, n=3, props=2):
    rng=random.Random(seed); random.seed(seed)
    net=Network(name='net'); names=[chr(65+i) for i in range(n)]
    nodes=[PaxosNode(nm, net, retry_delay=0.3) for nm in names]
    for nd in nodes: nd.set_peers(nodes)
    for a in nodes:
        for b in nodes:
            if a is not b: net.add_link(a,b,NetworkLink(name=f'{a.name}{b.name}', latency=RandLat(rng)))
    class Kick(Entity):
        def __init__(s,nm,node,val): super().__init__(nm); s.node=node; s.val=val
        def handle_event(s,e):
            s.node.propose(s.val); return s.node.start_phase1()
    kicks=[Kick(f'k{i}',nodes[i],f'v{i}') for i in range(props)]
    sim=Simulation(entities=[net]+nodes+kicks, end_time=Instant.from_seconds(20))
    for i,k in enumerate(kicks): sim.schedule(Event(time=Instant.from_seconds(rng.choice([0,0.02,0.1,0.3])), event_type='go', target=k))
    hist=[]
    def obs(e):
        for nd in nodes:
            if nd.is_decided: hist.append((nd.name, nd.decided_value))
    sim.control.on_event(obs)
    sim.run()
    vals={v for _,v in hist}
    return vals
bad=0
for seed in range(int(sys.argv[1]), int(sys.argv[2])):
    v=trial(seed)
    if len(v - {None})>1:
        print('DISAGREEMENT seed',seed,v); bad+=1
        if bad>=3: break
print('done, disagreements', bad)

"""C06 bounded stand-in: a latency / loss / capacity fault is in effect for its target exactly while at least one window
covering it is open, whatever other windows overlap it (nested, identical, EQUAL amounts included), and once every window
has ended the target is back at its configured state.  Seeded random schedules of 1-4 windows of one kind on one target,
observed through a real Simulation by probe events between all window boundaries.

  latency : link.latency.get_latency(now) == configured + sum of the open windows' extras
  loss    : link.packet_loss_rate == min(1, configured + sum of the open windows' rates)
  capacity: resource.capacity == configured * product of the open windows' factors, available + held == capacity

usage: c06_windows.py [n] [seed] [--json]   exit 0 = every probe matches
"""
import json
import random
import sys
import warnings

warnings.simplefilter("ignore")


def run(n, seed):
    from happysimulator.components.network.link import NetworkLink
    from happysimulator.components.network.network import Network
    from happysimulator.components.resource import Resource
    from happysimulator.core.entity import Entity
    from happysimulator.core.event import Event
    from happysimulator.core.simulation import Simulation
    from happysimulator.core.temporal import Instant
    from happysimulator.distributions.constant import ConstantLatency
    from happysimulator.faults import FaultSchedule, InjectLatency, InjectPacketLoss, ReduceCapacity
    bad, evals = [], 0
    for m in range(n):
        rnd = random.Random(seed * 65537 + m)
        kind = ("latency", "loss", "capacity")[m % 3]
        k = rnd.randint(1, 4)
        amounts = {"latency": [20.0, 50.0, 50.0, 75.5], "loss": [0.1, 0.25, 0.25, 0.6], "capacity": [0.5, 0.5, 0.25, 0.8]}[kind]
        wins = []
        for _ in range(k):
            s = rnd.choice([1.0, 2.0, 3.0, 4.0, 5.0])
            e = s + rnd.choice([1.0, 2.0, 3.0, 4.0])
            wins.append((s, e, rnd.choice(amounts)))
        if rnd.random() < 0.3 and k >= 2:
            wins[1] = (wins[0][0], wins[0][1], wins[0][2])       # an identical twin window
        probes = sorted({0.5} | {b + 0.25 for w in wins for b in w[:2]} | {b - 0.25 for w in wins for b in w[:2]} | {12.0})
        obs = {}

        class Probe(Entity):
            def handle_event(self, ev):
                t = ev.context["metadata"]["t"]
                if kind == "latency":
                    obs[t] = round(link.latency.get_latency(self.now).to_seconds() * 1000.0, 6)
                elif kind == "loss":
                    obs[t] = round(link.packet_loss_rate, 9)
                else:
                    obs[t] = (round(res.capacity, 9), round(res.available + held[0], 9))
                return None
        a, b, pr = Probe("a"), Probe("b"), Probe("probe")
        net = Network(name="net")
        link = NetworkLink(name="ab", latency=ConstantLatency(0.010), packet_loss_rate=0.05)
        net.add_link(a, b, link)
        res = Resource("res", capacity=8)
        held = [0]
        sched = FaultSchedule()
        for s, e, x in wins:
            if kind == "latency":
                sched.add(InjectLatency("a", "b", extra_ms=x, start=s, end=e))
            elif kind == "loss":
                sched.add(InjectPacketLoss("a", "b", loss_rate=x, start=s, end=e))
            else:
                sched.add(ReduceCapacity("res", factor=x, start=s, end=e))
        sim = Simulation(end_time=Instant.from_seconds(15.0), entities=[a, b, pr, net, res], fault_schedule=sched)
        if kind == "capacity" and rnd.random() < 0.5:
            g = res.try_acquire(rnd.choice([1, 3, 6]))
            held[0] = g.amount if g is not None else 0
        for t in probes:
            sim.schedule(Event(time=Instant.from_seconds(t), event_type="probe", target=pr, context={"metadata": {"t": t}}))
        try:
            sim.run()
        except Exception as ex:      # noqa: BLE001
            bad.append({"case": f"{kind}-windows-run-raised", "windows": wins, "error": f"{type(ex).__name__}: {ex}"})
            continue
        for t in probes:
            evals += 1
            open_ = [w for w in wins if w[0] <= t < w[1]]
            if kind == "latency":
                want = round(10.0 + sum(w[2] for w in open_), 6)
                ok = abs(obs.get(t, -1) - want) < 1e-6
            elif kind == "loss":
                want = round(min(1.0, 0.05 + sum(w[2] for w in open_)), 9)
                ok = abs(obs.get(t, -1) - want) < 1e-9
            else:
                cap = 8.0
                for w in open_:
                    cap *= w[2]
                want = (round(cap, 9), round(cap, 9))
                got = obs.get(t, (-1, -1))
                ok = abs(got[0] - want[0]) < 1e-9 and abs(got[1] - want[1]) < 1e-9
            if not ok:
                bad.append({"case": f"{kind}-not-in-effect-exactly-while-a-window-is-open", "windows": wins, "t": t,
                            "observed": obs.get(t), "expected": want, "held": held[0]})
                break
        if len(bad) > 4:
            break
    return {"evaluations": evals, "violations": bad[:5]}


if __name__ == "__main__":
    args = [x for x in sys.argv[1:] if x != "--json"]
    n = int(args[0]) if args else 120
    seed = int(args[1]) if len(args) > 1 else 0
    r = run(n, seed)
    if "--json" in sys.argv:
        print(json.dumps(r))
        sys.exit(0)
    for v in r["violations"]:
        print(v)
    print(r["evaluations"], "probes,", len(r["violations"]), "violations")
    sys.exit(1 if r["violations"] else 0)

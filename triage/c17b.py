from happysimulator import Simulation, Event, Instant, Entity, SimFuture
from happysimulator.components.replication.chain_replication import build_chain, ChainNodeRole
from happysimulator.components.datastore.kv_store import KVStore
from happysimulator.components.network.network import Network
from happysimulator.components.network.link import NetworkLink
from happysimulator.distributions.constant import ConstantLatency
for craq in (True, False):
    net=Network(name='net')
    nodes=build_chain(['head','mid','tail'], net, lambda n: KVStore(n, write_latency=0.001, read_latency=0.001), craq_enabled=craq)
    head,mid,tail=nodes
    for a in nodes:
        for b in nodes:
            if a is not b: net.add_link(a,b,NetworkLink(name=f'{a.name}-{b.name}', latency=ConstantLatency(0.1)))
    out=[]
    class Client(Entity):
        def handle_event(self,e):
            md=e.context['metadata']
            if md['op']=='w':
                f=SimFuture()
                yield 0.0, [Event(time=self.now, event_type='Write', target=head, context={'metadata':{'key':'k','value':md['v'],'reply_future':f}})]
                r = yield f
                out.append(('write acked', md['v'], round(self.now.to_seconds(),3)))
            else:
                f=SimFuture()
                yield 0.0, [Event(time=self.now, event_type='Read', target=md['node'], context={'metadata':{'key':'k','reply_future':f}})]
                r = yield f
                out.append(('read@'+md['node'].name, r.get('value'), round(self.now.to_seconds(),3), 'tail has', tail.store.get_sync('k') if hasattr(tail,'store') else tail._store.get_sync('k')))
    c=Client('c')
    sim=Simulation(entities=[net,c]+nodes+[n._store for n in nodes], end_time=Instant.from_seconds(5))
    def ev(t,**md): sim.schedule(Event(time=Instant.from_seconds(t), event_type='op', target=c, context={'metadata':md}))
    ev(0.0, op='w', v='v1'); ev(1.00, op='w', v='v2'); ev(1.15, op='w', v='v3')
    # v2's tail ack reaches head at ~1.3+ ; v3 reaches tail at ~1.35+ ; read at head in between
    for t in (1.31, 1.33): ev(t, op='r', node=head)
    sim.run(); print('CRAQ' if craq else 'plain', out)

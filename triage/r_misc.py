import random, itertools
# ---- BTree vs dict
from happysimulator.components.storage.btree import BTree
bad=0
for seed in range(1500):
    rng=random.Random(seed); t=BTree('b', order=rng.choice([3,4,5,6])); m={}
    for i in range(rng.randint(10,150)):
        k=f'k{rng.randrange(20):02d}'; op=rng.random()
        if op<0.55: t.put_sync(k,i); m[k]=i
        elif op<0.75:
            g=t.delete(k)
            try:
                while True: next(g)
            except StopIteration: pass
            m.pop(k,None)
        else:
            if t.get_sync(k)!=m.get(k): bad+=1; print('btree get mismatch',seed,k,t.get_sync(k),m.get(k)); break
    else:
        g=t.scan('k00','k99'); res=None
        try:
            while True: next(g)
        except StopIteration as e: res=e.value
        if [(k,v) for k,v in res]!=sorted(m.items()): bad+=1; print('btree scan mismatch',seed, res[:5], sorted(m.items())[:5])
    if bad>=3: break
print('btree bad',bad)
# ---- Merkle diff
from happysimulator.sketching.merkle_tree import MerkleTree
bad=0
keys=['a','b','c','d','e']
for seed in range(4000):
    rng=random.Random(seed)
    A={k:rng.choice([1,2]) for k in keys if rng.random()<0.7}; B=dict(A)
    for _ in range(rng.randint(0,3)):
        k=rng.choice(keys); r=rng.random()
        if r<0.4: B[k]=rng.choice([1,2,3])
        elif r<0.7: B.pop(k,None)
    ta=MerkleTree.build(A); tb=MerkleTree.build(B); d=ta.diff(tb)
    differing={k for k in set(A)|set(B) if A.get(k)!=B.get(k)}
    if (not d)!=(A==B): bad+=1; print('merkle empty-iff-equal violated',A,B,d)
    elif any(not any(r.contains(k) for r in d) for k in differing): bad+=1; print('merkle cover violated',A,B,d)
    if bad>=3: break
print('merkle bad',bad)
# ---- assignment strategies
from happysimulator.components.streaming.consumer_group import RangeAssignment, RoundRobinAssignment, StickyAssignment
bad=0
for seed in range(3000):
    rng=random.Random(seed); st=StickyAssignment()
    for S in (RangeAssignment(), RoundRobinAssignment(), st):
        for round_ in range(4):
            parts=list(range(rng.randint(0,9))); cons=[f'c{i}' for i in range(8) if rng.random()<0.5]
            res=S.assign(parts,cons)
            if cons:
                allp=sorted(p for v in res.values() for p in v)
                if allp!=sorted(parts) or set(res)!=set(cons): bad+=1; print('assign bad',type(S).__name__,parts,cons,res); break
    if bad>=3: break
print('assign bad',bad)

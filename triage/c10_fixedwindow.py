"""C10 native reproduction: FixedWindowPolicy.time_until_available returns ZERO while try_acquire
denies (window start / next window are truncated to ns separately from the floor-division that
decides the window), so a drain poll re-arms at now+0 forever."""
import sys
from happysimulator.core.temporal import Instant, Duration
from happysimulator.components.rate_limiter.policy import FixedWindowPolicy
bad = []
for w, t_admit, t_ask in [(1 / 3, 400_000_000, 666_666_666),      # window not a whole number of ns
                          (0.1, 200_000_000, 300_000_000)]:        # float floor division: 0.3 // 0.1 == 2.0
    p = FixedWindowPolicy(requests_per_window=1, window_size=w)
    assert p.try_acquire(Instant(t_admit))
    now = Instant(t_ask)
    wait = p.time_until_available(now)
    ok = p.try_acquire(now)
    print(f"window={w!r} admitted at {t_admit} ns; at {t_ask} ns: time_until_available={wait.nanoseconds} ns, try_acquire={ok}")
    if wait == Duration.ZERO and not ok:
        bad.append(w)
# the consequence through the public entity API: the poll is re-armed at the same instant for ever
from happysimulator import Simulation, Event, Entity
from happysimulator.components.rate_limiter.rate_limited_entity import RateLimitedEntity
class D(Entity):
    def handle_event(self, e): return None
d = D('d'); rl = RateLimitedEntity('rl', downstream=d, policy=FixedWindowPolicy(requests_per_window=1, window_size=1 / 3))
n = [0]
real = rl._handle_poll
def counting(ev):
    n[0] += 1
    if n[0] > 5000: raise SystemExit(f"VIOLATION: {n[0]} polls at frozen clock {ev.time.nanoseconds} ns (drain stalls)")
    return real(ev)
rl._handle_poll = counting
sim = Simulation(entities=[rl, d], end_time=Instant.from_seconds(2))
for t in (400_000_000, 450_000_000): sim.schedule(Event(time=Instant(t), event_type='req', target=rl))
sim.run()
print("polls", n[0]); sys.exit(1 if bad else 0)

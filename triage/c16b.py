from happysimulator import Simulation, Event, Instant, Entity
from happysimulator.components.datastore.cached_store import CachedStore
from happysimulator.components.datastore.kv_store import KVStore
from happysimulator.components.datastore.eviction_policies import LRUEviction
kv=KVStore('kv', read_latency=0.2, write_latency=0.3); kv.put_sync('k','old')
cs=CachedStore('cs', backing_store=kv, cache_capacity=10, eviction_policy=LRUEviction(), write_through=True)
out=[]
class R(Entity):
    def handle_event(self, e):
        v = yield from cs.get('k'); out.append(('get done@', round(self.now.to_seconds(),3), v))
class W(Entity):
    def handle_event(self, e):
        yield from cs.put('k','new'); out.append(('put done@', round(self.now.to_seconds(),3)))
r=R('r'); w=W('w'); sim=Simulation(entities=[r,w,cs,kv], end_time=Instant.from_seconds(5))
sim.schedule(Event(time=Instant.from_seconds(0.0), event_type='rd', target=r))
sim.schedule(Event(time=Instant.from_seconds(0.1), event_type='wr', target=w))
sim.schedule(Event(time=Instant.from_seconds(1.0), event_type='rd', target=r))
sim.run(); print(out, 'backing', kv.get_sync('k'))

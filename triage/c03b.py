# pre-constructed event vs counter epoch
import sys
from happysimulator import Simulation, Event, Instant, Entity, Source
log=[]
class X(Entity):
    def handle_event(self, e): log.append(e.event_type)
def build(prior):
    global log; log=[]
    x=X('x')
    for _ in range(prior):   # earlier activity in the interpreter
        Event(time=Instant.from_seconds(9), event_type='junk', target=x)
    pre = Event(time=Instant.from_seconds(1), event_type='user-pre', target=x)   # built BEFORE the Simulation
    src = Source.constant(rate=1, target=x, event_type='src')                    # first event at t=1
    sim = Simulation(sources=[src], entities=[x], end_time=Instant.from_seconds(1))
    sim.schedule(pre)
    sim.run(); return list(log)
print(build(0)); print(build(5))

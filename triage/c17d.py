"""C17 native reproduction: CRAQ read decides 'key is clean' BEFORE waiting for the store read; a write that is
applied during that wait is returned although the tail has not committed it (check-then-act across a yield)."""
from happysimulator import Simulation, Event, Instant, Entity, SimFuture
from happysimulator.components.replication.chain_replication import build_chain
from happysimulator.components.datastore.kv_store import KVStore
from happysimulator.components.network.network import Network
from happysimulator.components.network.link import NetworkLink
from happysimulator.distributions.constant import ConstantLatency

def run():
    net = Network(name='net')
    nodes = build_chain(['head', 'mid', 'tail'], net, lambda n: KVStore(n, write_latency=0.005, read_latency=0.001), craq_enabled=True)
    head, mid, tail = nodes
    for a in nodes:
        for b in nodes:
            if a is not b:
                net.add_link(a, b, NetworkLink(name=f'{a.name}-{b.name}', latency=ConstantLatency(0.1)))
    out = []
    class Client(Entity):
        def handle_event(self, e):
            md = e.context['metadata']; f = SimFuture()
            if md['op'] == 'w':
                yield 0.0, [Event(time=self.now, event_type='Write', target=head, context={'metadata': {'key': 'k', 'value': md['v'], 'reply_future': f}})]
                yield f
                out.append(('write acked', md['v'], round(self.now.to_seconds(), 4)))
            else:
                yield 0.0, [Event(time=self.now, event_type='Read', target=head, context={'metadata': {'key': 'k', 'reply_future': f}})]
                r = yield f
                out.append(('read@head', r.get('value'), round(self.now.to_seconds(), 4), 'tail has', tail.store.get_sync('k')))
    c = Client('c')
    sim = Simulation(entities=[net, c] + nodes + [n.store for n in nodes], end_time=Instant.from_seconds(5))
    def ev(t, **md): sim.schedule(Event(time=Instant.from_seconds(t), event_type='op', target=c, context={'metadata': md}))
    ev(0.0, op='w', v='v1'); ev(1.000, op='w', v='v2'); ev(1.0045, op='r')
    sim.run()
    print(out)
    bad = [o for o in out if o[0] == 'read@head' and o[1] != o[4]]
    print('read returned a value the tail had not committed:', bool(bad))
    return bool(bad)

if __name__ == '__main__':
    run()

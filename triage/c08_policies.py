"""C08 bounded stand-in `policy-model-differential`: the queue policies of components/queue_policies/ driven through their
public API by seeded random operation sequences and compared, after every step, with a small reference model of what
the property statement demands:

  * held items: len(policy) == number of items the model holds, is_empty() agrees, never above a finite capacity;
  * conservation over the policy's own statistics: enqueued == dequeued + dropped/expired + held, and every offered item
    is either accepted or counted in exactly one rejection counter;
  * order: DeadlineQueue = earliest (deadline, arrival) among live entries, every expired entry counted once;
    FairQueue = round robin over flows, FIFO inside a flow; WeightedFairQueue = FIFO inside a flow, `weight` consecutive
    turns per round while backlogged, never None while items are held; AdaptiveLIFO = FIFO below / LIFO at the
    threshold; RED / CoDel = FIFO among the items they deliver;
  * peek() announces exactly the item the next pop() (same clock) returns.

Covers what the deductive part of specs/C08.py does not reach: iteration over heap lists (DeadlineQueue.peek /
purge_expired / count_expired), the sum of flow lengths (FairQueue._total_items), WeightedFairQueue and CoDelQueue.

usage: c08_policies.py [quick|thorough] [--json]     exit 0 = no violation
"""
import inspect
import random
import sys
import warnings
from collections import OrderedDict, deque

warnings.simplefilter("ignore")


class Item:
    __slots__ = ("n", "flow", "deadline")

    def __init__(self, n, flow, deadline):
        self.n, self.flow, self.deadline = n, flow, deadline

    def __repr__(self):
        return f"i{self.n}/{self.flow}/{self.deadline}"


def run(tier="quick"):
    from happysimulator.components.queue_policies import (AdaptiveLIFO, CoDelQueue, DeadlineQueue, FairQueue, REDQueue,
                                                           WeightedFairQueue)
    from happysimulator.components.queue_policies import deadline_queue as dq_mod
    from happysimulator.core.temporal import Instant
    seeds = range(30) if tier == "quick" else range(400)
    steps = 80 if tier == "quick" else 200
    bad, n_eval = [], [0]
    # the repaired DeadlineQueue.peek scans for the minimal live entry; the pinned one returns the first live entry in
    # heap-array order (finding C08/deadline-peek): the peek clause is checked for it only once the repair is in
    dl_peek_fixed = "best is None or entry < best" in inspect.getsource(dq_mod.DeadlineQueue.peek)

    def fail(case, **info):
        if len(bad) < 12 and not any(b["case"] == case for b in bad):
            bad.append({"case": case, **{k: str(v)[:200] for k, v in info.items()}})

    def check(cond, case, **info):
        n_eval[0] += 1
        if not cond:
            fail(case, **info)

    for seed in seeds:
        rng = random.Random(seed)
        clock = [0]

        def now():
            return Instant(clock[0])
        cap = rng.choice([None, 1, 2, 3, 5, 8])
        # ------------------------------------------------------------------ DeadlineQueue
        q = DeadlineQueue(get_deadline=lambda it: Instant(it.deadline), capacity=cap,
                          clock_func=now if seed % 5 else None)
        has_clock = bool(seed % 5)
        model, offered, arrival = [], 0, 0          # model: [(deadline, arrival, item)]
        clock[0] = 0
        for step in range(steps):
            op = rng.random()
            tag = f"seed={seed} step={step}"
            if op < 0.5:
                it = Item(offered, "f", clock[0] + rng.choice([-5, 0, 1, 3, 3, 10, 50]))
                offered += 1
                ok = q.push(it)
                check(ok == (cap is None or len(model) < cap), "deadline/accepted-iff-room", at=tag)
                if ok:
                    model.append((it.deadline, arrival, it))
                    arrival += 1
            elif op < 0.8:
                live = sorted((e for e in model if not has_clock or e[0] >= clock[0]), key=lambda e: e[:2])
                want = live[0][2] if live else None
                if dl_peek_fixed:
                    check(q.peek() is want, "deadline/peek-is-what-pop-returns", at=tag)
                got = q.pop()
                check(got is want, "deadline/earliest-live-deadline-first", at=tag, got=got, want=want)
                # every expired entry sorts before every live one: a pop that reaches a live entry (or drains the
                # heap) has removed and counted all expired ones
                model = live[1:] if live else []
            elif op < 0.9:
                n_exp = sum(1 for e in model if has_clock and e[0] < clock[0])
                check(q.count_expired() == n_exp, "deadline/count-expired", at=tag)
                check(q.count_valid() == len(model) - n_exp, "deadline/count-valid", at=tag)
                before = q.stats.expired
                r = q.purge_expired()
                check(r == n_exp and q.stats.expired == before + n_exp, "deadline/purge-removes-and-counts-each-expired", at=tag)
                model = [e for e in model if not (has_clock and e[0] < clock[0])]
            else:
                clock[0] += rng.choice([0, 1, 2, 7])
            st = q.stats
            check(len(q) == len(model) and q.is_empty() == (not model), "deadline/held-count", at=tag)
            check(st.enqueued == st.dequeued + st.expired + len(q), "deadline/conservation", at=tag, stats=st)
            check(st.enqueued + st.capacity_rejected == offered, "deadline/offered-accepted-or-counted", at=tag)
            check(cap is None or len(q) <= cap, "deadline/capacity", at=tag)
        # ------------------------------------------------------------------ FairQueue
        mf, pfc = rng.choice([None, 1, 2, 3]), rng.choice([None, 1, 2, 4])
        q = FairQueue(get_flow_id=lambda it: it.flow, max_flows=mf, per_flow_capacity=pfc)
        flows, offered = OrderedDict(), 0
        for step in range(steps):
            tag = f"seed={seed} step={step} max_flows={mf} per_flow={pfc}"
            if rng.random() < 0.55:
                it = Item(offered, rng.choice("abcd"), 0)
                offered += 1
                ok = q.push(it)
                if it.flow in flows:
                    want = pfc is None or len(flows[it.flow]) < pfc
                else:
                    want = mf is None or len(flows) < mf
                check(ok == want, "fair/accepted-iff-flow-has-room-or-can-be-created", at=tag)
                if ok:
                    flows.setdefault(it.flow, deque()).append(it)
            else:
                want = None
                if flows:
                    f, dq = next(iter(flows.items()))
                    want = dq[0]
                check(q.peek() is want, "fair/peek-is-what-pop-returns", at=tag)
                got = q.pop()
                check(got is want, "fair/round-robin-order", at=tag, got=got, want=want)
                if flows:
                    dq.popleft()
                    flows.move_to_end(f)
                    if not dq:
                        del flows[f]
            held = sum(len(d) for d in flows.values())
            st = q.stats
            check(len(q) == held and q.is_empty() == (held == 0), "fair/held-count-is-sum-of-flows", at=tag, len=len(q), held=held)
            check(st.enqueued == st.dequeued + len(q), "fair/conservation", at=tag, stats=st)
            check(st.enqueued + st.rejected_flow_capacity + st.rejected_max_flows == offered, "fair/offered-accepted-or-counted", at=tag)
            check(q.flow_count == len(flows) and all(q.get_flow_depth(f) == len(d) for f, d in flows.items()), "fair/flows", at=tag)
            check(mf is None or pfc is None or len(q) <= q.capacity, "fair/capacity", at=tag)
        # ------------------------------------------------------------------ WeightedFairQueue
        weights = {"a": rng.choice([1, 2, 3]), "b": rng.choice([1, 2]), "c": 1, "d": rng.choice([0, 1, 4])}
        pfc = rng.choice([None, 2, 4])
        q = WeightedFairQueue(get_flow_id=lambda it: it.flow, get_weight=lambda f: weights[f], capacity=cap, per_flow_capacity=pfc)
        per_flow, offered, held = {}, 0, 0
        for step in range(steps):
            tag = f"seed={seed} step={step} cap={cap} per_flow={pfc}"
            if rng.random() < 0.55:
                it = Item(offered, rng.choice("abcd"), 0)
                offered += 1
                ok = q.push(it)
                want = (cap is None or held < cap) and (pfc is None or len(per_flow.get(it.flow, ())) < pfc)
                check(ok == want, "wfq/accepted-iff-room", at=tag)
                if ok:
                    per_flow.setdefault(it.flow, deque()).append(it)
                    held += 1
            else:
                pk = q.peek()
                got = q.pop()
                check((got is None) == (held == 0), "wfq/none-iff-empty", at=tag, got=got, held=held)
                check(pk is got, "wfq/peek-is-what-pop-returns", at=tag, peek=pk, got=got)
                if got is not None:
                    check(bool(per_flow.get(got.flow)) and per_flow[got.flow][0] is got, "wfq/fifo-inside-a-flow", at=tag, got=got)
                    if per_flow.get(got.flow) and got in per_flow[got.flow]:
                        per_flow[got.flow].remove(got)
                        held -= 1
            st = q.stats
            check(len(q) == held and q.is_empty() == (held == 0), "wfq/held-count", at=tag)
            check(st.enqueued == st.dequeued + len(q), "wfq/conservation", at=tag, stats=st)
            check(st.enqueued + st.rejected_capacity == offered, "wfq/offered-accepted-or-counted", at=tag)
            check(cap is None or len(q) <= cap, "wfq/capacity", at=tag)
        # weighted share: all flows backlogged for r full rounds -> exactly weight * r turns each, in runs of `weight`
        q = WeightedFairQueue(get_flow_id=lambda it: it.flow, get_weight=lambda f: weights[f])
        r = 3
        eff = {f: max(1, w) for f, w in weights.items()}
        for f in "abcd":
            for i in range(eff[f] * r + 1):
                q.push(Item(i, f, 0))
        served = [q.pop().flow for _ in range(sum(eff.values()) * r)]
        check(all(served.count(f) == eff[f] * r for f in "abcd"), "wfq/weighted-share-while-backlogged", seed=seed, served="".join(served))
        want = "".join(f * eff[f] for f in "abcd") * r
        check("".join(served) == want, "wfq/weight-consecutive-turns-per-round", seed=seed, served="".join(served), want=want)
        # ------------------------------------------------------------------ AdaptiveLIFO
        th = rng.choice([1, 2, 3, 5])
        q = AdaptiveLIFO(congestion_threshold=th, capacity=cap)
        model, offered = deque(), 0
        for step in range(steps):
            tag = f"seed={seed} step={step} threshold={th} cap={cap}"
            if rng.random() < 0.55:
                it = Item(offered, "f", 0)
                offered += 1
                ok = q.push(it)
                check(ok == (cap is None or len(model) < cap), "alifo/accepted-iff-room", at=tag)
                if ok:
                    model.append(it)
            else:
                want = None if not model else (model[-1] if len(model) >= th else model[0])
                check(q.peek() is want, "alifo/peek-is-what-pop-returns", at=tag)
                check(q.pop() is want, "alifo/fifo-below-lifo-at-threshold", at=tag)
                if model:
                    model.pop() if len(model) >= th else model.popleft()
            st = q.stats
            check(len(q) == len(model), "alifo/held-count", at=tag)
            check(st.enqueued == st.dequeued_fifo + st.dequeued_lifo + len(q), "alifo/conservation", at=tag)
            check(st.enqueued + st.capacity_rejected == offered, "alifo/offered-accepted-or-counted", at=tag)
        # ------------------------------------------------------------------ REDQueue (seeded draw) and CoDelQueue
        random.seed(seed)
        mn = rng.choice([0, 1, 3])
        q = REDQueue(min_threshold=mn, max_threshold=mn + rng.choice([1, 2, 5]), max_probability=rng.choice([0.1, 0.5, 1.0]),
                     weight=rng.choice([0.002, 0.3, 0.9]))
        model, offered = deque(), 0
        for step in range(steps):
            tag = f"seed={seed} step={step}"
            if rng.random() < 0.6:
                it = Item(offered, "f", 0)
                offered += 1
                if q.push(it):
                    model.append(it)
            else:
                want = model.popleft() if model else None
                check(q.peek() is want, "red/peek-is-what-pop-returns", at=tag)
                check(q.pop() is want, "red/fifo-among-accepted", at=tag)
            st = q.stats
            check(len(q) == len(model) and len(q) <= q.capacity, "red/held-count-and-capacity", at=tag)
            check(st.enqueued == st.dequeued + len(q), "red/conservation", at=tag)
            check(st.enqueued + st.dropped_probabilistic + st.dropped_forced + st.capacity_rejected == offered,
                  "red/offered-accepted-or-counted", at=tag)
        clock[0] = 0
        q = CoDelQueue(target_delay=rng.choice([0.001, 0.005]), interval=rng.choice([0.01, 0.1]), capacity=cap, clock_func=now)
        model, offered, last_n = deque(), 0, -1
        for step in range(steps):
            tag = f"seed={seed} step={step} cap={cap}"
            op = rng.random()
            if op < 0.5:
                it = Item(offered, "f", 0)
                offered += 1
                ok = q.push(it)
                check(ok == (cap is None or len(model) < cap), "codel/accepted-iff-room", at=tag)
                if ok:
                    model.append(it)
            elif op < 0.8:
                want = model[0] if model else None
                check(q.peek() is want, "codel/peek-is-what-pop-returns", at=tag)
                d0 = q.stats.dropped
                got = q.pop()
                check(got is want, "codel/fifo-head-is-delivered", at=tag, got=got, want=want)
                if model:
                    model.popleft()
                # drops come off the head, oldest first, each counted once
                for _ in range(q.stats.dropped - d0):
                    check(bool(model), "codel/dropped-more-than-held", at=tag)
                    if model:
                        model.popleft()
            else:
                clock[0] += rng.choice([1_000_000, 20_000_000, 150_000_000])
            st = q.stats
            check(len(q) == len(model) and q.is_empty() == (not model), "codel/held-count", at=tag, len=len(q), model=len(model))
            check(st.enqueued == st.dequeued + st.dropped + len(q), "codel/conservation", at=tag, stats=st)
            check(st.enqueued + st.capacity_rejected == offered, "codel/offered-accepted-or-counted", at=tag)
            check(cap is None or len(q) <= cap, "codel/capacity", at=tag)
    return {"evaluations": n_eval[0], "violations": bad}


if __name__ == "__main__":
    args = [a for a in sys.argv[1:] if a != "--json"]
    res = run(args[0] if args else "quick")
    if "--json" in sys.argv:
        import json
        print(json.dumps(res))
    else:
        print(res["evaluations"], "evaluations")
        for v in res["violations"]:
            print("VIOLATION", v)
    sys.exit(1 if res["violations"] else 0)

"""C08 finding: ShiftedServer never polls its queue when a shift starts.
Requests that arrive while the capacity is 0 are queued (the driver's notify finds no capacity); when the shift
starts, _handle_shift_change only raises _current_capacity - nobody polls, so the waiting requests sit next to free
workers until some LATER arrival finds the queue empty ... which never happens, because the queue is not empty.
Expected (work conservation): a, b arrive at t=1,2 (off shift), shift of capacity 1 starts at t=10, service 1 s:
a completes at 11, b at 12.     Pinned tree: nothing is ever processed.
Run: PYTHONPATH=/repo python triage/c08_shift_start_strands.py"""
from happysimulator import Event, Instant, Simulation, Sink
from happysimulator.components.industrial import Shift, ShiftSchedule, ShiftedServer

sink = Sink("sink")
srv = ShiftedServer("s", ShiftSchedule([Shift(10.0, 100.0, 1)], default_capacity=0), service_time=1.0, downstream=sink)
sim = Simulation(entities=[srv, sink], end_time=Instant.from_seconds(50))
for t, tag in ((1.0, "a"), (2.0, "b"), (20.0, "c")):
    sim.schedule(Event(time=Instant.from_seconds(t), event_type="job", target=srv, context={"tag": tag}))
sim.run()
print("processed", srv.processed, "waiting", srv.depth, "capacity", srv.current_capacity, "active", srv._active)

"""C13 native reproduction: a member that stops responding before its first message is reported
ALIVE forever by every other member (no suspicion, no death), for any run length.

Usage: /venv/bin/python triage/c13_silent_member.py [repo]     (default /repo)
Exit 1 when the defect shows (some live member still reports the silent member ALIVE at the end).
"""
import random
import sys

REPO = sys.argv[1] if len(sys.argv) > 1 else "/repo"
sys.path.insert(0, REPO)
from tests.integration.consensus.test_consensus_membership import _build_membership_cluster  # noqa: E402
from happysimulator.components.consensus.membership import MemberState  # noqa: E402
from happysimulator.core.simulation import Simulation  # noqa: E402

bad = 0
runs = 0
for seed, (n, pi, st, phi, dur) in enumerate([(3, 1.0, 5.0, 8.0, 120.0), (5, 0.5, 3.0, 4.0, 120.0),
                                               (4, 0.2, 0.5, 1.0, 60.0), (7, 1.0, 1.0, 8.0, 200.0)]):
    random.seed(seed)
    net, nodes = _build_membership_cluster(n=n, probe_interval=pi, suspicion_timeout=st, phi_threshold=phi)
    silent, live = nodes[-1], nodes[:-1]
    net.partition([silent], live)          # from time 0: nothing from/to the silent member gets through
    sim = Simulation(duration=dur, entities=[net, *nodes])
    for nd in live:                        # the silent member never starts either
        for e in nd.start():
            sim.schedule(e)
    sim.run()
    states = [(nd.name, nd.get_member_state(silent.name).name) for nd in live]
    still_alive = [s for s in states if s[1] == "ALIVE"]
    rounds = dur / (pi * (n - 1))
    runs += 1
    print(f"n={n} probe_interval={pi} suspicion_timeout={st} phi={phi}: after {dur}s (~{rounds:.0f} probe rounds) "
          f"silent member seen as {states}")
    if still_alive:
        bad += 1
print(f"{bad}/{runs} runs: a member silent from the start is still reported ALIVE at the end")
sys.exit(1 if bad else 0)

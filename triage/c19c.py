"""C19: a late acknowledge (after the visibility timeout moved the message back to pending) leaves a stale id at the
head of the pending queue; poll() then returns None forever and every later message is stranded."""
import logging
logging.basicConfig(level=logging.ERROR)
from happysimulator import Simulation, Event, Instant, Entity
from happysimulator.components.messaging.message_queue import MessageQueue

got = []
mq = MessageQueue('mq', delivery_latency=0.0, redelivery_delay=1.0)


class C(Entity):
    def handle_event(self, e):
        got.append((round(self.now.to_seconds(), 3), e.context.get('payload').event_type, e.context.get('delivery_count')))


c = C('c')
mq.subscribe(c)


class Driver(Entity):
    def handle_event(self, e):
        ida = yield from mq.publish(Event(time=self.now, event_type='A', target=c))
        yield from mq.publish(Event(time=self.now, event_type='B', target=c))
        ev = yield from mq.poll()                 # A delivered (in flight)
        out = [ev] if ev else []
        yield 0.5, out
        red = mq.schedule_redelivery(ida)         # visibility timeout: A back to the front of pending
        mq.acknowledge(ida)                       # the consumer's (late) acknowledgement arrives
        print('after late ack: pending', list(mq._pending_queue) == [ida] + list(mq._pending_queue)[1:], 'pending_count', mq.pending_count,
              'live', len(mq._messages))
        polls = []
        for _ in range(5):
            ev = yield from mq.poll()
            polls.append(ev)
            yield 0.1
        print('5 polls after the ack returned', polls)
        return [red] if red else []


d = Driver('d')
sim = Simulation(entities=[c, mq, d], end_time=Instant.from_seconds(10))
sim.schedule(Event(time=Instant.from_seconds(0.1), event_type='go', target=d))
sim.run()
print('consumer got', got, '| B still pending:', mq.pending_count, 'in_flight', mq.in_flight_count, 'stats', mq.stats.messages_delivered)

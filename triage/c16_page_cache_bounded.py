"""C16 bounded stand-in for PageCache (incl. flush, which the symbolic engine cannot reach): seeded random
schedules of concurrent read_page / write_page / flush processes on a small cache, run by the real Simulation.
Checked: no operation raises; pages_cached <= capacity whenever an operation completes and at every tick of a
sampler process; a final flush leaves no dirty page.
usage: c16_page_cache_bounded.py <n_models> <seed> [--json]"""
import json
import random
import sys

from happysimulator import Simulation, Event, Instant, Entity
from happysimulator.components.infrastructure.page_cache import PageCache


def run_model(rng):
    cap = rng.choice([1, 1, 2, 3])
    pc = PageCache("pc", capacity_pages=cap, readahead_pages=rng.choice([0, 0, 1, 2]),
                   disk_read_latency_s=rng.choice([0.01, 0.05, 0.1]), disk_write_latency_s=rng.choice([0.02, 0.1, 0.2]))
    viol = []

    def over(where):
        if pc.pages_cached > cap and len(viol) < 3:
            viol.append({"case": "above-capacity", "where": where, "cached": pc.pages_cached, "capacity": cap})

    class Proc(Entity):
        def handle_event(self, e):
            op, page = e.context["op"], e.context["page"]
            try:
                if op == "r":
                    yield from pc.read_page(page)
                elif op == "w":
                    yield from pc.write_page(page)
                else:
                    yield from pc.flush()
            except Exception as ex:      # noqa: BLE001
                if len(viol) < 3:
                    viol.append({"case": "exception", "op": op, "page": page, "exc": repr(ex)})
                return
            over(f"after {op}{page}")

    class Sampler(Entity):
        def handle_event(self, e):
            for _ in range(200):
                over("sampler")
                yield 0.005

    class Final(Entity):
        def handle_event(self, e):
            try:
                yield from pc.flush()
            except Exception as ex:      # noqa: BLE001
                viol.append({"case": "exception", "op": "final-flush", "exc": repr(ex)})
                return
            if pc.dirty_pages != 0:
                viol.append({"case": "dirty-after-flush", "dirty": pc.dirty_pages})
            over("final")

    procs = [Proc(f"p{i}") for i in range(rng.choice([2, 3, 4]))]
    sampler, final = Sampler("sampler"), Final("final")
    sim = Simulation(entities=[pc, sampler, final, *procs], end_time=Instant.from_seconds(20))
    sim.schedule(Event(time=Instant.from_seconds(0.0), event_type="s", target=sampler))
    for p in procs:
        t = 0.0
        for _ in range(rng.randint(1, 4)):
            t += rng.choice([0.0, 0.01, 0.03, 0.05, 0.11])
            sim.schedule(Event(time=Instant.from_seconds(t), event_type="op", target=p,
                               context={"op": rng.choice("rrwwf"), "page": rng.randint(1, 4)}))
    sim.schedule(Event(time=Instant.from_seconds(10.0), event_type="f", target=final))
    sim.run()
    return viol


def main():
    n, seed = int(sys.argv[1]), int(sys.argv[2])
    rng = random.Random(seed)
    violations = []
    for i in range(n):
        for v in run_model(rng):
            if len(violations) < 5:
                violations.append(dict(v, model=i))
    out = {"evaluations": n, "violations": violations}
    print(json.dumps(out) if "--json" in sys.argv else out)
    return 1 if violations else 0


if __name__ == "__main__":
    sys.exit(main())

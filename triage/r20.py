import random
from collections import Counter
from happysimulator.sketching.bloom_filter import BloomFilter
from happysimulator.sketching.count_min_sketch import CountMinSketch
from happysimulator.sketching.hyperloglog import HyperLogLog
from happysimulator.sketching.topk import TopK
from happysimulator.sketching.tdigest import TDigest
from happysimulator.sketching.reservoir import ReservoirSampler
bad={}
for seed in range(400):
    rng=random.Random(seed)
    s1=[rng.randrange(30) for _ in range(rng.randint(0,60))]; s2=[rng.randrange(30) for _ in range(rng.randint(0,60))]
    # bloom
    mk=lambda: BloomFilter(size_bits=rng.choice([64,128,200]), num_hashes=3, seed=7) 
    sz=rng.choice([64,128,200]); 
    a=BloomFilter(size_bits=sz,num_hashes=3,seed=7); b=BloomFilter(size_bits=sz,num_hashes=3,seed=7); c=BloomFilter(size_bits=sz,num_hashes=3,seed=7)
    for x in s1: a.add(x); c.add(x)
    for x in s2: b.add(x); c.add(x)
    a.merge(b)
    if a._bits!=c._bits: bad.setdefault('bloom merge',seed)
    if not all(a.contains(x) for x in s1+s2): bad.setdefault('bloom fn',seed)
    w=rng.choice([4,8,16]); d=rng.choice([1,2,3])
    a=CountMinSketch(width=w,depth=d,seed=3); b=CountMinSketch(width=w,depth=d,seed=3); c=CountMinSketch(width=w,depth=d,seed=3)
    for x in s1: a.add(x); c.add(x)
    for x in s2: b.add(x); c.add(x)
    a.merge(b); cnt=Counter(s1+s2)
    if a._counters!=c._counters: bad.setdefault('cms merge',seed)
    if any(a.estimate(x)<n for x,n in cnt.items()): bad.setdefault('cms under',seed)
    p=rng.choice([4,5,6])
    a=HyperLogLog(precision=p,seed=1); b=HyperLogLog(precision=p,seed=1); c=HyperLogLog(precision=p,seed=1)
    for x in s1: a.add(x); c.add(x)
    for x in s2: b.add(x); c.add(x)
    a.merge(b)
    if a._registers!=c._registers: bad.setdefault('hll merge',seed)
    k=rng.choice([2,3,5]); t=TopK(k=k); s=s1+s2
    for x in s: t.add(x)
    cnt=Counter(s); N=len(s)
    for x,n in cnt.items():
        e=t.estimate_with_error(x)
        if x in t and not (e.count-e.error<=n<=e.count): bad.setdefault('topk bound',(seed,x,n,e.count,e.error))
        if n> N/k and x not in t: bad.setdefault('topk heavy untracked',(seed,x,n,N,k))
    td=TDigest(compression=rng.choice([10,20,100])); vals=[rng.choice([rng.random()*10, float(rng.randrange(5))]) for _ in range(rng.randint(1,80))]
    for v in vals: td.add(v)
    qs=sorted(rng.random() for _ in range(15)); out=[td.quantile(q) for q in [0]+qs+[1]]
    if any(out[i]>out[i+1]+1e-12 for i in range(len(out)-1)): bad.setdefault('tdigest monotone',(seed,[round(o,4) for o in out]))
    if out[0]<min(vals)-1e-12 or out[-1]>max(vals)+1e-12 or any(o<min(vals)-1e-9 or o>max(vals)+1e-9 for o in out): bad.setdefault('tdigest range',seed)
    kk=rng.choice([1,3,10]); r=ReservoirSampler(size=kk, seed=seed)
    for x in s: r.add(x)
    if len(r)!=min(kk,len(s)): bad.setdefault('reservoir len',seed)
print(bad if bad else 'all sketch checks OK')

"""C05 native repro: a PartitionLink with a `latency` distribution (documented: "the coordinator overrides each
event's timestamp with send_time + latency.sample()") cannot carry a single event: LatencyDistribution has no
sample() method (its API is get_latency(current_time) -> Duration), so WindowedCoordinator._exchange_events
raises AttributeError at the first barrier that has a cross-partition event on such a link.

Second check (only meaningful once the first is repaired): a sampled delay below min_latency must be rejected
like a too-early timestamp on a link without override (RuntimeError), not scheduled into the destination's past.

usage: c05_link_latency.py [--json]     exit 0 = behaves as documented
"""
import json
import sys
import warnings

warnings.simplefilter("ignore")


def run(latency_s, min_latency):
    from happysimulator import Entity, Event, Instant
    from happysimulator.distributions.constant import ConstantLatency
    from happysimulator.parallel import ParallelSimulation, PartitionLink, SimulationPartition
    got = []

    class Sink(Entity):
        def handle_event(self, ev):
            got.append((ev.time.nanoseconds, ev.event_type))
            return None

    sink = Sink("sink")

    class Sender(Entity):
        def handle_event(self, ev):
            # the handler stamps the event with the minimum delay; the link's distribution is to override it
            return [Event(time=self.now + min_latency, event_type="msg", target=sink)]

    sender = Sender("sender")
    link = PartitionLink("A", "B", min_latency=min_latency, latency=ConstantLatency(latency_s))
    ps = ParallelSimulation([SimulationPartition("A", entities=[sender]), SimulationPartition("B", entities=[sink])],
                            links=[link], duration=2.0)
    ps.schedule(Event(time=Instant.from_seconds(0.25), event_type="go", target=sender), partition="A")
    ps.run()
    return got


def main():
    bad = []
    n = 0
    # 1. override 0.3 s on a link with min_latency 0.1 s: the message must arrive at 0.25 + 0.3 s
    n += 1
    try:
        got = run(0.3, 0.1)
        if got != [(550_000_000, "msg")]:
            bad.append({"case": "latency-override", "expected": [[550_000_000, "msg"]], "got": got})
    except Exception as e:      # noqa: BLE001
        bad.append({"case": "latency-override", "raised": f"{type(e).__name__}: {e}"})
    # 2. override 0.01 s < min_latency 0.1 s: must be rejected loudly (RuntimeError), never delivered early / lost
    n += 1
    try:
        got = run(0.01, 0.1)
        bad.append({"case": "override-below-min-latency-accepted", "got": got})
    except RuntimeError:
        pass
    except Exception as e:      # noqa: BLE001
        bad.append({"case": "override-below-min-latency", "raised": f"{type(e).__name__}: {e}"})
    res = {"evaluations": n, "violations": bad}
    if "--json" in sys.argv:
        print(json.dumps(res))
    else:
        print(res)
    return 1 if bad else 0


if __name__ == "__main__":
    sys.exit(main())

"""C05 bounded stand-in for happysimulator/parallel/validation.py (validate_partitions / build_entity_sets use set
comprehensions over objects, id()-keyed dicts and reflection (vars()) - outside the verifier's reach).

Seeded random configurations (1-3 partitions x 0-3 entities drawn from a small pool so that sharing happens, 0-3
links with latencies on a small grid, window_size None / below / equal / just above / above the minimum latency,
duplicate names, links to unknown partitions) are checked against an independent oracle written from the statement:

  accepted (returns)  ==>  names unique, no entity in two partitions (nor twice in one), every link joins known
                           partitions, window_size is None or <= min(link.min_latency)
  rejected            ==>  ValueError (nothing else), and the oracle finds one of the violations above
  build_entity_sets   ==   {name: ids of entities + sources + probes}; pairwise disjoint when accepted
  ParallelSimulation(...) accepts/rejects exactly like validate_partitions and uses window_size (or the minimum
                           latency when none is given) as the coordinator's window.

usage: c05_validate.py [n_cases] [seed] [--json]      exit 0 = no disagreement
"""
import json
import random
import sys
import warnings

warnings.simplefilter("ignore")


def main():
    args = [a for a in sys.argv[1:] if not a.startswith("--")]
    n = int(args[0]) if args else 400
    seed = int(args[1]) if len(args) > 1 else 0
    from happysimulator import Entity
    from happysimulator.parallel import ParallelSimulation, PartitionLink, SimulationPartition
    from happysimulator.parallel.validation import build_entity_sets, validate_partitions

    class Node(Entity):
        def handle_event(self, ev):
            return None

    rnd = random.Random(seed)
    bad = []
    cover = {}
    lat_grid = [0.05, 0.1, 0.1, 0.25, 1e-6, 0.3]
    for case in range(n):
        pool = [Node(f"n{i}") for i in range(5)]
        names = rnd.choice([["A"], ["A", "B"], ["A", "B", "C"], ["A", "A"], ["A", "B", "A"]])
        share = rnd.random() < 0.4
        parts, used = [], []
        for nm in names:
            k = rnd.randint(0, 3)
            cand = pool if share else [e for e in pool if e not in used]
            ents = [rnd.choice(cand) for _ in range(k)] if (cand and share) else rnd.sample(cand, min(k, len(cand)))
            used += ents
            parts.append(SimulationPartition(name=nm, entities=ents))
        links = []
        for _ in range(rnd.randint(0, 3)):
            ends = sorted(set(names)) + (["Z"] if rnd.random() < 0.15 else [])
            s, d = rnd.choice(ends), rnd.choice(ends)
            if s == d:
                continue
            links.append(PartitionLink(s, d, min_latency=rnd.choice(lat_grid)))
        min_lat = min((lk.min_latency for lk in links), default=None)
        if min_lat is None:
            w = rnd.choice([None, 0.1])
        else:
            w = rnd.choice([None, min_lat / 2, min_lat, min_lat * (1 + 1e-12) if min_lat * (1 + 1e-12) > min_lat else min_lat * 2,
                            min_lat * 3, min(lat_grid)])
        # oracle
        viol = []
        if len(set(names)) != len(names):
            viol.append("duplicate-name")
        seen = {}
        for p in parts:
            for e in p.entities:
                if id(e) in seen:
                    viol.append("entity-twice")
                seen[id(e)] = p.name
        for lk in links:
            if lk.source_partition not in names or lk.dest_partition not in names:
                viol.append("unknown-link-partition")
        if w is not None and links and w > min_lat:
            viol.append("window-above-min-latency")
        for v in (viol or ["valid"]):
            cover[v] = cover.get(v, 0) + 1
        try:
            validate_partitions(parts, links, w)
            accepted, err = True, None
        except ValueError as e:
            accepted, err = False, str(e)
        except Exception as e:      # noqa: BLE001
            bad.append({"case": case, "what": "unexpected exception", "err": f"{type(e).__name__}: {e}"})
            continue
        if accepted and viol:
            bad.append({"case": case, "what": "accepted an invalid configuration", "oracle": viol, "window": w,
                        "min_latency": min_lat, "names": names})
        if not accepted and not viol:
            bad.append({"case": case, "what": "rejected a valid configuration", "err": err, "window": w, "min_latency": min_lat})
        if accepted:
            sets = build_entity_sets(parts)
            for p in parts:
                want = frozenset(id(x) for x in list(p.entities) + list(p.sources) + list(p.probes))
                if sets.get(p.name) != want:
                    bad.append({"case": case, "what": "build_entity_sets differs", "partition": p.name})
            ps = list(sets.values())
            if any(ps[i] & ps[j] for i in range(len(ps)) for j in range(i + 1, len(ps))):
                bad.append({"case": case, "what": "entity sets of two partitions overlap"})
        # the constructor must agree with validate_partitions and fix the coordinator's window accordingly
        try:
            psim = ParallelSimulation(parts, links=links, window_size=w, duration=1.0)
            if not accepted:
                bad.append({"case": case, "what": "ParallelSimulation accepted what validate_partitions rejects", "err": err})
            elif links and psim._window_size != (w if w is not None else min_lat):
                bad.append({"case": case, "what": "window differs from the validated one", "got": psim._window_size})
            elif links and psim._window_size > min_lat:
                bad.append({"case": case, "what": "window above the minimum link latency", "got": psim._window_size})
        except ValueError:
            if accepted:
                bad.append({"case": case, "what": "ParallelSimulation rejects what validate_partitions accepts"})
        if len(bad) > 5:
            break
    res = {"evaluations": n, "violations": bad, "coverage": cover}
    print(json.dumps(res) if "--json" in sys.argv else res)
    return 1 if bad else 0


if __name__ == "__main__":
    sys.exit(main())

from happysimulator import Simulation, Event, Instant, Entity
from happysimulator.components.storage.transaction_manager import TransactionManager, IsolationLevel
from happysimulator.components.datastore.kv_store import KVStore
import inspect; print(inspect.signature(TransactionManager.__init__), inspect.signature(TransactionManager.begin_sync))
kv=KVStore('kv', read_latency=0.001, write_latency=0.001); kv.put_sync('x',0); kv.put_sync('y',0)
tm=TransactionManager('tm', store=kv)
out=[]
class T1(Entity):
    def handle_event(self,e):
        tx=tm.begin_sync(IsolationLevel.SNAPSHOT_ISOLATION)
        x = yield from tx.read('x')
        yield 1.0
        y = yield from tx.read('y')
        ok = yield from tx.commit()
        out.append(('T1 read x,y', x, y, 'committed', ok))
class T2(Entity):
    def handle_event(self,e):
        tx=tm.begin_sync(IsolationLevel.SNAPSHOT_ISOLATION)
        yield from tx.write('x',1); yield from tx.write('y',1)
        ok = yield from tx.commit(); out.append(('T2 wrote x=y=1 committed', ok, round(self.now.to_seconds(),3)))
t1=T1('t1'); t2=T2('t2'); sim=Simulation(entities=[t1,t2,tm,kv], end_time=Instant.from_seconds(5))
sim.schedule(Event(time=Instant.from_seconds(0), event_type='go', target=t1)); sim.schedule(Event(time=Instant.from_seconds(0.5), event_type='go', target=t2))
sim.run(); print(out)

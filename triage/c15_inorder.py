"""C15 bounded native stand-in (run by specs/C15.py in a subprocess): in-order SYNC completion under the real scheduler.
usage: PYTHONPATH=<tree> python c15_inorder.py <seed> <quick|thorough>"""
import json, sys
seed, tier = int(sys.argv[1]), sys.argv[2]

import random
from happysimulator import Simulation, Event, Instant, Entity as _E
from happysimulator.components.storage.lsm_tree import LSMTree as _LSM
from happysimulator.components.storage.wal import (WriteAheadLog as _WAL, SyncEveryWrite as _SE,
                                                     SyncOnBatch as _SB, SyncPeriodic as _SP)
rng = random.Random(seed)
runs = 60 if tier == "quick" else 600
n_eval, bad = 0, {}
for run in range(runs):
    pol = rng.choice([_SE(), _SB(rng.randint(1, 4)), _SP(rng.choice([0.0005, 0.002, 0.01]))])
    wal = _WAL("wal", sync_policy=pol, write_latency=rng.choice([0.0001, 0.0003]), sync_latency=rng.choice([0.0, 0.001]))
    lsm = _LSM("lsm", memtable_size=rng.randint(2, 5), sstable_write_latency=rng.choice([0.0005, 0.05, 0.5]), wal=wal)
    synced_log, returns = [], []

    orig_append = wal.append

    def traced(key, value, _o=orig_append):
        seq = yield from _o(key, value)
        returns.append(seq)
        synced_log.append(wal.synced_up_to)
        return seq
    wal.append = traced

    class W(_E):
        def __init__(self, name, ops):
            super().__init__(name)
            self.ops = ops

        def handle_event(self, e):
            for op, k, v in self.ops:
                if op == "put":
                    yield from lsm.put(k, v)
                else:
                    yield from lsm.delete(k)
                yield rng.choice([0.0, 0.0002, 0.001])
    writers = []
    for w in range(rng.randint(1, 4)):
        ops = [(rng.choice(["put", "put", "delete"]), f"k{rng.randint(0, 5)}", f"v{run}_{w}_{i}") for i in range(rng.randint(1, 8))]
        writers.append(W(f"w{w}", ops))
    end = rng.choice([0.001, 0.003, 0.01, 0.05, 0.6, 2.0])
    sim = Simulation(entities=writers + [lsm, wal], end_time=Instant.from_seconds(end))
    for w in writers:
        sim.schedule(Event(time=Instant.from_seconds(rng.choice([0.0, 0.0001, 0.0005, 0.002])), event_type="go", target=w))
    sim.run()
    n_eval += 1
    # (appends do NOT return in sequence order - an append that does not sync overtakes earlier ones that do;
    #  informational only, nothing in specs/C15.py assumes it)
    if synced_log != sorted(synced_log):
        bad.setdefault("synced-up-to-never-goes-back", {"run": run, "synced": synced_log[:12]})
print(json.dumps({"evaluations": n_eval, "violations": [{"case": k, **v} for k, v in sorted(bad.items())]}))



"""C19 bounded stand-in (native, clean interpreter): consumer-group membership changes through the public API.

Real Simulation, Member entities call group.join / leave / poll, rebalance_delay 0.5 s.  After EVERY completed rebalance
(0.01 s after each rebalance instant) and once the group is quiet: every partition is owned by exactly one CURRENT member,
a member that left owns nothing, every member has an assignment entry, the generation never goes back; finally the members
together poll every appended record exactly once, each member in offset order per partition.
Cases: first `join a`, then every sequence of 3 operations from {join a, leave a, join b, leave b} with gaps inside (0.2 s)
or outside (1.0 s) the rebalance delay (this contains Leave followed by Join of the same member within the delay), plus three
3-member schedules; Range / RoundRobin / Sticky; 1 and 4 partitions.
Usage: PYTHONPATH=<tree> python triage/c19_group_membership.py [--json]
"""
import sys, json, logging, itertools
logging.disable(logging.CRITICAL)
from happysimulator import Simulation, Instant, Event, Entity
from happysimulator.components.streaming.consumer_group import ConsumerGroup, RangeAssignment, RoundRobinAssignment, StickyAssignment
from happysimulator.components.streaming.event_log import EventLog

DELAY = 0.5

class Member(Entity):
    def __init__(self, name, group):
        super().__init__(name); self.group = group; self.polled = []
    def handle_event(self, e):
        if e.event_type == "join":
            yield from self.group.join(self.name, self)
        elif e.event_type == "leave":
            yield from self.group.leave(self.name)
        elif e.event_type == "poll":
            recs = yield from self.group.poll(self.name, max_records=1000)
            self.polled.extend(recs)

class Producer(Entity):
    def __init__(self, log):
        super().__init__("producer"); self.log = log; self.appended = []
    def handle_event(self, e):
        for i in range(8):
            rec = yield from self.log.append(f"k{i}", i)
            self.appended.append(rec)

class Checker(Entity):
    def __init__(self, group, n, out):
        super().__init__("checker"); self.group = group; self.n = n; self.out = out; self.gen = 0; self.done = 0
    def handle_event(self, e):
        g = self.group
        t = round(self.now.to_seconds(), 3)
        members, assign = list(g.consumers), g.assignments
        if g.generation < self.gen:
            self.out.append(f"t={t}: generation went back {self.gen} -> {g.generation}")
        self.gen = g.generation
        owners = {p: [c for c, ps in assign.items() for q in ps if q == p] for p in range(self.n)}
        for c, ps in assign.items():
            if c not in members and ps:
                self.out.append(f"t={t}: {c} is not a member but owns {ps}")
            for q in ps:
                if not 0 <= q < self.n:
                    self.out.append(f"t={t}: {c} owns the foreign partition {q}")
        if members:
            for p, who in owners.items():
                if len(who) != 1:
                    self.out.append(f"t={t}: partition {p} owned by {who or 'NOBODY'} (members {members})")
            for c in members:
                if c not in assign:
                    self.out.append(f"t={t}: member {c} has no assignment entry")

def run(strategy, n, ops, gaps):
    out = []
    log = EventLog("log", num_partitions=n)
    group = ConsumerGroup("g", event_log=log, assignment_strategy=strategy(), rebalance_delay=DELAY)
    ms = {x: Member(x, group) for x in "abc"}
    prod, chk = Producer(log), Checker(group, n, out)
    sim = Simulation(entities=[log, group, prod, chk] + list(ms.values()), end_time=Instant.from_seconds(60))
    def at(t, kind, target):
        sim.schedule(Event(time=Instant.from_seconds(t), event_type=kind, target=target))
    t = 0.1
    for k, (op, who) in enumerate(ops):
        at(t, op, ms[who]); at(t + DELAY + 0.01, "after_rebalance", chk)
        if k < len(gaps):
            t += gaps[k]
    quiet = t + DELAY + 1.0
    at(quiet, "produce", prod); at(quiet + 1.0, "quiet", chk)
    for m in ms.values():
        at(quiet + 2.0, "poll", m)
    sim.run()
    if group.consumers:
        want = sorted((r.partition, r.offset) for r in prod.appended)
        got = sorted((r.partition, r.offset) for m in ms.values() for r in m.polled)
        if got != want:
            out.append(f"records polled by the group {got} != records appended {want}")
        for m in ms.values():                      # offset order per partition
            per = {}
            for r in m.polled:
                if per.get(r.partition, -1) >= r.offset:
                    out.append(f"{m.name} read partition {r.partition} out of offset order")
                per[r.partition] = r.offset
    return out

evals, viol = 0, []
OPS = [("join", "a"), ("leave", "a"), ("join", "b"), ("leave", "b")]
cases = [([("join", "a")] + list(seq), [1.0] + list(g))
         for seq in itertools.product(OPS, repeat=3) for g in itertools.product((0.2, 1.0), repeat=2)]
cases += [([("join", "a"), ("join", "b"), ("join", "c"), ("leave", "b"), ("join", "b"), ("leave", "c"), ("leave", "a")], g)
          for g in ([0.2] * 6, [1.0, 1.0, 1.0, 0.2, 0.2, 0.2], [0.2, 0.2, 1.0, 0.2, 1.0, 0.2])]
for strategy in (RangeAssignment, RoundRobinAssignment, StickyAssignment):
    for n in (1, 4):
        for ops, gaps in cases:
            evals += 1
            bad = run(strategy, n, ops, gaps)
            if bad:
                viol.append({"case": f"{strategy.__name__} partitions={n} ops={ops} gaps={gaps}", "problems": bad[:3]})
print(json.dumps({"evaluations": evals, "violations": viol[:3]}))

from happysimulator.components.crdt.or_set import ORSet
a=ORSet('a'); b=ORSet('b')
a.add('x'); b.merge(a)            # b observed the add
a.remove('x')                      # a removes x (observed tag)
a.merge(b)                         # state merge with b (which still has the old tag)
print('after remove+merge, x in a:', a.contains('x'), '| a==b value:', a.elements==b.elements)
# spec: the only add of x was observed by the remove -> x must be absent everywhere after exchange
b.merge(a); print('x in b:', b.contains('x'))
# round trip with non-str element
c=ORSet('c'); c.add(7); d=ORSet.from_dict(c.to_dict()); print('roundtrip elements', c.elements, d.elements)
from happysimulator.components.crdt.lww_register import LWWRegister
from happysimulator.core.logical_clocks import HLCTimestamp

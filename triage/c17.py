from happysimulator import Simulation, Event, Instant, Entity
from happysimulator.components.replication.primary_backup import BackupNode
from happysimulator.components.datastore.kv_store import KVStore
from happysimulator.components.network.network import Network
from happysimulator.components.network.link import NetworkLink
from happysimulator.distributions.constant import ConstantLatency
class Dummy(Entity):
    def handle_event(self, e): return None
prim=Dummy('primary'); net=Network(name='net', default_link=NetworkLink(name='dl', latency=ConstantLatency(0.001)))
kv=KVStore('bkv'); b=BackupNode('b1', store=kv, network=net, primary=prim)
sim=Simulation(entities=[prim,net,kv,b], end_time=Instant.from_seconds(2))
# replication messages for the same key overtaking each other: seq 2 arrives before seq 1
sim.schedule(Event(time=Instant.from_seconds(0.10), event_type='Replicate', target=b, context={'metadata':{'key':'k','value':'v2','seq':2}}))
sim.schedule(Event(time=Instant.from_seconds(0.20), event_type='Replicate', target=b, context={'metadata':{'key':'k','value':'v1','seq':1}}))
sim.run(); print('backup k =', kv.get_sync('k'), 'last_applied_seq', b.last_applied_seq, '(primary holds v2)')

import random, inspect
from happysimulator.components.datastore import eviction_policies as EP
from happysimulator.components.datastore.cached_store import CachedStore
from happysimulator.components.datastore.kv_store import KVStore
def drain(g):
    try:
        while True: next(g)
    except StopIteration as e: return e.value
def tracked(p):
    # best-effort view of the policy's tracked key set
    for attr in ('_order','_counts','_insert_times','_queue','_keys','_access_times','_ref_bits'):
        if hasattr(p,attr):
            v=getattr(p,attr); return set(v.keys()) if hasattr(v,'keys') else set(v)
    if hasattr(p,'_probationary'): return set(p._probationary)|set(p._protected)
    if hasattr(p,'_a1in'): return set(p._a1in)|set(p._am)
    return None
pols={'LRU':lambda r:EP.LRUEviction(),'LFU':lambda r:EP.LFUEviction(),'FIFO':lambda r:EP.FIFOEviction(),'Random':lambda r:EP.RandomEviction(seed=r.randrange(99)),
      'SLRU':lambda r:EP.SLRUEviction(),'Sampled':lambda r:EP.SampledLRUEviction(seed=r.randrange(99)),'Clock':lambda r:EP.ClockEviction(),'TwoQ':lambda r:EP.TwoQueueEviction(),
      'TTL':lambda r:EP.TTLEviction(ttl=5.0, clock_func=lambda: 0.0)}
for name,mk in pols.items():
    bad=None
    for seed in range(600):
        rng=random.Random(seed); kv=KVStore('kv'); cap=rng.choice([1,2,3])
        cs=CachedStore('cs', backing_store=kv, cache_capacity=cap, eviction_policy=mk(rng), write_through=rng.random()<0.5)
        model={}
        for i in range(rng.randint(5,60)):
            k=f'k{rng.randrange(5)}'; op=rng.random()
            if op<0.4: drain(cs.put(k,i)); model[k]=i
            elif op<0.6: v=drain(cs.get(k)); 
            elif op<0.7: drain(cs.delete(k)); model.pop(k,None)
            elif op<0.8: cs.invalidate(k)
            elif op<0.85: drain(cs.flush())
            else:
                v=drain(cs.get(k))
            if cs.cache_size>cap: bad=(seed,'size',cs.cache_size,cap); break
            tr=tracked(cs._eviction_policy)
            if tr is not None and tr!=set(cs.get_cached_keys()): bad=(seed,'tracked!=keys',sorted(tr),sorted(cs.get_cached_keys())); break
            if not set(cs.get_dirty_keys())<=set(cs.get_cached_keys()): bad=(seed,'dirty not subset'); break
        if bad: break
        if not cs._write_through:
            drain(cs.flush())
        # sequential read-your-writes through the cache
        for k in model:
            v=drain(cs.get(k))
            if v!=model[k] and cs._write_through: bad=(seed,'lost write',k,v,model[k], 'wt' if cs._write_through else 'wb'); break
        if bad: break
    print(name, 'OK' if not bad else bad)

"""C14: LSM tree with max_levels=1 - a compaction that merges level 0 into level 0 is suspended for its write latency;
a flush that completes meanwhile appends a NEWER run to level 0; the compaction then removes its inputs and appends
the (older) merged run, which from then on shadows the newer run: get returns a stale value for ever.
Run: /venv/bin/python /verif/triage/c14_single_level_compaction.py [repo-root]"""
import sys
sys.path.insert(0, sys.argv[1] if len(sys.argv) > 1 else "/repo")
from happysimulator import Simulation, Event, Instant, Entity
from happysimulator.components.storage.lsm_tree import LSMTree, SizeTieredCompaction

tree = LSMTree("t", memtable_size=1, compaction_strategy=SizeTieredCompaction(min_sstables=2), max_levels=1,
               sstable_write_latency=0.05)
out = []


class Proc(Entity):
    def __init__(self, name, script):
        super().__init__(name)
        self.script = script

    def handle_event(self, e):
        for at, kind, k, v in self.script:
            wait = at - self.now.to_seconds()
            if wait > 0:
                yield wait
            if kind == "put":
                yield from tree.put(k, v)
                out.append(f"{self.now.to_seconds():.3f} {self.name} put({k},{v}) done; L0={tree._levels[0]}")
            else:
                r = yield from tree.get(k)
                out.append(f"{self.now.to_seconds():.3f} {self.name} get({k}) -> {r!r}")


p0 = Proc("p0", [(0.0, "put", "k", "old"), (0.055, "put", "k", "new"), (1.0, "get", "k", None)])
p1 = Proc("p1", [(0.01, "put", "j", "x")])           # its flush makes the 2nd run -> compaction [k:old],[j:x] suspended 0.06..0.11
sim = Simulation(entities=[p0, p1, tree], end_time=Instant.from_seconds(10))
for p in (p0, p1):
    sim.schedule(Event(time=Instant.from_seconds(0), event_type="go", target=p))
sim.run()
print("\n".join(out))
r = tree.get_sync("k")
print("final get_sync('k') =", repr(r), "(latest completed write: 'new')", "STALE" if r != "new" else "ok")

import ast, pathlib
root=pathlib.Path('/repo/happysimulator')
def is_now(e):
    s=ast.unparse(e); return ('.now' in s and 'to_seconds' not in s) or s.endswith('.time')
hits=[]
for f in root.rglob('*.py'):
    try: tree=ast.parse(f.read_text())
    except Exception as ex: continue
    for fn in ast.walk(tree):
        if not isinstance(fn,(ast.FunctionDef,)): continue
        body_nodes=[n for n in ast.walk(fn)]
        yields=[n.lineno for n in body_nodes if isinstance(n,(ast.Yield,ast.YieldFrom))]
        if not yields: continue
        assigns={}
        for n in body_nodes:
            if isinstance(n,ast.Assign) and len(n.targets)==1 and isinstance(n.targets[0],ast.Name) and is_now(n.value):
                assigns.setdefault(n.targets[0].id,[]).append(n.lineno)
        for n in body_nodes:
            if isinstance(n,ast.Call):
                for kw in n.keywords:
                    if kw.arg=='time' and isinstance(kw.value,ast.Name) and kw.value.id in assigns:
                        a=max([l for l in assigns[kw.value.id] if l<=n.lineno], default=None)
                        if a and any(a<y<n.lineno for y in yields):
                            hits.append((str(f.relative_to(root)),fn.name,kw.value.id,a,[y for y in yields if a<y<n.lineno][:2],n.lineno))
for h in hits: print(h)
print(len(hits))

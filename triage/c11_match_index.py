# C11 / L5-L6: the follower reports match_index = its last index although entries beyond the range the leader
# sent were never compared.  5 nodes, hand-chosen delivery order through the public API (see c11_stale_ack.py
# for the harness).  Outcome on the unrepaired tree: leader C (term 2) commits index 2 ('y2') although only
# C and D store it; B holds a stale (index 2, term 1) entry there, and B then wins term 3 without 'y2'.
from happysimulator.core.clock import Clock
from happysimulator.core.event import Event
from happysimulator.core.temporal import Instant
from happysimulator.components.consensus.raft import RaftNode, RaftState
from happysimulator.components.network.network import Network
from happysimulator.core import sim_future


class RecSM:
    def __init__(self):
        self.applied = []

    def apply(self, cmd):
        self.applied.append(cmd)
        return len(self.applied)


clock = Clock(Instant.from_seconds(0))
net = Network(name="net")
net.set_clock(clock)
names = "ABCDE"
nodes = {n: RaftNode(n, net, state_machine=RecSM()) for n in names}
for n in nodes.values():
    n.set_clock(clock)
    n.set_peers(list(nodes.values()))
A, B, C, D, E = (nodes[n] for n in names)


def msgs(out):
    return [e for e in (out or []) if e.target is net]


def deliver(m):
    """what NetworkLink.handle_event does at the end of the delay"""
    md = m.context["metadata"]
    dst = nodes[md["destination"]]
    ev = Event(time=clock.now, event_type=m.event_type, target=dst, daemon=m.daemon, context=m.context.copy())
    return msgs(dst.handle_event(ev))


def to(ms, dest):
    return [m for m in ms if m.context["metadata"]["destination"] == dest][0]


def timeout(n):
    return msgs(n.handle_event(Event(time=clock.now, event_type="RaftElectionTimeout", target=n)))


def heartbeat(n):
    return msgs(n.handle_event(Event(time=clock.now, event_type="RaftHeartbeat", target=n)))


def elect(cand, voters):
    rv = timeout(cand)
    out = []
    for v in voters:
        for resp in deliver(to(rv, v.name)):
            out += deliver(resp)
    assert cand.state == RaftState.LEADER, (cand, cand.state)
    return out          # the first AppendEntries round of the new leader (not delivered)


# term 1: A leads (votes of B, C), stores x1, x2; B receives both, C and D only x1 (B's/C's/D's replies are lost)
elect(A, [B, C])
A.submit("x1")
hb = heartbeat(A)
deliver(to(hb, "C")); deliver(to(hb, "D"))
A.submit("x2")
deliver(to(heartbeat(A), "B"))
assert [len(n.log._entries) for n in (A, B, C, D, E)] == [2, 2, 1, 1, 0]
# term 2: C leads with the votes of D and E; its first AppendEntries to B (prev = 1, no entries) is acknowledged
first = elect(C, [D, E])
for ack in deliver(to(first, "B")):
    print("B acknowledges with match_index =", ack.context["metadata"]["match_index"], "(verified prefix: 1)")
    deliver(ack)
C.submit("y2")
for ack in deliver(to(heartbeat(C), "D")):
    deliver(ack)
holders = [n.name for n in nodes.values() if len(n.log._entries) >= 2 and n.log._entries[1].command == "y2"]
print("C.commit_index =", C.log.commit_index, " match_index =", dict(C._match_index), " 'y2' stored on", holders)
# term 3: B wins with the votes of A and E; its log has x2 at index 2, not the committed y2
elect(B, [A, E])
print("leader of term", B.current_term, "is B with log", [e.command for e in B.log._entries])
bad = C.log.commit_index >= 2 and len(holders) < 3
print("VIOLATION: committed without a majority and lost by the next leader" if bad else "ok: not committed")
raise SystemExit(1 if bad else 0)

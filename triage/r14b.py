# randomized concurrent workload on LSM generator API inside a real Simulation; interval-annotated dict oracle
import random, sys, logging
from happysimulator import Simulation, Event, Instant, Entity
from happysimulator.components.storage.lsm_tree import LSMTree, SizeTieredCompaction, LeveledCompaction
from happysimulator.components.storage import lsm_tree as L
def trial(seed):
    rng=random.Random(seed)
    strat=rng.choice([SizeTieredCompaction(min_sstables=2), LeveledCompaction(level_0_max=2,size_ratio=2,base_size_keys=2)])
    t=LSMTree('t', memtable_size=rng.choice([1,2,3]), compaction_strategy=strat, max_levels=3,
              sstable_read_latency=rng.choice([0.001,0.01]), sstable_write_latency=rng.choice([0.01,0.05,0.2]))
    ops=[]   # (kind,key,val,t0,t1,result)
    class Proc(Entity):
        def __init__(s,n,script): super().__init__(n); s.script=script
        def handle_event(s,e):
            for kind,k,v,gap in s.script:
                yield gap
                t0=s.now.nanoseconds
                if kind=='put': yield from t.put(k,v); r=None
                elif kind=='del': yield from t.delete(k); r=None
                else: r = yield from t.get(k)
                ops.append((kind,k,v,t0,s.now.nanoseconds,r))
    procs=[]
    for p in range(rng.choice([2,3])):
        script=[]
        for i in range(rng.randint(3,10)):
            kind=rng.choices(['put','del','get'],[5,1,4])[0]
            script.append((kind, f'k{rng.randrange(3)}', f'p{p}v{i}', rng.choice([0.0,0.001,0.01,0.05,0.3])))
        procs.append(Proc(f'p{p}',script))
    sim=Simulation(entities=procs+[t], end_time=Instant.from_seconds(100))
    for p in procs: sim.schedule(Event(time=Instant.from_seconds(rng.choice([0,0.001,0.02])), event_type='go', target=p))
    sim.run()
    writes=[o for o in ops if o[0]!='get']
    for kind,k,v,t0,t1,r in ops:
        if kind!='get': continue
        ws=[w for w in writes if w[1]==k]
        before=[w for w in ws if w[4]<=t0]      # completed before the read began
        conc=[w for w in ws if not (w[4]<=t0) and w[3]<=t1]
        allowed=set()
        if before:
            last_t=max(w[4] for w in before)
            # any write completing at the latest completion instant, plus writes overlapping with it
            for w in before:
                if w[4]==last_t or any(w[4]>x[3] and w is not x for x in before if x[4]==last_t): allowed.add(None if w[0]=='del' else w[2])
        else: allowed.add(None)
        for w in conc: allowed.add(None if w[0]=='del' else w[2])
        if r not in allowed: return (seed,k,r,sorted(map(str,allowed)),t0,t1)
    return None
bad=[]
for seed in range(int(sys.argv[1])):
    r=trial(seed)
    if r: bad.append(r)
print('violations', len(bad), bad[:4])

"""C08 bounded stand-in `queued-resource-pipeline`: QueuedResource pipelines (queue + driver + worker adapter + resource)
run through the public API.

  A. wiring established by QueuedResource.__init__ / set_clock (the class invariant the deductive part assumes):
     queue.egress is the driver, driver.queue is the queue, driver.target is the worker adapter, the adapter's resource
     is the resource, and all four share the clock.
  B. a c-worker resource, constant service time, requests at pairwise distinct instants (bursts at one instant are the
     open finding of `burst-work-conservation`), FIFO queue of capacity K: at the end every offered request is exactly
     one of dropped-and-counted, waiting, in service, completed once; handle_queued_event ran exactly once per request
     that left the queue; never more than c in service; start times equal those of the reference c-server FIFO queue
     (= no simulated time passes while a request waits beside a free worker).
  C. ShiftedServer (checked once the repairs fixes/C08_shifted-server-*.diff are in the tree, see the source tests):
     requests that queued up off shift start when the shift starts; a first request that arrives inside a shift is
     served in that shift; a shift boundary that is not a whole number of nanoseconds does not stall the clock.

usage: c08_pipeline.py [quick|thorough] [--json]     exit 0 = no violation
"""
import heapq
import inspect
import random
import sys
import warnings

warnings.simplefilter("ignore")


def run(tier="quick"):
    from happysimulator import Event, Instant, Simulation, Sink
    from happysimulator.components.industrial import Shift, ShiftSchedule, ShiftedServer
    from happysimulator.components.industrial import shift_schedule as shift_mod
    from happysimulator.components.queue_policy import FIFOQueue
    from happysimulator.components.queued_resource import QueuedResource
    bad, n_eval = [], [0]

    def check(cond, case, **info):
        n_eval[0] += 1
        if not cond and len(bad) < 12 and not any(b["case"] == case for b in bad):
            bad.append({"case": case, **{k: str(v)[:200] for k, v in info.items()}})

    class Worker(QueuedResource):
        def __init__(self, name, c, service_s, policy):
            super().__init__(name, policy=policy)
            self.c, self.service_s = c, service_s
            self.active, self.peak = 0, 0
            self.starts, self.done, self.calls = {}, {}, {}
            self.offered = 0

        def handle_event(self, event):
            self.offered += 1
            return super().handle_event(event)

        def has_capacity(self):
            return self.active < self.c

        def handle_queued_event(self, event):
            tag = event.context["tag"]
            self.calls[tag] = self.calls.get(tag, 0) + 1
            self.active += 1
            self.peak = max(self.peak, self.active)
            self.starts[tag] = self.now.nanoseconds
            yield self.service_s
            self.active -= 1
            self.done[tag] = self.done.get(tag, 0) + 1
            return None

    # ------------------------------------------------------------------ A. wiring
    w = Worker("w", 1, 1.0, None)
    sim = Simulation(entities=[w], end_time=Instant.from_seconds(1))
    check(w.queue.egress is w.driver and w.driver.queue is w.queue and w.driver.target is w.worker
          and w.worker._resource is w, "wiring/queue-driver-worker-resource")
    check(isinstance(w.queue.policy, FIFOQueue) and len(w.queue.policy) == 0, "wiring/default-policy-is-empty-fifo")
    check(w._clock is not None and w.queue._clock is w._clock and w.driver._clock is w._clock and w.worker._clock is w._clock,
          "wiring/one-clock")
    check(w.worker.has_capacity() is True and w.depth == 0 and w.stats_accepted == 0 and w.stats_dropped == 0, "wiring/initial-state")
    # ------------------------------------------------------------------ B. conservation and work conservation
    seeds = range(25) if tier == "quick" else range(300)
    for seed in seeds:
        rng = random.Random(seed)
        c = rng.choice([1, 2, 3])
        cap = rng.choice([None, 1, 2, 4])
        service_ms = rng.choice([500, 1000, 2500])
        n = rng.choice([3, 6, 12])
        times, t = [], 0
        for _ in range(n):
            t += rng.choice([1, 200, 700, 1300])          # ms, pairwise distinct, off the completion grid (odd offsets)
            times.append(t * 1_000_003)                   # ns
        # either everything completes, or the run is cut while requests wait / are in service
        full = seed % 2 == 0
        end_ns = 10 ** 13 if full else times[rng.randrange(n)] + rng.choice([0, 1, service_ms * 1_000_000 * 2])
        w = Worker("w", c, service_ms / 1000.0, FIFOQueue(capacity=cap) if cap is not None else None)
        sim = Simulation(entities=[w], end_time=Instant(end_ns))
        for i, tn in enumerate(times):
            sim.schedule(Event(time=Instant(tn), event_type="job", target=w, context={"tag": i}))
        tag = f"seed={seed} c={c} cap={cap} service_ms={service_ms} n={n}"
        try:
            sim.run()
        except Exception as e:      # noqa: BLE001 - a pipeline that raises has lost the request it was handling
            check(False, "pipeline/run-raised", at=tag, error=f"{type(e).__name__}: {e}")
            continue
        # reference c-server FIFO queue with a waiting room of `cap`
        free = [0] * c                      # instants at which each worker becomes free
        heapq.heapify(free)
        ref_start, waiting_until, dropped = {}, [], set()
        for i, tn in enumerate(times):
            # requests whose start is <= tn have left the waiting room
            waiting_until = [s for s in waiting_until if s > tn]
            f = heapq.heappop(free)
            start = max(f, tn)
            if start > tn and cap is not None and len(waiting_until) >= cap:
                heapq.heappush(free, f)
                dropped.add(i)
                continue
            if start > tn:
                waiting_until.append(start)
            ref_start[i] = start
            heapq.heappush(free, start + service_ms * 1_000_000)
        offered = w.offered
        check(offered == n if full else offered <= n, "pipeline/offered", at=tag, offered=offered)
        in_service = sum(1 for i in w.starts if not w.done.get(i))
        completed = sum(1 for i in w.done)
        check(w.stats_accepted + w.stats_dropped == offered, "pipeline/offered-accepted-or-dropped-and-counted", at=tag,
              accepted=w.stats_accepted, dropped=w.stats_dropped, offered=offered)
        check(w.stats_dropped + w.depth + in_service + completed == offered, "pipeline/each-request-in-exactly-one-state", at=tag,
              dropped=w.stats_dropped, waiting=w.depth, in_service=in_service, completed=completed, offered=offered)
        check(all(v == 1 for v in w.calls.values()) and all(v == 1 for v in w.done.values()),
              "pipeline/handled-and-completed-exactly-once", at=tag)
        check(w.peak <= c and in_service == w.active, "pipeline/in-service-within-concurrency", at=tag, peak=w.peak)
        if full:
            check(w.starts == ref_start, "pipeline/no-time-passes-while-a-request-waits-beside-a-free-worker", at=tag,
                  got=sorted(w.starts.items()), want=sorted(ref_start.items()))
            check(w.stats_dropped == len(dropped) and completed == n - len(dropped) and w.depth == 0,
                  "pipeline/dropped-only-when-waiting-room-full", at=tag, got=w.stats_dropped, want=sorted(dropped))
        else:
            check(all(w.starts[i] == ref_start.get(i) for i in w.starts), "pipeline/started-requests-started-on-time", at=tag)
    # ------------------------------------------------------------------ C. ShiftedServer
    wake_fixed = "QueueNotifyEvent" in inspect.getsource(shift_mod.ShiftedServer._handle_shift_change)
    init_fixed = "capacity_at" in inspect.getsource(shift_mod.ShiftedServer.handle_event)
    boundary_fixed = "to_seconds() < next_t" in inspect.getsource(shift_mod.ShiftedServer._schedule_next_shift)

    def shifted(shifts, arrivals, service_s=1.0, end_s=60.0, default=0):
        done = {}

        class S(ShiftedServer):
            n_changes = 0

            def _handle_shift_change(self):
                S.n_changes += 1
                if S.n_changes > 500:
                    raise RuntimeError("stalled")
                return super()._handle_shift_change()

            def handle_queued_event(self, e):
                r = yield from super().handle_queued_event(e)
                done[e.context["tag"]] = self.now.to_seconds()
                return r
        sink = Sink("sink")
        srv = S("s", ShiftSchedule([Shift(*s) for s in shifts], default_capacity=default), service_time=service_s, downstream=sink)
        sim = Simulation(entities=[srv, sink], end_time=Instant.from_seconds(end_s))
        for i, t in enumerate(arrivals):
            sim.schedule(Event(time=Instant.from_seconds(t), event_type="job", target=srv, context={"tag": i}))
        try:
            sim.run()
        except Exception as e:      # noqa: BLE001 - stall guard above, or a pipeline that raises
            return None, srv, f"{type(e).__name__}: {e}"
        return done, srv, None

    if wake_fixed:
        for k in (1, 2, 4):
            done, srv, err = shifted([(10.0, 40.0, 1)], [1.0 + 0.5 * i for i in range(k)])
            check(err is None and done == {i: 11.0 + i for i in range(k)}, "shifted/waiting-work-starts-when-the-shift-starts",
                  k=k, done=done, err=err)
        done, srv, err = shifted([(0.0, 5.0, 1), (5.0, 10.0, 0), (10.0, 30.0, 1)], [4.5, 6.0, 7.0])
        check(err is None and done == {0: 5.5, 1: 11.0, 2: 12.0}, "shifted/work-queued-during-a-zero-capacity-shift", done=done, err=err)
    if init_fixed:
        done, srv, err = shifted([(10.0, 40.0, 1)], [15.0, 15.5])
        check(err is None and done == {0: 16.0, 1: 17.0}, "shifted/first-request-inside-a-shift-is-served-in-it", done=done, err=err)
    if boundary_fixed and wake_fixed:
        done, srv, err = shifted([(0.1 + 0.2, 5.0, 1)], [0.1, 8.0], end_s=20.0)
        check(err is None and set(done) == {0}, "shifted/fractional-ns-boundary-does-not-stall-the-clock", done=done, err=err)
    # capacity never exceeded and every request in one state, with the shift pattern as on the pinned tree
    done, srv, err = shifted([(0.0, 10.0, 1), (10.0, 20.0, 2)], [0.5 + 0.7 * i for i in range(20)], service_s=0.9, end_s=40.0)
    check(err is None and len(done) == srv.processed and srv.processed + srv.depth + srv._active == 20 - srv.stats_dropped,
          "shifted/each-request-in-exactly-one-state", processed=srv.processed, depth=srv.depth, err=err)
    return {"evaluations": n_eval[0], "violations": bad}


if __name__ == "__main__":
    args = [a for a in sys.argv[1:] if a != "--json"]
    res = run(args[0] if args else "quick")
    if "--json" in sys.argv:
        import json
        print(json.dumps(res))
    else:
        print(res["evaluations"], "evaluations")
        for v in res["violations"]:
            print("VIOLATION", v)
    sys.exit(1 if res["violations"] else 0)

from happysimulator import Simulation, Event, Instant, Entity
from happysimulator.components.storage.lsm_tree import LSMTree
from happysimulator.components.storage.wal import WriteAheadLog, SyncEveryWrite
wal=WriteAheadLog('wal', sync_policy=SyncEveryWrite(), write_latency=0.0001, sync_latency=0.001)
lsm=LSMTree('lsm', memtable_size=2, sstable_write_latency=0.5, wal=wal)
acked=[]
class Wr(Entity):
    def __init__(s,n,kvs): super().__init__(n); s.kvs=kvs
    def handle_event(self, e):
        for k,v in self.kvs:
            yield from lsm.put(k,v)
            acked.append((k,v,round(self.now.to_seconds(),4), wal.synced_up_to))
w1=Wr('w1',[('k1','v1'),('k2','v2')]); w2=Wr('w2',[('k3','v3')])
sim=Simulation(entities=[w1,w2,lsm,wal], end_time=Instant.from_seconds(0.6))   # crash point: t=0.6 (after flush completed at ~0.5)
sim.schedule(Event(time=Instant.from_seconds(0), event_type='go', target=w1))
sim.schedule(Event(time=Instant.from_seconds(0.2), event_type='go', target=w2))    # k3 written during the flush
sim.run()
print('acked', acked, 'synced_up_to', wal.synced_up_to, 'wal size', wal.size)
lsm.crash(); lsm.recover_from_crash()
print({k: lsm.get_sync(k) for k in ('k1','k2','k3')})

"""C08 bounded stand-in `industrial-buffers`: the industrial variants that buffer or queue work, run through the public API
on seeded random arrival patterns (arrival instants on a 0.1 s grid, several at one instant allowed).

  BatchProcessor   every item forwarded exactly once or still buffered; with a timeout nothing is stranded: every item is
                   forwarded no later than arrival + timeout_s + process_time (the timeout flushes the partial batch - also
                   when it fires while another batch is in service); no batch exceeds batch_size (batch_size == 1 with a
                   timeout only once fixes/C08_batch-processor-full-batch-first.diff is in the tree).
  ConveyorBelt     transported + rejected + in transit == offered; each transported item arrives exactly transit_time after
                   it was offered; never more than `capacity` in transit.
  GateController   passed + rejected + waiting == offered; nothing waits behind an open gate; items pass in arrival order.
  PooledCycle      completed + rejected + waiting + active == offered; never more than pool_size active; (once
                   fixes/C08_pooled-cycle-handoff-reserves-unit.diff is in the tree) completions in arrival order and no item
                   that was accepted into the queue is rejected later.
  Reneging         single worker, FIFO: an item is reneged-and-counted iff it waited longer than its patience, a reneged
                   item is never served, everything else is served exactly once, in order.

usage: c08_industrial.py [quick|thorough] [--json]     exit 0 = no violation
"""
import inspect
import random
import sys
import warnings

warnings.simplefilter("ignore")
EPS = 1e-6


def run(tier="quick"):
    from happysimulator import Event, Instant, Simulation
    from happysimulator.core.entity import Entity
    from happysimulator.components.industrial import batch_processor as bp_mod, pooled_cycle as pc_mod
    from happysimulator.components.industrial.batch_processor import BatchProcessor
    from happysimulator.components.industrial.conveyor import ConveyorBelt
    from happysimulator.components.industrial.gate_controller import GateController
    from happysimulator.components.industrial.pooled_cycle import PooledCycleResource
    from happysimulator.components.industrial.reneging import RenegingQueuedResource
    bad, n_eval = [], [0]
    runs = 150 if tier == "quick" else 2000
    src = inspect.getsource(bp_mod.BatchProcessor.handle_event)
    bp_full_first = src.find("self.batch_size") < src.find("self.timeout_s")
    pc_handoff = "_handoffs" in inspect.getsource(pc_mod.PooledCycleResource)

    def check(cond, case, **info):
        n_eval[0] += 1
        if not cond and len(bad) < 12 and not any(b["case"] == case for b in bad):
            bad.append({"case": case, **{k: str(v)[:200] for k, v in info.items()}})

    class Sink(Entity):
        def __init__(self, name="sink"):
            super().__init__(name)
            self.got = []           # (time_s, item number)

        def handle_event(self, event):
            self.got.append((round(self.now.to_seconds(), 6), event.context.get("n")))
            return []

    class Relay(Entity):
        """hands an item on `delay` later: the forwarded event is created during the run (a late sort index), which is
        what lets it be delivered between a completion and the hand-over event that completion emits"""

        def __init__(self, target, delay):
            super().__init__("relay")
            self.target, self.delay = target, delay

        def handle_event(self, event):
            return [Event(time=self.now + self.delay, event_type=event.event_type, target=self.target, context=event.context)]

    def arrivals(rng, n, horizon):
        return sorted(round(rng.randrange(0, int(horizon * 10)) / 10.0, 1) for _ in range(n))

    def simulate(entities, sends, end_s=200.0):
        sim = Simulation(entities=entities, end_time=Instant.from_seconds(end_s))
        for t, target, ctx, ty in sends:
            sim.schedule(Event(time=Instant.from_seconds(t), event_type=ty, target=target, context=ctx))
        sim.run()

    # ------------------------------------------------------------------ BatchProcessor
    class RecordingBatch(BatchProcessor):
        def _process_batch(self):
            self.batch_sizes.append(len(self._buffer))
            return super()._process_batch()

    for seed in range(runs):
        rng = random.Random(1000 + seed)
        size = rng.choice([1, 2, 3, 5])
        timeout = rng.choice([0.0, 0.7, 2.0])
        ptime = rng.choice([0.0, 0.5, 1.5, 3.0])
        times = arrivals(rng, rng.randint(1, 12), 6.0)
        sink = Sink()
        bp = RecordingBatch("bp", downstream=sink, batch_size=size, process_time=ptime, timeout_s=timeout)
        bp.batch_sizes = []
        simulate([bp, sink], [(t, bp, {"n": i}, "item") for i, t in enumerate(times)])
        cfg = dict(seed=seed, size=size, timeout=timeout, ptime=ptime, times=times)
        ids = [n for _, n in sink.got]
        check(len(ids) == len(set(ids)) and len(ids) + bp.buffer_depth == len(times) and bp.items_processed == len(ids),
              "batch/each-item-forwarded-once-or-still-buffered", got=sink.got, depth=bp.buffer_depth, **cfg)
        if bp_full_first or not (size == 1 and timeout > 0):
            check(all(1 <= b <= size for b in bp.batch_sizes), "batch/no-batch-exceeds-batch-size", batches=bp.batch_sizes, **cfg)
        if timeout > 0:
            done = dict((n, t) for t, n in sink.got)
            late = [(i, times[i], done.get(i)) for i in range(len(times))
                    if i not in done or done[i] > times[i] + timeout + ptime + EPS]
            check(bp.buffer_depth == 0 and not late, "batch/partial-batch-flushed-by-the-timeout-nothing-stranded",
                  late=late, depth=bp.buffer_depth, **cfg)

    # ------------------------------------------------------------------ ConveyorBelt
    for seed in range(runs):
        rng = random.Random(2000 + seed)
        cap = rng.choice([0, 1, 2, 3])
        transit = rng.choice([0.0, 0.5, 1.3])
        times = arrivals(rng, rng.randint(1, 12), 4.0)
        sink = Sink()
        belt = ConveyorBelt("belt", downstream=sink, transit_time=transit, capacity=cap)
        simulate([belt, sink], [(t, belt, {"n": i}, "item") for i, t in enumerate(times)])
        cfg = dict(seed=seed, cap=cap, transit=transit, times=times)
        ids = [n for _, n in sink.got]
        check(len(ids) == len(set(ids)) and belt.items_transported == len(ids)
              and belt.items_transported + belt.items_rejected + belt.items_in_transit == len(times),
              "belt/transported-once-or-rejected-and-counted", got=sink.got, rejected=belt.items_rejected, **cfg)
        check(all(abs(t - (times[n] + transit)) < EPS for t, n in sink.got), "belt/arrives-transit-time-after-offer", got=sink.got, **cfg)
        if cap > 0 and transit > 0:
            peak = max(sum(1 for (d, n) in sink.got if times[n] <= t0 < d) for t0 in times)
            check(peak <= cap, "belt/in-transit-within-capacity", peak=peak, **cfg)

    # ------------------------------------------------------------------ GateController
    for seed in range(runs):
        rng = random.Random(3000 + seed)
        cap = rng.choice([0, 1, 3])
        cuts = sorted(set(arrivals(rng, rng.choice([2, 4, 6]), 8.0)))
        cuts = cuts[:len(cuts) // 2 * 2]
        schedule = [(cuts[i], cuts[i + 1]) for i in range(0, len(cuts), 2)]
        if seed % 3 == 0 and len(cuts) >= 3:
            # back-to-back windows (the close of one and the open of the next share an instant: the gate must end up open)
            schedule = [(cuts[i], cuts[i + 1]) for i in range(len(cuts) - 1)]
        times = arrivals(rng, rng.randint(1, 14), 8.0)
        sink = Sink()
        gate = GateController("gate", downstream=sink, schedule=schedule, initially_open=rng.choice([True, False]),
                              queue_capacity=cap)
        sim = Simulation(entities=[gate, sink], end_time=Instant.from_seconds(50))
        for ev in gate.start_events():
            sim.schedule(ev)
        for i, t in enumerate(times):
            sim.schedule(Event(time=Instant.from_seconds(t), event_type="item", target=gate, context={"n": i}))
        sim.run()
        cfg = dict(seed=seed, cap=cap, schedule=schedule, times=times)
        st = gate.stats
        ids = [n for _, n in sink.got]
        check(len(ids) == len(set(ids)) and st.passed_through == len(ids)
              and st.passed_through + st.rejected + gate.queue_depth == len(times),
              "gate/passed-once-or-rejected-and-counted-or-waiting", got=sink.got, rejected=st.rejected, depth=gate.queue_depth, **cfg)
        check(not (gate.is_open and gate.queue_depth), "gate/open-gate-holds-nothing", depth=gate.queue_depth, **cfg)
        check(ids == sorted(ids), "gate/items-pass-in-arrival-order", got=sink.got, **cfg)
        check(cap == 0 or gate.queue_depth <= cap, "gate/waiting-room-within-capacity", depth=gate.queue_depth, **cfg)
        # the gate is open exactly during its scheduled windows: an item offered strictly inside a window passes at once
        passed_at = {n: d for d, n in sink.got}
        inside = [n for n, t in enumerate(times) if any(o < t < c for o, c in schedule)]
        check(all(n in passed_at and abs(passed_at[n] - times[n]) < 1e-9 for n in inside),
              "gate/item-offered-inside-an-open-window-passes-at-once",
              late=[(n, times[n], passed_at.get(n)) for n in inside if n not in passed_at or abs(passed_at[n] - times[n]) >= 1e-9][:3], **cfg)

    # ------------------------------------------------------------------ PooledCycleResource
    for seed in range(runs):
        rng = random.Random(4000 + seed)
        pool_n = rng.choice([1, 2, 3])
        cap = rng.choice([0, 1, 2])
        cycle = rng.choice([0.5, 1.0])
        times = arrivals(rng, rng.randint(2, 12), 5.0)
        sink = Sink()
        pool = PooledCycleResource("pool", pool_size=pool_n, cycle_time=cycle, downstream=sink, queue_capacity=cap)
        relay = Relay(pool, 0.1)
        peak = [0]

        class Probe(Entity):
            def handle_event(self, event):
                peak[0] = max(peak[0], pool.active)
                return []
        probe = Probe("probe")
        sends = []
        for i, t in enumerate(times):
            # half of the items come through the relay (created in-run), so that same-instant orders vary
            if rng.random() < 0.5 and t >= 0.1:
                sends.append((round(t - 0.1, 1), relay, {"n": i}, "item"))
            else:
                sends.append((t, pool, {"n": i}, "item"))
            sends.append((t, probe, {"n": -1}, "probe"))
        simulate([pool, relay, sink, probe], sends)
        cfg = dict(seed=seed, pool=pool_n, cap=cap, cycle=cycle, times=times)
        ids = [n for _, n in sink.got]
        check(len(ids) == len(set(ids)) and pool.completed == len(ids)
              and pool.completed + pool.rejected + pool.queued + pool.active == len(times) and pool.active == 0 and pool.queued == 0,
              "pool/completed-once-or-rejected-and-counted", got=sink.got, rejected=pool.rejected, **cfg)
        check(peak[0] <= pool_n and pool.available == pool_n, "pool/never-more-active-than-units", peak=peak[0], **cfg)
        if pc_handoff:
            # FIFO: among the completed items, completion times do not decrease in arrival order
            # (ties at one instant: the delivery order there is the engine's, any of them is an arrival order)
            done = sorted(sink.got, key=lambda g: g[1])
            check(all(done[k][0] <= done[k + 1][0] + EPS or times[done[k][1]] == times[done[k + 1][1]]
                      for k in range(len(done) - 1)), "pool/served-in-arrival-order", got=sink.got, **cfg)
    if pc_handoff:
        # the scenario of triage/c08_pooled_cycle_overtake.py: a waiting item handed a freed unit keeps it
        for cap, late, want in ((0, ["C"], ["A", "B", "C"]), (1, ["C", "D"], ["A", "B", "C"])):
            sink = Sink()
            pool = PooledCycleResource("pool", pool_size=1, cycle_time=1.0, downstream=sink, queue_capacity=cap)
            relay = Relay(pool, 0.5)
            sends = [(0.0, pool, {"n": "A"}, "item"), (0.25, pool, {"n": "B"}, "item")]
            sends += [(0.5, relay, {"n": n}, "item") for n in late]
            simulate([pool, relay, sink], sends)
            check([n for _, n in sink.got] == want, "pool/handed-over-item-is-neither-overtaken-nor-rejected", got=sink.got, cap=cap)

    # ------------------------------------------------------------------ RenegingQueuedResource
    class Teller(RenegingQueuedResource):
        def __init__(self, name, service, **kw):
            super().__init__(name, **kw)
            self.service, self.busy, self.log = service, False, []

        def has_capacity(self):
            return not self.busy

        def handle_queued_event(self, event):
            self.log.append(("taken", event.context["n"], round(self.now.to_seconds(), 6)))
            return super().handle_queued_event(event)

        def _handle_served_event(self, event):
            self.busy = True
            self.log.append(("start", event.context["n"], round(self.now.to_seconds(), 6)))
            yield self.service
            self.busy = False
            self.log.append(("done", event.context["n"], round(self.now.to_seconds(), 6)))
            return []

    for seed in range(runs):
        rng = random.Random(5000 + seed)
        service = rng.choice([0.5, 1.0, 2.0])
        default_p = rng.choice([float("inf"), 0.0, 1.5])
        times = sorted(set(arrivals(rng, rng.randint(1, 10), 5.0)))      # pairwise distinct instants (bursts: known finding)
        sink = Sink("reneged")
        teller = Teller("teller", service, reneged_target=sink, default_patience_s=default_p)
        pats = [rng.choice([None, 0.3, 1.0, 2.5]) for _ in times]
        sends = [(t, teller, dict({"n": i}, **({} if pats[i] is None else {"patience_s": pats[i]})), "item")
                 for i, t in enumerate(times)]
        simulate([teller, sink], sends)
        cfg = dict(seed=seed, service=service, default=default_p, times=times, pats=pats)
        # reference: single worker, FIFO; an item taken from the queue after more than its patience leaves at once
        # (in the library's own integer nanoseconds: 4.1 s is 4099999999 ns, so a wait can exceed 0.3 s by one ns)
        free_at, want_served, want_reneged = 0, [], []
        for i, t in enumerate(times):
            t_ns = Instant.from_seconds(t).nanoseconds
            start = max(t_ns, free_at)
            p = default_p if pats[i] is None else pats[i]
            if (start - t_ns) / 1_000_000_000 > p:
                want_reneged.append(i)
            else:
                want_served.append(i)
                free_at = start + int(service * 1_000_000_000)
        served = [n for k, n, _ in teller.log if k == "start"]
        done = [n for k, n, _ in teller.log if k == "done"]
        reneged = [n for _, n in sink.got]
        check(served == want_served and done == want_served and reneged == want_reneged,
              "reneging/reneged-iff-waited-longer-than-patience-else-served-once-in-order",
              served=served, reneged=reneged, want_served=want_served, want_reneged=want_reneged, **cfg)
        check(teller.served == len(served) and teller.reneged == len(reneged) and not set(served) & set(reneged)
              and teller.served + teller.reneged == len(times), "reneging/reneged-and-counted-never-served", log=teller.log, **cfg)
    return {"evaluations": n_eval[0], "violations": bad}


if __name__ == "__main__":
    args = [a for a in sys.argv[1:] if a != "--json"]
    res = run(args[0] if args else "quick")
    if "--json" in sys.argv:
        import json
        print(json.dumps(res))
    else:
        print(res["evaluations"], "evaluations")
        for v in res["violations"]:
            print("VIOLATION", v)
    sys.exit(1 if res["violations"] else 0)

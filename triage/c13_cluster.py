"""C13 bounded native stand-in for the cross-node part of the statement (not a proof): real Simulation runs of
small clusters on datacenter links (one-way delay far below probe_interval/4).

  healthy   : nobody ever marks a live member DEAD (observed after every event)
  silent    : a member cut off at time T (T = 0: before its first message; T > 0: after warm-up) is reported
              not-ALIVE by every live member at the end of a run of >= 40 probe rounds, and a member reported
              DEAD is never reported ALIVE again

usage: c13_cluster.py <repo> <seed> <quick|thorough>   -> one JSON line {"evaluations": n, "violations": [...]}
"""
import json
import random
import sys

REPO, SEED, TIER = sys.argv[1], int(sys.argv[2]), sys.argv[3]
sys.path.insert(0, REPO)
from happysimulator.components.consensus.membership import MembershipProtocol, MemberState  # noqa: E402
from happysimulator.components.network.conditions import datacenter_network  # noqa: E402
from happysimulator.components.network.network import Network  # noqa: E402
from happysimulator.core.control.breakpoints import TimeBreakpoint  # noqa: E402
from happysimulator.core.simulation import Simulation  # noqa: E402
from happysimulator.core.temporal import Instant  # noqa: E402


def build(n, pi, st, phi):
    net = Network(name="MemberNet")
    nodes = [MembershipProtocol(name=f"member-{i}", network=net, probe_interval=pi, suspicion_timeout=st, phi_threshold=phi)
             for i in range(n)]
    for a in nodes:
        for b in nodes:
            if a is not b:
                a.add_member(b)
    for i, a in enumerate(nodes):
        for b in nodes[i + 1:]:
            net.add_bidirectional_link(a, b, datacenter_network(name=f"link_{a.name}_{b.name}"))
    return net, nodes


def main():
    rng = random.Random(SEED * 7919 + 13)
    runs = 6 if TIER == "quick" else 40
    evals, viol = 0, {}
    for r in range(runs):
        n = rng.choice([3, 4, 5, 7])
        pi = rng.choice([0.2, 0.5, 1.0])
        st = rng.choice([0.5, 1.0, 3.0, 5.0])
        phi = rng.choice([1.0, 4.0, 8.0])
        mode = ["healthy", "silent-from-start", "silent-after-warmup"][r % 3]
        random.seed(rng.randrange(1 << 30))
        net, nodes = build(n, pi, st, phi)
        dur = 40 * pi * (n - 1) + 10 * st
        sim = Simulation(duration=dur, entities=[net, *nodes])
        silent = nodes[-1] if mode != "healthy" else None
        live = [x for x in nodes if x is not silent]
        cfg = {"n": n, "probe_interval": pi, "suspicion_timeout": st, "phi_threshold": phi, "mode": mode}
        was_dead = set()

        def obs(_e):
            for nd in live:
                for nm, info in nd._members.items():
                    if info.state == MemberState.DEAD:
                        if silent is None or nm != silent.name:
                            viol.setdefault("healthy: a live member was marked DEAD", dict(cfg, by=nd.name, member=nm))
                        was_dead.add((nd.name, nm))
                    elif (nd.name, nm) in was_dead and info.state == MemberState.ALIVE:
                        viol.setdefault("a member reported DEAD is reported ALIVE again", dict(cfg, by=nd.name, member=nm))
        sim.control.on_event(obs)
        starters = nodes if mode != "silent-from-start" else live
        for nd in starters:
            for e in nd.start():
                sim.schedule(e)
        if mode == "silent-from-start":
            net.partition([silent], live)
            sim.run()
        elif mode == "silent-after-warmup":
            sim.control.add_breakpoint(TimeBreakpoint(time=Instant.from_seconds(rng.choice([2.0, 5.0]) * pi * (n - 1))))
            sim.run()
            net.partition([silent], live)
            sim.control.resume()
        else:
            sim.run()
        evals += 1
        if silent is not None:
            still = [nd.name for nd in live if nd.get_member_state(silent.name) == MemberState.ALIVE]
            if still:
                viol.setdefault(f"{mode}: silent member still reported ALIVE after 40 probe rounds", dict(cfg, by=still))
    print(json.dumps({"evaluations": evals, "violations": [dict(case=k, **v) for k, v in viol.items()]}))


main()

import logging
logging.basicConfig(level=logging.ERROR)
from happysimulator import Simulation, Event, Instant, Entity
from happysimulator.components.messaging.topic import Topic
import inspect; print(inspect.signature(Topic.__init__))
got=[]
class S(Entity):
    def handle_event(self,e): got.append((self.name, round(self.now.to_seconds(),4), e.event_type))
s1=S('s1'); s2=S('s2'); t=Topic('t', delivery_latency=0.01); t.subscribe(s1); t.subscribe(s2)
sim=Simulation(entities=[s1,s2,t], end_time=Instant.from_seconds(2))
sim.schedule(Event(time=Instant.from_seconds(0.5), event_type='publish', target=t, context={'payload': Event(time=Instant.from_seconds(0.5), event_type='m', target=s1)}))
sim.run(); print('subscribers received', got, 'delivered stat', t._messages_delivered)

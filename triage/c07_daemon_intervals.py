"""C07 native survey: self-rescheduling daemons vs. degenerate intervals.

Property: a finite workload never causes an unbounded number of deliveries at a
single simulated instant (time advances or the run ends).

For each (class, interval value in {0, 1e-10, -1.0}) the component is built with
minimal wiring, its first tick plus ONE ordinary event (t=0.5 s -> sink) are
scheduled and Simulation(end_time=1 s).run() is executed in a child process
(soft watchdog SIGALRM 5 s inside the child, hard 8 s in the parent, both counted
from the child's READY line printed just before sim.run()).

Run:  cd /repo && /venv/bin/python /verif/triage/c07_daemon_intervals.py [case-substring]
Child: ... --child CASE VALUE
"""

import logging
import os
import signal
import subprocess
import sys

VALUES = ["0.0", "1e-10", "-1.0"]
SOFT_S, HARD_S = 5, 8  # soft: in-child SIGALRM that reports clock/sink state; hard: parent kill


def _lib():
    import happysimulator as hs
    from happysimulator.core.entity import Entity
    from happysimulator.core.event import Event
    from happysimulator.core.temporal import Instant

    return hs, Entity, Event, Instant


def _sink_cls():
    _, Entity, _, _ = _lib()

    class Sink(Entity):
        def __init__(self, name):
            super().__init__(name)
            self.n = 0
            self.work = 0

        def handle_event(self, event):
            self.n += 1
            if event.event_type == "Work":
                self.work += 1
            return None

    return Sink


def _net(nodes):
    from happysimulator.components.network import Network, datacenter_network

    net = Network(name="net")
    for i, a in enumerate(nodes):
        for b in nodes[i + 1 :]:
            net.add_bidirectional_link(a, b, datacenter_network(f"l_{a.name}_{b.name}"))
    return net


def _server(name):
    from happysimulator import ConstantLatency
    from happysimulator.components.server import Server

    return Server(name=name, concurrency=2, service_time=ConstantLatency(0.05))


def _ev(t, typ, target, **ctx):
    _, _, Event, Instant = _lib()
    return Event(time=Instant.from_seconds(t), event_type=typ, target=target, context=ctx or None)


# ---- case builders: (v, sink) -> dict(entities=[...], start=callable -> events|None, sources=, probes=)


def c_advertiser(v, sink):
    from happysimulator.components.advertising import Advertiser, AdPlatform, AudienceTier

    plat = AdPlatform("plat")
    adv = Advertiser("adv", product_price=10.0, production_cost=4.0,
                     tiers=[AudienceTier("t", 100.0, 2.0)], platform=plat, evaluation_interval=v)
    return dict(entities=[adv, plat], start=adv.start_events)


def c_agent(v, sink):
    from happysimulator.components.behavior.agent import Agent
    _, _, _, Instant = _lib()

    a = Agent("agent", heartbeat_interval=v)
    return dict(entities=[a], start=lambda: a.schedule_first_heartbeat(Instant.Epoch))


def _paxos_like(cls, v, **kw):
    nodes = [cls(f"n{i}", network=None, heartbeat_interval=v, **kw) for i in range(3)]
    net = _net(nodes)
    for n in nodes:
        n._network = net
        n.set_peers(nodes)
    return dict(entities=[*nodes, net], start=nodes[0].start)


def c_flexpaxos(v, sink):
    from happysimulator.components.consensus.flexible_paxos import FlexiblePaxosNode

    return _paxos_like(FlexiblePaxosNode, v, phase1_quorum=2, phase2_quorum=2)


def c_multipaxos(v, sink):
    from happysimulator.components.consensus.multi_paxos import MultiPaxosNode

    return _paxos_like(MultiPaxosNode, v)


def _leader_election(**kw):
    from happysimulator.components.consensus.leader_election import LeaderElection

    nodes = [LeaderElection(f"n{i}", network=None, **kw) for i in range(2)]
    net = _net(nodes)
    for n in nodes:
        n._network = net
        for m in nodes:
            n.add_member(m)
    return dict(entities=[*nodes, net], start=lambda: [e for n in nodes for e in n.start()])


def c_le_timeout(v, sink):
    return _leader_election(election_timeout=v, heartbeat_interval=0.5)


def c_le_heartbeat(v, sink):
    return _leader_election(election_timeout=0.1, heartbeat_interval=v)


def c_membership(v, sink):
    from happysimulator.components.consensus.membership import MembershipProtocol

    nodes = [MembershipProtocol(f"m{i}", network=None, probe_interval=v) for i in range(2)]
    net = _net(nodes)
    for n in nodes:
        n._network = net
        for m in nodes:
            n.add_member(m)
    return dict(entities=[*nodes, net], start=lambda: [e for n in nodes for e in n.start()])


def _raft(**kw):
    from happysimulator.components.consensus.raft import RaftNode

    nodes = [RaftNode(f"r{i}", network=None, **kw) for i in range(3)]
    net = _net(nodes)
    for n in nodes:
        n._network = net
        n.set_peers(nodes)
    return dict(entities=[*nodes, net], start=lambda: [e for n in nodes for e in n.start()])


def c_raft_hb(v, sink):
    return _raft(election_timeout_min=0.1, election_timeout_max=0.2, heartbeat_interval=v)


def c_raft_et(v, sink):
    return _raft(election_timeout_min=v, election_timeout_max=v, heartbeat_interval=0.5)


def c_crdt(v, sink):
    from happysimulator.components.crdt.crdt_store import CRDTStore

    a = CRDTStore("a", network=None, gossip_interval=v)
    b = CRDTStore("b", network=None, gossip_interval=0.0)
    net = _net([a, b])
    a._network = b._network = net
    a.add_peers([b])
    b.add_peers([a])
    return dict(entities=[a, b, net], start=a.get_gossip_event)


def _lb(n=2):
    from happysimulator.components.load_balancer import LoadBalancer, RoundRobin

    servers = [_server(f"s{i}") for i in range(n)]
    return LoadBalancer(name="lb", backends=servers, strategy=RoundRobin()), servers


def c_autoscaler(v, sink):
    from happysimulator.components.deployment import AutoScaler

    lb, servers = _lb(1)
    sc = AutoScaler(name="scaler", load_balancer=lb, server_factory=_server, evaluation_interval=v)
    return dict(entities=[lb, *servers, sc], start=sc.start)


def c_canary(v, sink):
    from happysimulator.components.deployment import CanaryDeployer, CanaryStage

    class Healthy:
        def is_healthy(self, canary, baseline):
            return True

    lb, servers = _lb(2)
    d = CanaryDeployer(name="canary", load_balancer=lb, server_factory=_server,
                       stages=[CanaryStage(0.1, 0.2), CanaryStage(1.0, 0.2)],
                       metric_evaluator=Healthy(), evaluation_interval=v)
    return dict(entities=[lb, *servers, d], start=d.deploy)


def c_rolling(v, sink):
    from happysimulator.components.deployment import RollingDeployer

    lb, servers = _lb(2)
    d = RollingDeployer(name="roll", load_balancer=lb, server_factory=_server, batch_size=1,
                        health_check_interval=v, healthy_threshold=1, max_failures=3)
    return dict(entities=[lb, *servers, d], start=d.deploy)


def c_perishable(v, sink):
    from happysimulator.components.industrial.perishable_inventory import PerishableInventory

    p = PerishableInventory("inv", spoilage_check_interval_s=v, downstream=sink, waste_target=sink)
    return dict(entities=[p], start=p.start_event)


def c_breakdown(v, sink):
    from happysimulator.components.industrial.breakdown import BreakdownScheduler

    b = BreakdownScheduler("bd", target=sink, mean_time_to_failure=v, mean_repair_time=v)
    return dict(entities=[b], start=b.start_event)


def c_gc_interval(v, sink):
    from happysimulator.components.infrastructure.garbage_collector import ConcurrentGC, GarbageCollector

    g = GarbageCollector("gc", strategy=ConcurrentGC(interval_s=v))  # pause_s default 5 ms
    return dict(entities=[g], start=g.prime)


def c_gc_interval_nopause(v, sink):
    from happysimulator.components.infrastructure.garbage_collector import ConcurrentGC, GarbageCollector

    g = GarbageCollector("gc", strategy=ConcurrentGC(pause_s=0.0, interval_s=v))
    return dict(entities=[g], start=g.prime)


def c_multileader(v, sink):
    from happysimulator.components.datastore import KVStore
    from happysimulator.components.replication.multi_leader import LeaderNode

    ls = [LeaderNode(f"L{i}", store=KVStore(f"kv{i}"), network=None,
                     anti_entropy_interval=(v if i == 0 else 0.0)) for i in range(2)]
    net = _net(ls)
    for l in ls:
        l._network = net
        l.add_peers([x for x in ls if x is not l])
    return dict(entities=[*ls, *[l.store for l in ls], net], start=ls[0].get_anti_entropy_event)


def c_eventlog(v, sink):
    from happysimulator.components.streaming.event_log import EventLog, TimeRetention

    log = EventLog("log", num_partitions=1, retention_policy=TimeRetention(max_age_s=300.0),
                   retention_check_interval=v)
    return dict(entities=[log], start=lambda: _ev(0.0, "Append", log, key="k", value=1))


def c_streamproc(v, sink):
    from happysimulator.components.streaming.stream_processor import StreamProcessor, TumblingWindow

    sp = StreamProcessor("sp", window_type=TumblingWindow(size_s=10.0), aggregate_fn=len,
                         downstream=sink, watermark_interval_s=v)
    return dict(entities=[sp], start=lambda: _ev(0.0, "Process", sp, key="k", value=1))


def c_batch(v, sink):
    from happysimulator.components.industrial.batch_processor import BatchProcessor

    bp = BatchProcessor("bp", downstream=sink, batch_size=10, process_time=0.01, timeout_s=v)
    return dict(entities=[bp], start=lambda: [_ev(0.0, "Item", bp), _ev(0.1, "Item", bp)])


def c_lock(v, sink):
    from happysimulator.components.consensus.distributed_lock import DistributedLock

    lk = DistributedLock("lock", lease_duration=v)

    def start():
        lk.acquire("L", "a")
        lk.acquire("L", "b")  # waiter: is granted when a's lease expires
        return lk._pending_expiry

    return dict(entities=[lk], start=start)


def c_hedge(v, sink):
    from happysimulator.components.resilience.hedge import Hedge

    srv = _server("srv")
    h = Hedge("hedge", target=srv, hedge_delay=v, max_hedges=5)
    return dict(entities=[h, srv], start=lambda: _ev(0.0, "request", h))


def c_probe(v, sink):
    from happysimulator.instrumentation.data import Data
    from happysimulator.instrumentation.probe import Probe

    p = Probe(target=sink, metric="n", data=Data(), interval=v)
    return dict(entities=[], probes=[p], start=lambda: [])


def c_source(v, sink):  # v is the PERIOD; rate = 1/v
    from happysimulator import Source

    rate = float("inf") if v == 0 else 1.0 / v
    s = Source.constant(rate=rate, target=sink, event_type="Tick", name="src")
    return dict(entities=[], sources=[s], start=lambda: [])


def c_jobsched(v, sink):
    from happysimulator.components.scheduling.job_scheduler import JobScheduler

    js = JobScheduler(name="cron", tick_interval=v)
    return dict(entities=[js], start=js.start)


def c_outbox(v, sink):
    from happysimulator.components.microservice.outbox_relay import OutboxRelay

    ob = OutboxRelay("outbox", downstream=sink, poll_interval=v)

    def start():
        ob.write({"k": 1})
        return ob.prime_poll()

    return dict(entities=[ob], start=start)


def c_idem(v, sink):
    from happysimulator.components.microservice.idempotency_store import IdempotencyStore

    st = IdempotencyStore("idem", target=sink, key_extractor=lambda e: "k", cleanup_interval=v)
    return dict(entities=[st], start=lambda: _ev(0.0, "request", st))


def c_healthcheck(v, sink):
    from happysimulator.components.load_balancer.health_check import HealthChecker

    lb, servers = _lb(1)
    hc = HealthChecker(name="hc", load_balancer=lb, interval=v, timeout=v / 10.0)
    return dict(entities=[lb, *servers, hc], start=hc.start)


CASES = {
    "01 Advertiser.evaluation_interval": c_advertiser,
    "02 Agent.heartbeat_interval": c_agent,
    "03 FlexiblePaxosNode.heartbeat_interval": c_flexpaxos,
    "04a LeaderElection.election_timeout": c_le_timeout,
    "04b LeaderElection.heartbeat_interval": c_le_heartbeat,
    "05 MembershipProtocol.probe_interval": c_membership,
    "06 MultiPaxosNode.heartbeat_interval": c_multipaxos,
    "07a RaftNode.heartbeat_interval": c_raft_hb,
    "07b RaftNode.election_timeout_min=max": c_raft_et,
    "08 CRDTStore.gossip_interval": c_crdt,
    "09 AutoScaler.evaluation_interval": c_autoscaler,
    "10 CanaryDeployer.evaluation_interval": c_canary,
    "11 RollingDeployer.health_check_interval": c_rolling,
    "12 PerishableInventory.spoilage_check_interval_s": c_perishable,
    "13 BreakdownScheduler.mttf=mrt": c_breakdown,
    "14a GarbageCollector/ConcurrentGC.interval_s(pause 5ms)": c_gc_interval,
    "14b GarbageCollector/ConcurrentGC.interval_s(pause_s=0)": c_gc_interval_nopause,
    "15 LeaderNode.anti_entropy_interval": c_multileader,
    "16 EventLog.retention_check_interval": c_eventlog,
    "17 StreamProcessor.watermark_interval_s": c_streamproc,
    "18 BatchProcessor.timeout_s": c_batch,
    "19 DistributedLock.lease_duration": c_lock,
    "20 Hedge.hedge_delay(max_hedges=5)": c_hedge,
    "21 Probe.interval": c_probe,
    "22a Source.constant(rate=1/VALUE)": c_source,
    "22b JobScheduler.tick_interval": c_jobsched,
    "22c OutboxRelay.poll_interval": c_outbox,
    "22d IdempotencyStore.cleanup_interval": c_idem,
    "22e HealthChecker.interval(timeout=VALUE/10)": c_healthcheck,
}


class _Count(logging.Handler):
    def __init__(self):
        super().__init__(level=logging.WARNING)
        self.tt = 0
        self.other = 0

    def emit(self, record):
        if "Time travel detected" in record.getMessage():
            self.tt += 1
        else:
            self.other += 1


def _short(e):
    s = f"{type(e).__name__}: {e}".replace("\n", " ")
    return s if len(s) <= 110 else s[:107] + "..."


def child(case, vs):
    import random

    random.seed(7)
    hs, _, Event, Instant = _lib()
    h = _Count()
    lg = logging.getLogger("happysimulator")
    lg.addHandler(h)
    lg.setLevel(logging.WARNING)
    v = float(vs)
    sink = _sink_cls()("sink")

    def out(s):
        print(s, flush=True)
        os._exit(0)

    try:
        spec = CASES[case](v, sink)
    except ValueError as e:
        out(f"REJECTED({_short(e)})")
    except Exception as e:  # noqa: BLE001
        out(f"ERROR(at construction: {_short(e)})")

    sim = hs.Simulation(entities=[*spec["entities"], sink], sources=spec.get("sources"),
                        probes=spec.get("probes"), end_time=Instant.from_seconds(1.0))
    try:
        first = spec["start"]()
    except Exception as e:  # noqa: BLE001
        out(f"ERROR(creating first tick: {_short(e)})")
    if first is None:
        out("OK(disabled: first-tick API returned None, no tick scheduled)")
    first = first if isinstance(first, list) else [first]
    first_t = sorted({e.time.to_seconds() for e in first})
    sim.schedule(first)
    sim.schedule(Event(time=Instant.from_seconds(0.5), event_type="Work", target=sink))

    popped = [0]
    try:
        orig_pop = sim._event_heap.pop

        def pop():
            popped[0] += 1
            return orig_pop()

        sim._event_heap.pop = pop
    except Exception:  # noqa: BLE001
        popped[0] = -1

    def on_alarm(signum, frame):
        t = sim._clock.now.to_seconds()
        kind = "SPIN" if sink.work == 0 else "SLOW"
        out(f"{kind}(clock stuck at T={t!r}s after {SOFT_S}s wall, sink_received={sink.work}, "
            f"events_popped={popped[0]}, n_warnings={h.tt})")

    signal.signal(signal.SIGALRM, on_alarm)
    print("READY", flush=True)
    signal.alarm(SOFT_S)
    try:
        summary = sim.run()
    except Exception as e:  # noqa: BLE001
        signal.alarm(0)
        out(f"ERROR(during run at T={sim._clock.now.to_seconds()!r}s: {_short(e)})")
    signal.alarm(0)
    out(f"OK(finished, events={sim._events_processed}, sink_received={sink.work}, "
        f"n_warnings={h.tt}, first_tick_t={first_t})")


def main(filt):
    for case in CASES:
        if filt and filt not in case:
            continue
        for vs in VALUES:
            # The 8 s budget starts when the child announces READY (just before sim.run()),
            # so slow imports on a loaded machine are not mistaken for a spin.
            p = subprocess.Popen([sys.executable, os.path.abspath(__file__), "--child", case, vs],
                                 stdout=subprocess.PIPE, stderr=subprocess.PIPE, text=True,
                                 cwd=os.getcwd())
            first = p.stdout.readline().strip()  # "READY" or the final verdict
            try:
                rest, err = p.communicate(timeout=HARD_S)
                lines = [l for l in [first, *rest.strip().splitlines()] if l and l != "READY"]
                res = lines[-1] if lines else f"ERROR(child rc={p.returncode}: {err.strip().splitlines()[-1:]})"
            except subprocess.TimeoutExpired:
                p.kill()
                p.communicate()
                res = f"SPIN(hard timeout {HARD_S}s, child unresponsive, no state available)"
            print(f"{case} param={vs} -> {res}", flush=True)


if __name__ == "__main__":
    sys.path.insert(0, os.getcwd())
    if len(sys.argv) >= 4 and sys.argv[1] == "--child":
        child(sys.argv[2], sys.argv[3])
    else:
        main(sys.argv[1] if len(sys.argv) > 1 else "")

import random
from happysimulator import Simulation, Event, Instant, Entity
from happysimulator.components.resource import Resource
bad={}
for seed in range(400):
    rng=random.Random(seed); cap=rng.choice([1,2,3,5,10]); r=Resource('r', capacity=cap)
    held=[0]; blocked=[]; granted=[]; viol=[]
    class W(Entity):
        def __init__(s,n,amt,hold): super().__init__(n); s.amt=amt; s.hold=hold
        def handle_event(s,e):
            fut=r.acquire(s.amt)
            was_blocked=not fut.is_resolved
            if was_blocked: blocked.append(s.name)
            g = yield fut
            if was_blocked: granted.append(s.name)
            held[0]+=s.amt
            if held[0]>cap or abs(r.available+held[0]-cap)>1e-9: viol.append(('conservation',s.name,held[0],r.available))
            yield s.hold
            held[0]-=s.amt; g.release()
            if abs(r.available+held[0]-cap)>1e-9 and not r.waiters: viol.append(('after release',s.name,held[0],r.available))
    ws=[W(f'w{i}', rng.randint(1,cap), rng.choice([0.0,0.1,0.5,1.0])) for i in range(rng.randint(2,8))]
    sim=Simulation(entities=ws+[r], end_time=Instant.from_seconds(100))
    for w in ws: sim.schedule(Event(time=Instant.from_seconds(rng.choice([0,0,0.1,0.5])), event_type='go', target=w))
    sim.run()
    if viol: bad.setdefault('inv',(seed,viol[:2]))
    if granted!=blocked[:len(granted)]: bad.setdefault('fifo',(seed,blocked,granted))
    if len(granted)!=len(blocked): bad.setdefault('starved',(seed,blocked,granted))
print(bad if bad else 'resource checks OK')

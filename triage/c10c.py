from happysimulator import Simulation, Event, Instant, Entity
from happysimulator.components.rate_limiter.rate_limited_entity import RateLimitedEntity
from happysimulator.components.rate_limiter.policy import FixedWindowPolicy
got=[]
class D(Entity):
    def handle_event(self,e): got.append(round(self.now.to_seconds(),6))
d=D('d'); rl=RateLimitedEntity('rl', downstream=d, policy=FixedWindowPolicy(requests_per_window=1, window_size=0.1))
sim=Simulation(entities=[rl,d], end_time=Instant.from_seconds(2))
n=[0]
sim.control.on_event(lambda e: n.__setitem__(0,n[0]+1))
sim.control.add_breakpoint(__import__('happysimulator').EventCountBreakpoint(count=20000)) if hasattr(__import__('happysimulator'),'EventCountBreakpoint') else None
for t in (0.2, 0.25): sim.schedule(Event(time=Instant.from_seconds(t), event_type='req', target=rl))
sim.run(); print('paused' if sim.control.is_paused else 'finished', 'events', n[0], 'clock', sim._current_time, 'forwarded', got)

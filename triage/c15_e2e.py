"""C15 end to end, native: random concurrent put/delete workloads, 3 sync policies, small memtables, crash at the
end_time of the run, crash(); recover_from_crash(); every key must read the value of its latest durable write
(sync completed before the crash) or of a later write; a second recovery must change nothing.
usage: PYTHONPATH=<tree> python c15_e2e.py [runs] [seed]"""
import random, sys
from happysimulator import Simulation, Event, Instant, Entity
from happysimulator.components.storage.lsm_tree import LSMTree, _TOMBSTONE
from happysimulator.components.storage.wal import WriteAheadLog, SyncEveryWrite, SyncOnBatch, SyncPeriodic

runs = int(sys.argv[1]) if len(sys.argv) > 1 else 300
rng = random.Random(int(sys.argv[2]) if len(sys.argv) > 2 else 1)
bad = 0
for run in range(runs):
    pol = rng.choice([SyncEveryWrite(), SyncOnBatch(rng.randint(1, 4)), SyncPeriodic(rng.choice([0.0005, 0.002, 0.01]))])
    wal = WriteAheadLog("wal", sync_policy=pol, write_latency=rng.choice([0.0001, 0.0003]), sync_latency=rng.choice([0.0005, 0.001]))
    lsm = LSMTree("lsm", memtable_size=rng.randint(2, 5), sstable_write_latency=rng.choice([0.0005, 0.05, 0.5]), wal=wal)
    writes = {}          # seq -> (key, value)
    issued, applied, tick = {}, {}, [0]      # real-time order: when the append was issued / when it returned (the
    orig = wal.append                        # memtable apply follows the return with no wait in between)
    def traced(key, value, _o=orig):
        seq = wal._next_sequence
        writes[seq] = (key, value)
        tick[0] += 1; issued[seq] = tick[0]
        r = yield from _o(key, value)
        tick[0] += 1; applied[seq] = tick[0]
        return r
    wal.append = traced
    class W(Entity):
        def __init__(self, name, ops): super().__init__(name); self.ops = ops
        def handle_event(self, e):
            for op, k, v in self.ops:
                if op == "put": yield from lsm.put(k, v)
                else: yield from lsm.delete(k)
                yield rng.choice([0.0, 0.0002, 0.001])
    ws = [W(f"w{w}", [(rng.choice(["put", "put", "delete"]), f"k{rng.randint(0, 5)}", f"v{run}_{w}_{i}")
                      for i in range(rng.randint(1, 8))]) for w in range(rng.randint(1, 4))]
    sim = Simulation(entities=ws + [lsm, wal], end_time=Instant.from_seconds(rng.choice([0.001, 0.003, 0.01, 0.05, 0.6, 2.0])))
    for w in ws:
        sim.schedule(Event(time=Instant.from_seconds(rng.choice([0.0, 0.0001, 0.0005, 0.002])), event_type="go", target=w))
    sim.run()
    synced = wal.synced_up_to
    lsm.crash(); lsm.recover_from_crash()
    first = {k: lsm.get_sync(k) for k in {kv[0] for kv in writes.values()}}
    lsm.recover_from_crash()
    second = {k: lsm.get_sync(k) for k in first}
    if first != second:
        bad += 1; print("run", run, "recover twice differs")
    for k in first:
        durable = [s for s, (kk, _) in writes.items() if kk == k and s <= synced]
        if not durable:
            continue
        # a write is ruled out only if a DURABLE write to the same key was issued after it had been applied
        # (real-time order).  Two writes that overlap in time may take effect in either order: the tree applies
        # writes in the order their log appends return, which is not sequence order when only some appends sync.
        # (The first version of this oracle used sequence order and so demanded more than the property states.)
        INF = float("inf")
        allowed = {(None if v is _TOMBSTONE else v) for s, (kk, v) in writes.items() if kk == k
                   and not any(applied.get(s, INF) < issued[d] for d in durable)}
        if first[k] not in allowed:
            bad += 1
            print("run", run, type(pol).__name__, "key", k, "reads", first[k], "allowed", sorted(map(str, allowed)), "durable seqs", durable, "synced_up_to", synced)
            break
print("runs", runs, "violating runs", bad)

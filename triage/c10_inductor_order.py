"""C10 native reproduction: Inductor forwards a later arrival before requests that are still buffered."""
import sys
from happysimulator import Simulation, Event, Instant, Entity
from happysimulator.components.rate_limiter.inductor import Inductor
got = []
class D(Entity):
    def handle_event(self, e): got.append(e.context['metadata'].get('tag'))
d = D('d'); ind = Inductor('ind', downstream=d, time_constant=1.0)
sim = Simulation(entities=[ind, d], end_time=Instant.from_seconds(100))
# a, b one second apart (estimate 1 s); c right after b is buffered (poll due 1 s later);
# d arrives at 2.0 s, before that poll, when one smoothed interval has passed since b went out
for tag, t in [('a', 0.0), ('b', 1.0), ('c', 1.1), ('d', 2.0)]:
    sim.schedule(Event(time=Instant.from_seconds(t), event_type='req', target=ind, context={'metadata': {'tag': tag}}))
sim.run()
print(got)
arr = ['a', 'b', 'c', 'd']
sys.exit(0 if got == [x for x in arr if x in got] else 1)

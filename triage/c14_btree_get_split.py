from happysimulator import Simulation, Event, Instant, Entity
from happysimulator.components.storage.btree import BTree
bt = BTree('bt', order=3, page_read_latency=0.01, page_write_latency=0.01)
bt.put_sync('a', 1); bt.put_sync('c', 3)      # root leaf full (order-1 = 2 keys)
res = []
class Rd(Entity):
    def handle_event(self, e):
        t0 = self.now.to_seconds()
        v = yield from bt.get('c')
        res.append(('get c', t0, self.now.to_seconds(), v))
class Wr(Entity):
    def handle_event(self, e):
        yield from bt.put('b', 2)
r = Rd('r'); w = Wr('w')
sim = Simulation(entities=[r, w, bt], end_time=Instant.from_seconds(5))
sim.schedule(Event(time=Instant.from_seconds(1.0), event_type='go', target=w))     # insert happens at 1.01
sim.schedule(Event(time=Instant.from_seconds(1.005), event_type='go', target=r))   # get holds old root during 1.005..1.015
sim.run()
print(res, 'sync now:', bt.get_sync('c'))

"""C18 finding: a key first learnt through gossip is stored as the SENDER's replica (node_id included).

CRDTStore._merge_remote_state, key not yet known locally: `self._crdts[key] = from_dict(remote_dict)`.  The replica keeps
the sender's node_id, so the next LOCAL write on that key goes into the sender's slot:
  * G/PN-counter: two nodes increment one slot, max-merge drops one side -> value != increments - decrements;
  * OR-set: local adds mint tags (sender_id, seq) that the sender mints too -> one tag names two elements, removing one
    element removes the other everywhere.
Public API only (Write / GossipTick events through a Simulation).  usage: PYTHONPATH=<tree> python c18_store_adopts_remote_identity.py
exit 1 = defect present.
"""
import sys

from happysimulator import Event, Instant, Network, Simulation, datacenter_network
from happysimulator.components.crdt.crdt_store import CRDTStore
from happysimulator.components.crdt.g_counter import GCounter
from happysimulator.components.crdt.or_set import ORSet


def cluster(factory):
    net = Network(name="net")
    a = CRDTStore("node-a", network=net, crdt_factory=factory, gossip_interval=1000.0)
    b = CRDTStore("node-b", network=net, crdt_factory=factory, gossip_interval=1000.0)
    a.add_peers([b])
    b.add_peers([a])
    net.add_bidirectional_link(a, b, datacenter_network("link"))
    sim = Simulation(start_time=Instant.Epoch, end_time=Instant.from_seconds(20.0), sources=[], entities=[a, b, net])
    return a, b, sim


def W(t, store, key, op, value):
    return Event(time=Instant.from_seconds(t), event_type="Write", target=store,
                 context={"metadata": {"key": key, "operation": op, "value": value}})


def G(t, store):
    return Event(time=Instant.from_seconds(t), event_type="GossipTick", target=store, daemon=False)


bad = 0
a, b, sim = cluster(lambda nid: GCounter(nid))
sim.schedule([W(0.1, a, "hits", "increment", 5), G(1.0, a),             # b learns "hits" from a
              W(2.0, b, "hits", "increment", 3), W(2.0, a, "hits", "increment", 2), G(3.0, a), G(4.0, b)])
sim.run()
va, vb = a.crdts["hits"].value, b.crdts["hits"].value
print(f"counter: increments 5 + 3 + 2 = 10; node-a holds {va}, node-b holds {vb}; node-b's replica calls itself "
      f"{b.crdts['hits'].node_id!r}, counts {b.crdts['hits'].to_dict()['counts']}")
bad += (va, vb) != (10, 10)

a, b, sim = cluster(lambda nid: ORSet(nid))
sim.schedule([W(0.1, a, "s", "add", "x"), G(1.0, a),                    # b learns "s" from a
              W(2.0, b, "s", "add", "y"), W(2.0, a, "s", "add", "z"), G(3.0, a),
              W(4.0, a, "s", "remove", "z"), G(5.0, a), G(6.0, b)])
sim.run()
print(f"or-set: add x, y, z; remove z -> {{x, y}}; node-a holds {set(a.crdts['s'].value)}, node-b holds {set(b.crdts['s'].value)}")
bad += set(a.crdts["s"].value) != {"x", "y"} or set(b.crdts["s"].value) != {"x", "y"}
print("DEFECT PRESENT" if bad else "ok")
sys.exit(1 if bad else 0)

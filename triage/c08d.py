from happysimulator import Simulation, Event, Instant, Entity, Server, Sink
from happysimulator.distributions.constant import ConstantLatency
for depth in range(0,6):
    sink=Sink('sink'); s=Server('s', concurrency=1, service_time=ConstantLatency(1.0), downstream=sink)
    class Hop(Entity):
        def __init__(self,n,left): super().__init__(n); self.left=left
        def handle_event(self,e):
            if self.left==0: return [Event(time=self.now, event_type='req', target=s, context={'metadata':{'tag':'b'}})]
            self.left-=1; return [Event(time=self.now, event_type='hop', target=self)]
    h=Hop('h',depth)
    sim=Simulation(entities=[s,sink,h], end_time=Instant.from_seconds(10))
    # both scheduled before the run: 'a' straight to the server, 'b' through `depth` hops, same nanosecond
    dummies=[Event(time=Instant.from_seconds(99), event_type='d', target=h) for _ in range(50)]   # a gets a large creation index
    sim.schedule(Event(time=Instant.from_seconds(1), event_type='req', target=s, context={'metadata':{'tag':'a'}}))
    sim.schedule(Event(time=Instant.from_seconds(1), event_type='hop', target=h))
    sim.run()
    print('hops',depth,'completed',s.stats.requests_completed,'rejected',s.stats.requests_rejected,'queue accepted',s.stats_accepted,'dropped',s.stats_dropped)

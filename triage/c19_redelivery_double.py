"""C19 finding (native repro, public API): ONE visibility timeout + a poll => TWO redeliveries.

A consumer asks for redelivery once (schedule_redelivery after a visibility timeout).  The message goes back to the FRONT of the
pending queue and a redelivery timer is set.  A poll before the timer fires redelivers it (consumer B); when the timer fires the
handler delivers it AGAIN (consumer A) although B still holds it in flight and never timed out: the message is at two consumers at
once and delivery_count is inflated (3 with max_redeliveries=3: the next timeout dead-letters it after one real timeout).
Repair: fixes/C19_redelivery-timer-double-delivers-after-poll.diff.   Usage: PYTHONPATH=<tree> python triage/c19_redelivery_double.py
Exit 1 = defect present.
"""
import sys, logging
logging.disable(logging.CRITICAL)
from happysimulator import Simulation, Instant, Event, Entity
from happysimulator.components.messaging.message_queue import MessageQueue

class Consumer(Entity):
    """receives deliveries; never acks; asks for redelivery (visibility timeout) once, 1 s after the FIRST delivery"""
    def __init__(self, name, q, log):
        super().__init__(name); self.q = q; self.log = log
    def handle_event(self, e):
        if e.event_type == "message_delivery":
            mid = e.context["message_id"]
            self.log.append((round(self.now.to_seconds(), 4), self.name, e.context["delivery_count"]))
            if e.context["delivery_count"] == 1:
                return [Event(time=Instant.from_seconds(self.now.to_seconds() + 1.0), event_type="timeout", target=self, context={"message_id": mid})]
        if e.event_type == "timeout":
            ev = self.q.schedule_redelivery(e.context["message_id"])
            return [ev] if ev else []
        return []

class Producer(Entity):
    def __init__(self, q): super().__init__("prod"); self.q = q
    def handle_event(self, e):
        yield from self.q.publish(Event(time=self.now, event_type="m", target=self.q))

log = []
q = MessageQueue("q", delivery_latency=0.0, redelivery_delay=5.0, max_redeliveries=3)
a, b = Consumer("A", q, log), Consumer("B", q, log)
q.subscribe(a); q.subscribe(b)
p = Producer(q)
sim = Simulation(entities=[q, a, b, p], end_time=Instant.from_seconds(30))
sim.schedule(Event(time=Instant.from_seconds(0.1), event_type="go", target=p))
sim.schedule(Event(time=Instant.from_seconds(0.5), event_type="poll", target=q))     # first delivery -> A
sim.schedule(Event(time=Instant.from_seconds(2.0), event_type="poll", target=q))     # after the timeout at 1.5: poll redelivers -> B
sim.run()                                                                           # timer fires at 6.5: delivered AGAIN while in flight at B
print(log)
msg = list(q._messages.values())[0]
print("delivery_count", msg.delivery_count, "in flight", list(q._in_flight), "redelivery requests: 1")
n = len(log)
print("DOUBLE DELIVERY" if n > 2 else "ok")
sys.exit(1 if n > 2 else 0)

import random, inspect
from happysimulator.components.queue_policy import FIFOQueue, LIFOQueue, PriorityQueue
from happysimulator.components import queue_policies as QP
from happysimulator.core.temporal import Instant
print([n for n in dir(QP) if n[0].isupper()])
class It:
    def __init__(s,i,pr,flow,dl): s.i=i; s.priority=pr; s.flow=flow; s.dl=dl
    def __repr__(s): return f'I{s.i}'
bad={}
now=[0]
def mk(name,rng,cap):
    if name=='FIFO': return FIFOQueue(capacity=cap)
    if name=='LIFO': return LIFOQueue(capacity=cap)
    if name=='PRIO': return PriorityQueue(capacity=cap, key=lambda x:x.priority)
    if name=='DEADLINE': return QP.DeadlineQueue(get_deadline=lambda x: Instant(x.dl), capacity=cap, clock_func=lambda: Instant(now[0]))
    if name=='FAIR': return QP.FairQueue(get_flow_id=lambda x:x.flow, max_flows=rng.choice([None,2,3]), per_flow_capacity=rng.choice([None,1,2]))
for name in ('FIFO','LIFO','PRIO','DEADLINE','FAIR'):
    for seed in range(1500):
        rng=random.Random(seed); cap=rng.choice([1,2,3,5]); q=mk(name,rng,cap); ref=[]; now[0]=0
        pushed=0; popped=0; rejected=0; expired=0
        for i in range(rng.randint(5,60)):
            now[0]+=rng.choice([0,1,5])
            if rng.random()<0.55:
                it=It(i, rng.choice([0,1,2]), rng.choice('abc'), now[0]+rng.choice([0,3,10,50]))
                ok=q.push(it)
                if ok: ref.append(it); pushed+=1
                else: rejected+=1
                if name in ('FIFO','LIFO','PRIO','DEADLINE') and ok!=(len(ref)-1<cap if ok else False) and not ok and len(ref)<cap: bad.setdefault(name+' rejected below capacity',seed)
            else:
                it=q.pop()
                if name=='FIFO': exp=ref.pop(0) if ref else None
                elif name=='LIFO': exp=ref.pop() if ref else None
                elif name=='PRIO':
                    exp=min(ref,key=lambda x:(x.priority,x.i)) if ref else None
                    if exp: ref.remove(exp)
                elif name=='DEADLINE':
                    live=[x for x in ref if x.dl>=now[0]]; dead=[x for x in ref if x.dl<now[0]]
                    exp=min(live,key=lambda x:(x.dl,x.i)) if live else None
                    # pop drops expired items with deadline earlier than the returned one (heap order) 
                    if exp: ref=[x for x in ref if not (x.dl<now[0] and (x.dl,x.i)<(exp.dl,exp.i))]; ref.remove(exp)
                    else: ref=[]
                else:
                    exp='skip'
                    if it is not None: ref.remove(it)
                if exp!='skip' and it is not exp: bad.setdefault(name+' order',(seed,i,it,exp)); break
            if name!='DEADLINE' and len(q)!=len(ref): bad.setdefault(name+' len',(seed,len(q),len(ref))); break
            if len(q)>q.capacity: bad.setdefault(name+' over capacity',seed); break
        if name=='DEADLINE':
            s=q.stats
            if s.enqueued != s.dequeued + s.expired + len(q): bad.setdefault('DEADLINE counters',(seed,s,len(q)))
        if name=='FAIR':
            s=q.stats
            if s.enqueued != s.dequeued + len(q): bad.setdefault('FAIR counters',(seed,s,len(q)))
print(bad if bad else 'queue policy checks OK')

"""C18 finding: ORSet.to_dict keys the entries by str(element); from_dict takes the keys as the elements.

Replicas exchange serialised state (CRDTStore gossip), so every non-string element changes identity on the wire:
  * a store that adds 7 and gossips ends up holding BOTH 7 and '7' (its own state comes back stringified), its peer
    holds only '7': replicas that received the same updates differ for ever;
  * 1 and '1' collapse into one entry when serialised: the tags of one of them are lost.
usage: PYTHONPATH=<tree> python c18_orset_wire_element_type.py     exit 1 = defect present.
"""
import sys

from happysimulator import Event, Instant, Network, Simulation, datacenter_network
from happysimulator.components.crdt.crdt_store import CRDTStore
from happysimulator.components.crdt.or_set import ORSet

bad = 0
c = ORSet("c")
c.add(7)
c.add((1, 2))
d = ORSet.from_dict(c.to_dict())
print("round trip:", set(c.elements), "->", set(d.elements))
bad += c.elements != d.elements
e = ORSet("e")
e.add(1)
e.add("1")
f = ORSet.from_dict(e.to_dict())
print("1 and '1':", e.to_dict()["entries"], "->", set(f.elements), "tags", f.to_dict()["entries"])
bad += e.elements != f.elements

net = Network(name="net")
a = CRDTStore("node-a", network=net, crdt_factory=lambda nid: ORSet(nid), gossip_interval=1000.0)
b = CRDTStore("node-b", network=net, crdt_factory=lambda nid: ORSet(nid), gossip_interval=1000.0)
a.add_peers([b])
b.add_peers([a])
net.add_bidirectional_link(a, b, datacenter_network("link"))
sim = Simulation(start_time=Instant.Epoch, end_time=Instant.from_seconds(20.0), sources=[], entities=[a, b, net])
sim.schedule([Event(time=Instant.from_seconds(0.1), event_type="Write", target=a,
                    context={"metadata": {"key": "s", "operation": "add", "value": 7}}),
              Event(time=Instant.from_seconds(1.0), event_type="GossipTick", target=a, daemon=False),
              Event(time=Instant.from_seconds(2.0), event_type="GossipTick", target=b, daemon=False)])
sim.run()
print("gossip: add 7 at node-a; node-a holds", set(a.crdts["s"].value), "node-b holds", set(b.crdts["s"].value))
bad += set(a.crdts["s"].value) != {7} or set(b.crdts["s"].value) != {7}
print("DEFECT PRESENT" if bad else "ok")
sys.exit(1 if bad else 0)

"""C09 bounded native stand-ins for the functions specs/C09.py keeps as assumed stubs / out of reach:

  rwlock    RWLock._has_waiting_writer (any(<generator>) over the waiter queue): after every step of a random
            interleaving of blocking read/write acquires and releases it equals "some queued waiter is a writer"
            (oracle: explicit loop), and try_acquire_read refuses exactly then / when write-locked / when full.
  waiter    ConnectionPool._remove_waiter (deque(<generator>)): removes exactly the entries with that id, keeps the
            order of the others.
  preempt   PreemptibleResource._try_preempt through acquire(preempt=True): victims are only grants of LOWER priority
            (numerically greater) than the requester, taken lowest priority first (no survivor is of lower priority
            than a victim), each victim is marked preempted+released and its callback runs once, its amount returns
            to `available` exactly once (available + sum(unreleased) == capacity after every step), preemption stops as
            soon as the request fits, and the freed capacity is handed out (no waiter that fits is left blocked).
  closeall  ConnectionPool.close_all inside a running simulation: afterwards active == idle == waiting == 0,
            total == set-ups still in flight, every blocked acquirer is released (TimeoutError) exactly once, and the
            pool keeps total == active + idle + pending and total <= max at every later observation.

usage: c09_bounded.py [n] [seed] [--json]      exit 0 = no violation
"""
import json
import random
import sys
import warnings

warnings.simplefilter("ignore")


def check_rwlock(n, seed, bad):
    from happysimulator.components.sync.rwlock import RWLock, _WaiterType
    ev = 0
    for m in range(n):
        rnd = random.Random(seed * 7919 + m)
        max_readers = rnd.choice([None, 1, 2, 3])
        lock = RWLock("l", max_readers=max_readers)
        held_r, held_w, blocked = 0, 0, []        # blocked: [(kind, generator)]
        for step in range(rnd.randint(1, 25)):
            op = rnd.choice(["r", "w", "rel", "rel", "try"])
            if op in ("r", "w"):
                g = lock.acquire_read() if op == "r" else lock.acquire_write()
                y = next(g)
                if isinstance(y, float):                   # fast path: acquired
                    for _ in g:
                        pass
                    if op == "r":
                        held_r += 1
                    else:
                        held_w += 1
                else:
                    blocked.append((op, g))
            elif op == "rel":
                if held_w:
                    lock.release_write()
                    held_w -= 1
                elif held_r:
                    lock.release_read()
                    held_r -= 1
                # processes woken by the release finish their acquire
                still = []
                for kind, g in blocked:
                    try:
                        y = next(g)
                        if isinstance(y, float) and y == 0.0 and False:
                            pass
                        still.append((kind, g))
                    except StopIteration:
                        if kind == "r":
                            held_r += 1
                        else:
                            held_w += 1
                blocked = still
            ev += 1
            oracle = False
            for w in lock._waiters:
                if w.waiter_type == _WaiterType.WRITER:
                    oracle = True
            got = lock._has_waiting_writer()
            if got != oracle:
                bad.append({"case": "rwlock/has-waiting-writer", "model": m, "step": step, "got": got, "oracle": oracle})
                break
            if op == "try":
                before = lock.active_readers
                full = max_readers is not None and before >= max_readers
                expect = not lock.is_write_locked and not oracle and not full
                r = lock.try_acquire_read()
                if r != expect:
                    bad.append({"case": "rwlock/try-acquire-read", "model": m, "step": step, "got": r, "expect": expect})
                    break
                if r:
                    held_r += 1
            if lock.is_write_locked and lock.active_readers:
                bad.append({"case": "rwlock/writer-not-alone", "model": m, "step": step})
                break
            if (lock.active_readers, int(lock.is_write_locked)) != (held_r, held_w):
                bad.append({"case": "rwlock/holders-mismatch", "model": m, "step": step,
                            "lock": [lock.active_readers, lock.is_write_locked], "oracle": [held_r, held_w]})
                break
    return ev


def check_remove_waiter(n, seed, bad):
    from collections import deque
    from happysimulator import Instant, Sink
    from happysimulator.components.client.connection_pool import ConnectionPool
    ev = 0
    for m in range(n):
        rnd = random.Random(seed * 104729 + m)
        pool = ConnectionPool("p", target=Sink("s"), max_connections=2)
        k = rnd.randint(0, 7)
        ids = [rnd.randint(1, 6) for _ in range(k)] if rnd.random() < 0.3 else rnd.sample(range(1, 12), k)
        entries = [(i, Instant.from_seconds(j), (lambda c, j=j: j)) for j, i in enumerate(ids)]
        pool._waiters = deque(entries)
        wid = rnd.choice(ids + [99]) if ids else 99
        pool._remove_waiter(wid)
        ev += 1
        expect = [e for e in entries if e[0] != wid]
        if list(pool._waiters) != expect or not isinstance(pool._waiters, deque):
            bad.append({"case": "pool/remove-waiter", "model": m, "ids": ids, "removed": wid,
                        "left": [e[0] for e in pool._waiters]})
    return ev


def check_preempt(n, seed, bad):
    from happysimulator.components.industrial.preemptible_resource import PreemptibleResource
    ev = 0
    for m in range(n):
        rnd = random.Random(seed * 15485863 + m)
        cap = rnd.randint(1, 6)
        res = PreemptibleResource("r", cap)
        grants = []          # every grant ever handed out: dict(g=grant, calls=[n])
        futures = []         # (future, amount, priority, record) of all acquires

        def harvest():
            for f in futures:
                if f[0].is_resolved and f[3].get("g") is None:
                    f[3]["g"] = f[0]._value
                    grants.append(f[3])

        ok = True
        for step in range(rnd.randint(1, 20)):
            harvest()
            alive = [r for r in grants if not r["g"].released]
            if rnd.random() < 0.3 and alive:
                rnd.choice(alive)["g"].release()
                kind = "release"
            else:
                amount, prio, pre = rnd.randint(1, cap), rnd.choice([0, 1, 2, 3, 3.5]), rnd.random() < 0.7
                rec = {"calls": 0, "g": None, "prio": prio}
                before_alive = list(alive)
                avail0 = res.available
                pre0 = res.stats.preemptions
                fut = res.acquire(amount, priority=prio, preempt=pre,
                                  on_preempt=(lambda rec=rec: rec.__setitem__("calls", rec["calls"] + 1)))
                futures.append((fut, amount, prio, rec))
                harvest()
                kind = "acquire"
                victims = [r for r in before_alive if r["g"].preempted]
                survivors = [r for r in before_alive if not r["g"].released]
                if victims and (not pre or avail0 >= amount):
                    bad.append({"case": "preempt/preempted-without-need-or-permission", "model": m, "step": step})
                    ok = False
                for v in victims:
                    if not v["prio"] > prio:
                        bad.append({"case": "preempt/victim-not-of-lower-priority", "model": m, "step": step,
                                    "victim": v["prio"], "requester": prio})
                        ok = False
                    if v["calls"] != 1 or not v["g"].released:
                        bad.append({"case": "preempt/victim-not-notified-exactly-once", "model": m, "step": step, "calls": v["calls"]})
                        ok = False
                    for u in survivors:
                        if u["prio"] > v["prio"]:
                            bad.append({"case": "preempt/not-lowest-priority-first", "model": m, "step": step,
                                        "victim": v["prio"], "survivor": u["prio"]})
                            ok = False
                if res.stats.preemptions - pre0 != len(victims):
                    bad.append({"case": "preempt/preemption-count", "model": m, "step": step})
                    ok = False
                if victims:
                    freed = sum(v["g"].amount for v in victims)
                    # the victim taken last is one of those of the highest priority among the victims; whichever it was,
                    # the request must not have fitted without it
                    last_max = max(v["g"].amount for v in victims if v["prio"] == min(x["prio"] for x in victims))
                    if avail0 + freed - last_max >= amount:
                        bad.append({"case": "preempt/more-victims-than-needed", "model": m, "step": step,
                                    "available": avail0, "freed": freed, "needed": amount})
                        ok = False
            ev += 1
            harvest()
            held = sum(r["g"].amount for r in grants if not r["g"].released)
            if not (0 <= res.available <= cap) or res.available + held != cap:
                bad.append({"case": "preempt/capacity-not-conserved", "model": m, "step": step, "after": kind,
                            "available": res.available, "held": held, "capacity": cap})
                ok = False
            if res._waiters and min(res._waiters).amount <= res.available:
                bad.append({"case": "preempt/head-waiter-fits-but-blocked", "model": m, "step": step, "after": kind})
                ok = False
            if any(r["calls"] > 1 for r in grants):
                bad.append({"case": "preempt/callback-twice", "model": m, "step": step})
                ok = False
            if not ok:
                break
    return ev


def check_close_all(n, seed, bad):
    from happysimulator import Entity, Event, Instant, Simulation, Sink
    from happysimulator.components.client.connection_pool import ConnectionPool
    from happysimulator.distributions.constant import ConstantLatency
    ev = 0
    for m in range(n):
        rnd = random.Random(seed * 32452843 + m)
        maxc = rnd.randint(1, 4)
        sink = Sink("t")
        pool = ConnectionPool("pool", target=sink, max_connections=maxc, min_connections=rnd.randint(0, 1),
                              connection_timeout=rnd.choice([0.5, 2.0, 5.0]), idle_timeout=rnd.choice([0.3, 1.0, 10.0]),
                              connection_latency=ConstantLatency(rnd.choice([0.0, 0.05, 0.4])))
        log = {"got": 0, "timeout": 0, "obs": []}
        t_close = rnd.choice([0.2, 1.0, 1.3, 2.5])

        def observe(tag):
            a, i, t = pool.active_connections, pool.idle_connections, pool.total_connections
            log["obs"].append((tag, a, i, t))
            if t > maxc or a + i > t or t < 0:
                bad.append({"case": "closeall/pool-accounting", "model": m, "at": tag, "active": a, "idle": i, "total": t, "max": maxc})

        class W(Entity):
            def __init__(self, name, hold):
                super().__init__(name)
                self.hold = hold

            def handle_event(self, e):
                try:
                    c = yield from pool.acquire()
                except TimeoutError:
                    log["timeout"] += 1
                    return
                log["got"] += 1
                observe("acquired")
                yield self.hold
                pool.release(c)
                observe("released")

        class Closer(Entity):
            def handle_event(self, e):
                waiting = pool.pending_requests
                pool.close_all()
                a, i, t, w = pool.active_connections, pool.idle_connections, pool.total_connections, pool.pending_requests
                if a or i or w or t < 0 or t > maxc:
                    bad.append({"case": "closeall/not-empty-afterwards", "model": m, "active": a, "idle": i, "waiting": w, "total": t})
                log["closed_with_waiting"] = waiting
                log["total_after_close"] = t

        ws = [W(f"w{k}", rnd.choice([0.1, 0.7, 3.0])) for k in range(rnd.randint(1, 7))]
        closer = Closer("closer")
        sim = Simulation(entities=ws + [pool, sink, closer], end_time=Instant.from_seconds(20))
        for w in ws:
            sim.schedule(Event(time=Instant.from_seconds(rnd.choice([0.0, 0.1, 1.0, 1.2, 2.0, 3.0])), event_type="go", target=w))
        sim.schedule(Event(time=Instant.from_seconds(t_close), event_type="close", target=closer))
        sim.run()
        ev += 1
        observe("end")
        if log["got"] + log["timeout"] != len(ws):
            bad.append({"case": "closeall/acquirer-neither-served-nor-released", "model": m, "served": log["got"],
                        "timeouts": log["timeout"], "workers": len(ws)})
        a, i, t = pool.active_connections, pool.idle_connections, pool.total_connections
        if a != 0 or a + i != t:
            bad.append({"case": "closeall/leak-at-end", "model": m, "active": a, "idle": i, "total": t})
    return ev


def main():
    args = [a for a in sys.argv[1:] if not a.startswith("--")]
    n = int(args[0]) if args else 300
    seed = int(args[1]) if len(args) > 1 else 0
    bad = []
    ev = 0
    for f in (check_rwlock, check_remove_waiter, check_preempt, check_close_all):
        try:
            ev += f(n, seed, bad)
        except Exception as e:      # noqa: BLE001
            import traceback
            bad.append({"case": f.__name__ + "/crash", "error": f"{type(e).__name__}: {e}", "tb": traceback.format_exc()[-600:]})
    out = {"evaluations": ev, "violations": bad[:20]}
    if "--json" in sys.argv:
        print(json.dumps(out, default=str))
    else:
        print("evaluations", ev, "violations", len(bad))
        for b in bad[:10]:
            print("  ", b)
    sys.exit(1 if bad else 0)


if __name__ == "__main__":
    main()

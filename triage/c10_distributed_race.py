"""C10: DistributedRateLimiter.check_and_increment is a read-then-write on the shared counter with a yield
(store latency) between the read and the write.  Requests that arrive while another request's round trip is in
flight all read the same count and all write count+1 (lost update): with global_limit=3 and ten arrivals 1 ms
apart (default KVStore latencies 1 ms / 5 ms) all ten are forwarded.  One limiter is enough (handle_event is a
generator, so its own requests overlap); two limiters sharing the store behave the same.
Run: PYTHONPATH=/repo /venv/bin/python triage/c10_distributed_race.py   (exit 1 when the limit is exceeded)
"""
import logging
import sys

logging.basicConfig(level=logging.WARNING)
from happysimulator import Simulation, Event, Instant, Entity  # noqa: E402
from happysimulator.components.rate_limiter.distributed import DistributedRateLimiter  # noqa: E402
from happysimulator.components.datastore.kv_store import KVStore  # noqa: E402

got = []


class Sink(Entity):
    def handle_event(self, e):
        got.append(round(self.now.to_seconds(), 4))


def run(n_limiters, times, limit=3):
    got.clear()
    d = Sink("d")
    kv = KVStore("kv")          # default latencies: read 1 ms, write 5 ms
    rls = [DistributedRateLimiter(f"rl{i}", downstream=d, backing_store=kv, global_limit=limit, window_size=1.0)
           for i in range(n_limiters)]
    sim = Simulation(entities=[d, kv, *rls], end_time=Instant.from_seconds(2))
    for k, t in enumerate(times):
        sim.schedule(Event(time=Instant.from_seconds(t), event_type="req", target=rls[k % n_limiters]))
    sim.run()
    print(f"limiters={n_limiters} limit={limit} arrivals={len(times)} in one window -> downstream received {len(got)}; "
          f"forwarded stats {[r.stats.requests_forwarded for r in rls]}; store {kv._data}")
    return len(got) <= limit


def bounded(n_cases, seed):
    """random schedules: 1-3 limiters on one store, random store latencies, bursts and overlapping round trips;
    per aligned window of the ARRIVAL instant no more than global_limit requests reach the sinks, and every request is
    forwarded or dropped exactly once"""
    import json
    import random
    from collections import Counter
    n_eval, bad = 0, {}
    for case in range(n_cases):
        rng = random.Random(seed * 100003 + case)
        limit, W = rng.choice([1, 2, 3, 5]), rng.choice([0.5, 1.0])
        kv = KVStore("kv", read_latency=rng.choice([0.0, 0.001, 0.01]), write_latency=rng.choice([0.0, 0.001, 0.005, 0.02]))
        sinks = [Sink(f"d{i}") for i in range(rng.randint(1, 3))]
        rls = [DistributedRateLimiter(f"rl{i}", downstream=d, backing_store=kv, global_limit=limit, window_size=W)
               for i, d in enumerate(sinks)]
        seen = []
        for d in sinks:
            d.handle_event = (lambda e, d=d: seen.append((e.context.get("arrived"), d.name)))
        sim = Simulation(entities=[kv, *sinks, *rls], end_time=Instant.from_seconds(10))
        t, n = 0.0, rng.randint(3, 25)
        for k in range(n):
            t += rng.choice([0.0, 0.0, 0.0005, 0.001, 0.004, 0.03, 0.2])
            sim.schedule(Event(time=Instant.from_seconds(t), event_type="req", target=rng.choice(rls),
                               context={"arrived": t}))
        sim.run()
        n_eval += n
        per_window = Counter(int(Instant.from_seconds(a).to_seconds() // W) for a, _ in seen)
        if any(v > limit for v in per_window.values()):
            bad.setdefault("more than global_limit requests of one window forwarded",
                           {"limit": limit, "window": W, "forwarded_per_window": dict(per_window), "seed": seed, "case_no": case})
        st = [r.stats for r in rls]
        if sum(x.requests_forwarded + x.requests_dropped for x in st) != n or sum(x.requests_forwarded for x in st) != len(seen):
            bad.setdefault("a request was not forwarded-or-dropped exactly once",
                           {"arrivals": n, "forwarded": len(seen), "stats": [str(x) for x in st], "seed": seed, "case_no": case})
    print(json.dumps({"evaluations": n_eval, "violations": [{"case": k, **v} for k, v in sorted(bad.items())]}))


if "--json" in sys.argv:
    a = [x for x in sys.argv[1:] if not x.startswith("--")]
    bounded(int(a[0]) if a else 60, int(a[1]) if len(a) > 1 else 0)
    sys.exit(0)

ok = True
ok &= run(1, [0.1 + 0.001 * i for i in range(10)])      # overlapping round trips, one limiter
ok &= run(2, [0.1 + 0.001 * i for i in range(10)])      # two limiters sharing the store
ok &= run(1, [0.1] * 10)                                # a burst at one instant
ok &= run(1, [0.1 + 0.01 * i for i in range(10)])       # round trips do not overlap: exact
print("limit respected" if ok else "OVER-ADMISSION: more than global_limit requests forwarded in one window")
sys.exit(0 if ok else 1)

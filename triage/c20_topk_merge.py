"""Observation outside C20's statement (the property claims merging only for Bloom / Count-Min / HyperLogLog):
TopK.merge breaks the space-saving bracket  count - error <= true <= count  for an item that self tracks and
other has seen but evicted: other's occurrences of it are lost while its reported error stays 0."""
from happysimulator.sketching.topk import TopK

a, b = TopK(k=2), TopK(k=2)
for _ in range(10):
    a.add("y")
for x in ["y", "p", "p", "q", "q"]:      # b evicts y (true count 1 in b)
    b.add(x)
a.merge(b)
e = a.estimate_with_error("y")
print("true count of y: 11, estimate:", e.count, "reported error:", e.error)
raise SystemExit(0 if e.count - e.error <= 11 <= e.count else 1)

"""C20 native reproduction (float level): merging two centroids with EQUAL means yields a mean one ulp away
((v*c1 + v*c2)/(c1+c2) != v in floats), so a t-digest of a constant stream reports quantiles outside
[min, max] and quantile(q) is not monotone in q."""
from happysimulator.sketching.tdigest import TDigest

v = 1.6752325688574499
td = TDigest(compression=5.0)
for _ in range(300):
    td.add(v)
qs = [i / 50 for i in range(51)]
out = [td.quantile(q) for q in qs]
outside = [(q, o) for q, o in zip(qs, out) if not (td.min <= o <= td.max)]
drops = [(qa, qb, a, b) for qa, qb, a, b in zip(qs, qs[1:], out, out[1:]) if a > b]
print("min == max ==", td.min, td.max)
print("quantiles outside [min, max]:", outside[:3], "...", len(outside))
print("decreasing steps:", drops[:3], "...", len(drops))
raise SystemExit(1 if outside or drops else 0)

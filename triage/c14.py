from happysimulator import Simulation, Event, Instant, Entity
from happysimulator.components.storage.lsm_tree import LSMTree
from happysimulator.components.storage.wal import WriteAheadLog
res=[]
lsm=LSMTree('lsm', memtable_size=2, sstable_write_latency=0.5)
class Wr(Entity):
    def handle_event(self, e):
        yield from lsm.put('k1','v1')
        yield from lsm.put('k2','v2')      # fills memtable -> flush, 0.5s write latency
class Rd(Entity):
    def handle_event(self, e):
        v = yield from lsm.get('k1')
        res.append((round(self.now.to_seconds(),3), v))
w=Wr('w'); r=Rd('r')
sim=Simulation(entities=[w,r,lsm], end_time=Instant.from_seconds(3))
sim.schedule(Event(time=Instant.from_seconds(0), event_type='go', target=w))
for t in (0.2, 0.4, 1.0): sim.schedule(Event(time=Instant.from_seconds(t), event_type='rd', target=r))
sim.run(); print('reads of k1 during/after flush:', res)

"""C08 finding: PooledCycleResource hands a freed unit to the head of its queue by RE-SENDING the item to itself.

Between that re-send and its delivery (same instant) an ordinary arrival that was scheduled earlier is delivered first,
finds the unit free and takes it.  The waiting item is then (a) queued again BEHIND later arrivals (FIFO violated), or
(b) REJECTED when the bounded queue has filled up meanwhile - although it had been accepted and had waited.
Run: PYTHONPATH=/repo /venv/bin/python triage/c08_pooled_cycle_overtake.py    exit 1 = defect present, 0 = absent."""
import sys

from happysimulator import Event, Instant, Simulation
from happysimulator.core.entity import Entity
from happysimulator.components.industrial.pooled_cycle import PooledCycleResource


class Sink(Entity):
    def __init__(self):
        super().__init__("sink")
        self.got = []

    def handle_event(self, event):
        self.got.append((self.now.to_seconds(), event.context["n"]))
        return []


class Relay(Entity):
    """forwards what it gets 0.5 s later (so the forwarded event is CREATED during the run, at t = 0.5)"""

    def __init__(self, target):
        super().__init__("relay")
        self.target = target

    def handle_event(self, event):
        return [Event(time=self.now + 0.5, event_type="item", target=self.target, context=event.context)]


def run(queue_capacity, late):
    sink = Sink()
    pool = PooledCycleResource("pool", pool_size=1, cycle_time=1.0, downstream=sink, queue_capacity=queue_capacity)
    relay = Relay(pool)
    sim = Simulation(entities=[pool, relay, sink], end_time=Instant.from_seconds(50))
    sim.schedule(Event(time=Instant.from_seconds(0.0), event_type="item", target=pool, context={"n": "A"}))
    sim.schedule(Event(time=Instant.from_seconds(0.25), event_type="item", target=pool, context={"n": "B"}))   # waits
    for n in late:                                   # arrive at the pool at t = 1.0, the instant A completes
        sim.schedule(Event(time=Instant.from_seconds(0.5), event_type="item", target=relay, context={"n": n}))
    sim.run()
    return sink.got, pool.rejected


bad = False
got, rej = run(0, ["C"])
print("unbounded queue: completions", got, "rejected", rej)
order = [n for _, n in got]
if order.index("C") < order.index("B"):
    print("DEFECT: C (arrived 1.0) was served before B (waiting since 0.25): FIFO violated")
    bad = True
got, rej = run(1, ["C", "D"])
print("queue_capacity=1: completions", got, "rejected", rej)
if "B" not in [n for _, n in got]:
    print("DEFECT: B was accepted into the queue at 0.25, taken out at 1.0 and then rejected")
    bad = True
sys.exit(1 if bad else 0)

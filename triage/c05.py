import logging, warnings
warnings.simplefilter("ignore")
logging.basicConfig(level=logging.WARNING)
from happysimulator import Simulation, Event, Instant, Entity
from happysimulator.parallel import ParallelSimulation, SimulationPartition, PartitionLink
def model():
    logs={'a':[], 'b':[]}
    class B(Entity):
        def handle_event(self, e): logs['b'].append((round(self.now.to_seconds(),3), e.event_type))
    b=B('b')
    class A(Entity):
        def __init__(s,n): super().__init__(n); s.peer=b
        def handle_event(self, e):
            logs['a'].append((round(self.now.to_seconds(),3), e.event_type))
            return [Event(time=self.now+0.1, event_type='from-a', target=self.peer)]
    a=A('a')
    return a,b,logs
# sequential reference
a,b,logs=model()
sim=Simulation(entities=[a,b], end_time=Instant.from_seconds(1))
sim.schedule(Event(time=Instant.from_seconds(0.05), event_type='kick', target=a))
sim.schedule(Event(time=Instant.from_seconds(0.55), event_type='own', target=b))
sim.run(); print('sequential', logs)
a,b,logs=model()
ps=ParallelSimulation([SimulationPartition('pa',entities=[a]), SimulationPartition('pb',entities=[b])],
    end_time=Instant.from_seconds(1), links=[PartitionLink('pa','pb',min_latency=0.1)])
ps.schedule(Event(time=Instant.from_seconds(0.05), event_type='kick', target=a), partition='pa')
ps.schedule(Event(time=Instant.from_seconds(0.55), event_type='own', target=b), partition='pb')
ps.run(); print('parallel  ', logs)

"""C08 finding candidate: ShiftedServer re-schedules the same shift change for ever when a shift boundary is not a
whole number of nanoseconds.  _schedule_next_shift() asks the schedule for the next transition strictly after
now.to_seconds() and schedules it at Instant.from_seconds(t), which truncates to whole ns: for t = 0.1 + 0.2
(0.30000000000000004 s) the event lands on 300000000 ns = 0.3 s < t, so at that event the "next" transition is t again.
Run: PYTHONPATH=/repo python triage/c08_shift_livelock.py     (bounded to 2000 shift events here)"""
from happysimulator import Event, Instant, Simulation, Sink
from happysimulator.components.industrial import Shift, ShiftSchedule, ShiftedServer

n = [0]


class Counting(ShiftedServer):
    def _handle_shift_change(self):
        n[0] += 1
        if n[0] >= 2000:
            raise SystemExit(f"LIVELOCK: {n[0]} shift-change events, clock still at {self.now.nanoseconds} ns")
        return super()._handle_shift_change()


sink = Sink("sink")
srv = Counting("s", ShiftSchedule([Shift(0.1 + 0.2, 5.0, 1)], default_capacity=0), service_time=1.0, downstream=sink)
sim = Simulation(entities=[srv, sink], end_time=Instant.from_seconds(20))
sim.schedule(Event(time=Instant.from_seconds(0.1), event_type="job", target=srv))
sim.schedule(Event(time=Instant.from_seconds(8.0), event_type="job", target=srv))
sim.run()
print("ok: shift changes", n[0], "processed", srv.processed)

"""C16 / PageCache._evict_one picks the LRU page, waits for its write-back (yield) and then deletes it by id: two
processes that need room at the same time pick the SAME dirty page; the second `del self._pages[oldest_id]` raises
KeyError (crash inside read_page / write_page).  Exit 1 on the crash."""
import sys
from happysimulator import Simulation, Event, Instant, Entity
from happysimulator.components.infrastructure.page_cache import PageCache

pc = PageCache("pc", capacity_pages=1, disk_read_latency_s=0.01, disk_write_latency_s=0.1)
out = []


class Proc(Entity):
    def handle_event(self, e):
        try:
            yield from pc.write_page(e.context["page"])
            out.append(("wrote", e.context["page"], "cached", pc.pages_cached))
        except KeyError as ex:
            out.append(("write_page raised", repr(ex)))


a, b, c = Proc("a"), Proc("b"), Proc("c")
sim = Simulation(entities=[pc, a, b, c], end_time=Instant.from_seconds(5))
sim.schedule(Event(time=Instant.from_seconds(0.0), event_type="w", target=a, context={"page": 1}))   # page 1 dirty
sim.schedule(Event(time=Instant.from_seconds(1.0), event_type="w", target=b, context={"page": 2}))   # evicts 1: write-back 0.1 s
sim.schedule(Event(time=Instant.from_seconds(1.05), event_type="w", target=c, context={"page": 3}))  # also picks page 1
sim.run()
print(out)
bad = any(o[0] == "write_page raised" for o in out)
print("VIOLATION: eviction crashed with KeyError" if bad else "ok")
sys.exit(1 if bad else 0)

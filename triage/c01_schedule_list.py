"""C01 bounded stand-in: the event heap keeps its OWN storage - a list handed to Simulation.schedule() / EventHeap.push()
stays the caller's.  Mutating that list afterwards (clear / append / reverse / element replaced), with tracing on or off,
with an empty or non-empty heap, must not change which events are delivered.  (Container aliasing is outside the deductive
engine's reach: containers have value semantics there.)

usage: c01_schedule_list.py [--json]   exit 0 = every scenario delivers exactly the scheduled events once, in key order
"""
import itertools
import json
import sys
import warnings

warnings.simplefilter("ignore")


def run():
    from happysimulator import Entity, Event, Instant, Simulation
    bad, n = [], 0
    for size, pre, mutation, daemons in itertools.product((1, 2, 3, 6), (0, 2), ("none", "clear", "append", "reverse", "replace"),
                                                          (False, True)):
        n += 1
        got = []

        class Rec(Entity):
            def handle_event(self, ev):
                got.append((ev.time.nanoseconds, ev.event_type))
                return None
        r = Rec("r")
        sim = Simulation(entities=[r], end_time=Instant.from_seconds(100))
        want = []
        for i in range(pre):                      # heap not empty when the list arrives
            sim.schedule(Event(time=Instant.from_seconds(0.5 + i), event_type=f"pre{i}", target=r))
            want.append((int((0.5 + i) * 1e9), f"pre{i}"))
        batch = [Event(time=Instant.from_seconds((7 * i) % 5 + 1), event_type=f"e{i}", target=r, daemon=daemons and i % 2 == 1)
                 for i in range(size)]
        want += [(e.time.nanoseconds, e.event_type) for e in batch]
        sim.schedule(batch)
        extra = Event(time=Instant.from_seconds(9), event_type="never-scheduled", target=r)
        if mutation == "clear":
            batch.clear()
        elif mutation == "append":
            batch.append(extra)
        elif mutation == "reverse":
            batch.reverse()
        elif mutation == "replace" and batch:
            batch[0] = extra
        sim.run()
        if sorted(got) != sorted(want) or got != sorted(got, key=lambda x: x[0]):
            bad.append({"case": "scheduled-list-aliased-by-the-heap", "size": size, "already_pending": pre, "mutation": mutation,
                        "daemons": daemons, "delivered": got, "scheduled": sorted(want)})
    return {"evaluations": n, "violations": bad[:5]}


if __name__ == "__main__":
    r = run()
    if "--json" in sys.argv:
        print(json.dumps(r))
        sys.exit(0)
    for v in r["violations"]:
        print(v)
    print(r["evaluations"], "scenarios,", len(r["violations"]), "violations")
    sys.exit(1 if r["violations"] else 0)

"""C08 finding: BatchProcessor(batch_size=1, timeout_s>0) builds batches of TWO.

handle_event arms the flush timeout for the first buffered item and returns BEFORE the full-batch test, so with
batch_size == 1 the first item is not started (it waits for the timeout although it completes a batch), and the second
item starts a batch of two items > batch_size.  Run: PYTHONPATH=/repo /venv/bin/python triage/c08_batch_of_one.py
exit 1 = defect present, 0 = absent."""
import sys

from happysimulator import Event, Instant, Simulation
from happysimulator.core.entity import Entity
from happysimulator.components.industrial.batch_processor import BatchProcessor


class Sink(Entity):
    def __init__(self):
        super().__init__("sink")
        self.got = []

    def handle_event(self, event):
        self.got.append((self.now.to_seconds(), event.context.get("n")))
        return []


sink = Sink()
bp = BatchProcessor("bp", downstream=sink, batch_size=1, process_time=1.0, timeout_s=10.0)
sim = Simulation(entities=[bp, sink], end_time=Instant.from_seconds(100))
for n, t in enumerate([1.0, 2.0, 5.0]):
    sim.schedule(Event(time=Instant.from_seconds(t), event_type="item", target=bp, context={"n": n}))
sim.run()
print("deliveries (time, item):", sink.got)
print("batches:", bp.batches_processed, "items:", bp.items_processed, "batch_size:", bp.batch_size)
# batch_size == 1: every item is its own batch, started when it arrives: completions at 2.0, 3.0, 6.0 in 3 batches
expected = [(2.0, 0), (3.0, 1), (6.0, 2)]
bad = sink.got != expected or bp.batches_processed != 3
print("DEFECT: a batch exceeded batch_size / an item that completes a batch waited" if bad else "ok")
sys.exit(1 if bad else 0)

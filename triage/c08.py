from happysimulator import Simulation, Event, Instant, Entity, Server, Sink
from happysimulator.distributions.constant import ConstantLatency
from happysimulator.components.server.concurrency import WeightedConcurrency
# burst of 3 at one instant, concurrency 2, service 1s
starts=[]
sink=Sink('sink')
class Srv(Server):
    def handle_queued_event(self, e):
        starts.append((e.context['metadata'].get('tag'), round(self.now.to_seconds(),3)))
        return (yield from super().handle_queued_event(e))
s=Srv('s', concurrency=2, service_time=ConstantLatency(1.0), downstream=sink)
sim=Simulation(entities=[s,sink], end_time=Instant.from_seconds(10))
for tag in 'abc':
    sim.schedule(Event(time=Instant.from_seconds(1), event_type='req', target=s, context={'metadata':{'tag':tag}}))
sim.run(); print('burst starts', starts, 'completed', s.stats.requests_completed, 'rejected', s.stats.requests_rejected)
# weighted
starts.clear()
s=Srv('s', concurrency=WeightedConcurrency(10), service_time=ConstantLatency(1.0), downstream=sink)
sim=Simulation(entities=[s,sink], end_time=Instant.from_seconds(10))
for i,tag in enumerate('abc'):
    sim.schedule(Event(time=Instant.from_seconds(1+0.1*i), event_type='req', target=s, context={'metadata':{'tag':tag,'weight':6}}))
sim.run(); print('weighted starts', starts, 'completed', s.stats.requests_completed, 'rejected', s.stats.requests_rejected, 'queue dropped', s.stats_dropped, 'depth', s.depth)

"""C07 repro: CacheWarmer.start_warming() stamps its kick-off event Instant.Epoch ("will be scheduled at current
time"), so a warm-up started once the run is under way (e.g. after a cache flush at t=5 s) is in the past when it
is handed to the engine: "Time travel detected ... cache_warm", the warmer never runs.
Run: cd /repo && /venv/bin/python /verif/triage/c07_cache_warmer_midrun.py"""
import logging
from happysimulator import Simulation, Instant, Event, Entity
from happysimulator.components.datastore import KVStore, CachedStore, LRUEviction
from happysimulator.components.datastore.cache_warming import CacheWarmer

warnings = []


class _Grab(logging.Handler):
    def emit(self, record):
        if "Time travel" in record.getMessage():
            warnings.append(record.getMessage()[:120])


logging.getLogger("happysimulator").addHandler(_Grab())
logging.getLogger("happysimulator").setLevel(logging.WARNING)

store = KVStore("db")
for i in range(5):
    store._data[f"k{i}"] = i if hasattr(store, "_data") else None
cache = CachedStore("cache", backing_store=store, cache_capacity=10, eviction_policy=LRUEviction())
warmer = CacheWarmer("warmer", cache=cache, keys_to_warm=[f"k{i}" for i in range(5)])


class Operator(Entity):
    """decides at t=5 s to (re)warm the cache"""
    def handle_event(self, event):
        return [warmer.start_warming()]


op = Operator("operator")
sim = Simulation(entities=[store, cache, warmer, op], end_time=Instant.from_seconds(20.0))
sim.schedule(Event(time=Instant.from_seconds(5.0), event_type="rewarm", target=op))
sim.run()
print("warm-up started:", warmer.is_started, " completed:", warmer.is_complete, " keys warmed:", warmer.stats.keys_warmed, "/ 5")
print("engine warnings:", warnings)
assert warmer.is_complete, "warm-up kick-off event was discarded as time travel"

"""C02 bounded stand-in: completion hooks of a generator process fire exactly once, at the completion instant, whenever they
were attached - before the run, during a delay of the process, while it is parked on a future, or by the generator body
itself - and whether or not the event had hooks when its process started (the hook list travels with the process).

usage: c02_inflight_hooks.py [--json]   exit 0 = every scenario fires each hook exactly once
"""
import itertools
import json
import sys
import warnings

warnings.simplefilter("ignore")


def run():
    from happysimulator import Entity, Event, Instant, Simulation
    from happysimulator.core.sim_future import SimFuture
    bad, n = [], 0
    waits = ("delay", "future", "delay+future")
    attach_points = ("before-run", "during-delay", "while-parked", "from-the-body")
    for wait, attach, n_initial in itertools.product(waits, attach_points, (0, 1, 2)):
        if attach == "during-delay" and "delay" not in wait:
            continue
        if attach == "while-parked" and "future" not in wait:
            continue
        n += 1
        fired = []
        fut = SimFuture()

        def hook(name):
            def h(t, name=name):
                fired.append((name, t.nanoseconds))
                return None
            return h

        class Worker(Entity):
            def handle_event(self, ev):
                if attach == "from-the-body":
                    ev.add_completion_hook(hook("late"))
                if "delay" in wait:
                    yield 1.0
                if "future" in wait:
                    yield fut
                return None

        class Helper(Entity):
            def handle_event(self, ev):
                kind = ev.context["metadata"]["do"]
                if kind == "attach":
                    job.add_completion_hook(hook("late"))
                elif kind == "resolve":
                    fut.resolve(1)
                return None
        w, h = Worker("w"), Helper("h")
        job = Event(time=Instant.from_seconds(1.0), event_type="job", target=w)
        for i in range(n_initial):
            job.add_completion_hook(hook(f"init{i}"))
        if attach == "before-run":
            job.add_completion_hook(hook("late"))
        sim = Simulation(entities=[w, h], end_time=Instant.from_seconds(20))
        sim.schedule(job)
        done_at = 1.0
        if "delay" in wait:
            done_at += 1.0
            if attach == "during-delay":
                sim.schedule(Event(time=Instant.from_seconds(1.5), event_type="x", target=h, context={"metadata": {"do": "attach"}}))
        if "future" in wait:
            if attach == "while-parked":
                sim.schedule(Event(time=Instant.from_seconds(done_at + 0.5), event_type="x", target=h, context={"metadata": {"do": "attach"}}))
            done_at += 1.0
            sim.schedule(Event(time=Instant.from_seconds(done_at), event_type="x", target=h, context={"metadata": {"do": "resolve"}}))
        sim.run()
        want = sorted([(f"init{i}", int(done_at * 1e9)) for i in range(n_initial)] + [("late", int(done_at * 1e9))])
        if sorted(fired) != want:
            bad.append({"case": "completion-hook-not-fired-exactly-once-at-completion", "wait": wait, "attached": attach,
                        "hooks_at_start": n_initial, "fired": sorted(fired), "want": want})
    return {"evaluations": n, "violations": bad[:6]}


if __name__ == "__main__":
    r = run()
    if "--json" in sys.argv:
        print(json.dumps(r))
        sys.exit(0)
    for v in r["violations"]:
        print(v)
    print(r["evaluations"], "scenarios,", len(r["violations"]), "violations")
    sys.exit(1 if r["violations"] else 0)

"""C10 native reproduction: AdaptivePolicy admits a burst above the bucket bound of its CURRENT rate
after a failure feedback lowered the rate (stale tokens are only capped when time advances)."""
import sys
from happysimulator.core.temporal import Instant
from happysimulator.components.rate_limiter.policy import AdaptivePolicy
p = AdaptivePolicy(initial_rate=100.0, min_rate=1.0, max_rate=1000.0, window_size=1.0)
t0 = Instant.from_seconds(5.0)
p.try_acquire(t0)                       # starts the refill clock, spends one token
p.record_failure(t0)                    # rate 100 -> 50: bucket capacity is now 50 tokens
n = sum(1 for _ in range(200) if p.try_acquire(t0))
bound = p.current_rate * 1.0 + p.current_rate * 0.0
print("current_rate", p.current_rate, "admitted at the same instant after the decrease:", n, "bound of current rate:", bound)
sys.exit(1 if n > bound else 0)

from happysimulator import Simulation, Event, Instant, Entity
from happysimulator.components.datastore.cached_store import CachedStore
from happysimulator.components.datastore.kv_store import KVStore
from happysimulator.components.datastore.eviction_policies import LRUEviction
import inspect
print(inspect.signature(CachedStore.__init__))
kv=KVStore('kv', read_latency=0.1, write_latency=0.1)
cs=CachedStore('cs', backing_store=kv, cache_capacity=1, eviction_policy=LRUEviction(), write_through=False)
out=[]
class A(Entity):
    def handle_event(self, e):
        yield from cs.put('a','A1')      # write-back: dirty in cache only
        yield from cs.put('b','B1')      # evicts 'a' (capacity 1)
        n = yield from cs.flush()
        va = yield from cs.get('a')
        out.append(('flush wrote', n, 'get a ->', va, 'backing a', kv.get_sync('a')))
a=A('A'); sim=Simulation(entities=[a,cs,kv], end_time=Instant.from_seconds(5))
sim.schedule(Event(time=Instant.from_seconds(0), event_type='go', target=a)); sim.run(); print(out)
# stale fill vs concurrent write (write-through)
kv=KVStore('kv', read_latency=0.2, write_latency=0.05); kv.put_sync('k','old')
cs=CachedStore('cs', backing_store=kv, cache_capacity=10, eviction_policy=LRUEviction(), write_through=True)
out=[]
class R(Entity):
    def handle_event(self, e):
        v = yield from cs.get('k'); out.append(('get@', round(self.now.to_seconds(),3), v))
class W(Entity):
    def handle_event(self, e):
        yield from cs.put('k','new'); out.append(('put done@', round(self.now.to_seconds(),3)))
r=R('r'); w=W('w'); sim=Simulation(entities=[r,w,cs,kv], end_time=Instant.from_seconds(5))
sim.schedule(Event(time=Instant.from_seconds(0.0), event_type='rd', target=r))     # miss, fetch takes 0.2: reads at 0.2?
sim.schedule(Event(time=Instant.from_seconds(0.1), event_type='wr', target=w))     # put completes 0.15
sim.schedule(Event(time=Instant.from_seconds(1.0), event_type='rd', target=r))     # read long after the write completed
sim.run(); print(out, 'backing', kv.get_sync('k'))

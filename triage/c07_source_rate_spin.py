"""C07 repro: a Source whose inter-arrival gap is below 1 ns (rate=inf, rate=2e9) re-fires at a frozen clock forever.
Run: cd /repo && /venv/bin/python /verif/triage/c07_source_rate_spin.py inf   (also: 2e9, 0, -1)"""
import sys, signal
from happysimulator import *
from happysimulator.load.source import Source
from happysimulator.core.entity import Entity
class Sink(Entity):
    def __init__(s): super().__init__("sink"); s.n=0; s.last=None
    def handle_event(s, e): s.n+=1; s.last=e.time
rate=float(sys.argv[1])
sink=Sink()
src=Source.constant(rate=rate, target=sink, stop_after=1.0)
sim=Simulation(sources=[src], entities=[sink], end_time=Instant.from_seconds(2.0))
def bail(*a):
    print("TIMEOUT after 10 s wall: clock =", sim._clock.now if hasattr(sim,'_clock') else None, "sink received", sink.n, "last", sink.last); sys.exit(1)
signal.signal(signal.SIGALRM, bail); signal.alarm(10)
sim.run()
print("finished: received", sink.n, "last", sink.last)

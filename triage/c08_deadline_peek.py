"""C08 finding: DeadlineQueue.peek() disagrees with pop() once the heap root has expired.
peek scans the heap LIST in array order and returns the first live entry; past the root the array is not in deadline
order, so it can announce an item that pop() (which re-heapifies while discarding expired roots) does not return.
Run: PYTHONPATH=/repo python triage/c08_deadline_peek.py     prints `peek 5 pop 3` on the pinned tree."""
from happysimulator.components.queue_policies import DeadlineQueue
from happysimulator.core.temporal import Instant

now = [Instant.from_seconds(0)]
q = DeadlineQueue(get_deadline=lambda x: Instant.from_seconds(x), clock_func=lambda: now[0])
for d in (1, 5, 3):
    q.push(d)
now[0] = Instant.from_seconds(2)            # the entry with deadline 1 has expired
p = q.peek()
print("peek", p, "pop", q.pop())

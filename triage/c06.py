import logging
from happysimulator import Simulation, Event, Instant, Entity, Source
from happysimulator.faults import FaultSchedule, CrashNode, PauseNode, InjectLatency, InjectPacketLoss, NetworkPartition, ReduceCapacity
from happysimulator.components.network.network import Network
from happysimulator.components.network.link import NetworkLink
from happysimulator.components.resource import Resource
from happysimulator.distributions.constant import ConstantLatency
# (2) overlapping crash windows
log=[]
class X(Entity):
    def handle_event(self, e): log.append(round(self.now.to_seconds(),2))
x=X('x'); fs=FaultSchedule()
fs.add(CrashNode('x', at=1.5, restart_at=3.5)); fs.add(PauseNode('x', start=2.5, end=5.5))
src=Source.constant(rate=1, target=x, event_type='r')
Simulation(sources=[src], entities=[x], end_time=Instant.from_seconds(7), fault_schedule=fs).run()
print('overlap crash[1.5,3.5]+pause[2.5,5.5] handled at', log, '(expected none in (1.5,5.5))')
# (6) cancel before start
log.clear(); x=X('x'); fs=FaultSchedule(); h=fs.add(CrashNode('x', at=1.5, restart_at=3.5)); h.cancel()
src=Source.constant(rate=1, target=x, event_type='r')
Simulation(sources=[src], entities=[x], end_time=Instant.from_seconds(5), fault_schedule=fs).run()
print('cancelled-before-start handled at', log, '(expected 1..5 all)')
# (3) overlapping latency windows: probe link.latency over time
net=Network(name='net'); a=X('a'); b=X('b')
link=NetworkLink(name='l', latency=ConstantLatency(0.01)); net.add_link(a,b,link)
fs=FaultSchedule()
fs.add(InjectLatency('a','b',extra_ms=100,start=1,end=3)); fs.add(InjectLatency('a','b',extra_ms=50,start=2,end=5))
fs.add(InjectPacketLoss('a','b',loss_rate=0.5,start=1,end=3)); fs.add(InjectPacketLoss('a','b',loss_rate=0.25,start=2,end=5))
obs=[]
class P(Entity):
    def handle_event(self, e):
        obs.append((round(self.now.to_seconds(),2), round(link.latency.get_latency(self.now).to_seconds(),3), link.packet_loss_rate))
p=P('p'); src=Source.constant(rate=2, target=p, event_type='probe')
Simulation(sources=[src], entities=[p,net,a,b], end_time=Instant.from_seconds(6), fault_schedule=fs).run()
print('latency/loss over time', obs)
# (4) overlapping partitions
net=Network(name='net'); a=X('a'); b=X('b'); c=X('c')
fs=FaultSchedule(); fs.add(NetworkPartition(['a'],['b','c'],start=1,end=3)); fs.add(NetworkPartition(['a','c'],['b'],start=2,end=5))
obs=[]
class P2(Entity):
    def handle_event(self, e): obs.append((round(self.now.to_seconds(),2), net.is_partitioned('a','b')))
p=P2('p'); src=Source.constant(rate=2, target=p, event_type='probe')
Simulation(sources=[src], entities=[p,net,a,b,c], end_time=Instant.from_seconds(6), fault_schedule=fs).run()
print('a-b partitioned over time', obs)
# (5) reduce capacity with holders
r=Resource('r', capacity=10); obs=[]
class H(Entity):
    def handle_event(self, e):
        g = yield r.acquire(8)
        yield 4.0
        g.release()
        obs.append(('released', self.now.to_seconds(), r.available, r.capacity))
hh=H('h'); fs=FaultSchedule(); fs.add(ReduceCapacity('r', factor=0.5, start=1, end=2))
sim=Simulation(entities=[hh,r], end_time=Instant.from_seconds(6), fault_schedule=fs)
sim.schedule(Event(time=Instant.from_seconds(0.1), event_type='go', target=hh))
try:
    sim.run(); print('reduce capacity', obs, 'available', r.available, 'capacity', r.capacity)
except Exception as ex: print('reduce capacity raised', type(ex).__name__, ex, 'available', r.available)

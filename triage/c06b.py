"""C06 native reproductions (public API only):
 (1) an in-flight generator process keeps advancing and logging while its entity is crashed;
 (7) a queue-fronted entity (QueuedResource) keeps running queued work while crashed.
Run: PYTHONPATH=<repo> /venv/bin/python triage/c06b.py
"""
from happysimulator import Simulation, Event, Instant, Entity
from happysimulator.faults import FaultSchedule, CrashNode
from happysimulator.components.queued_resource import QueuedResource

# (1) process in flight at the crash instant
log = []


class P(Entity):
    def handle_event(self, e):
        for _ in range(6):
            yield 1.0
            log.append(round(self.now.to_seconds(), 2))


p = P("p")
fs = FaultSchedule()
fs.add(CrashNode("p", at=1.5, restart_at=4.5))
sim = Simulation(entities=[p], end_time=Instant.from_seconds(10), fault_schedule=fs)
sim.schedule(Event(time=Instant.from_seconds(0.0), event_type="go", target=p))
sim.run()
bad = [t for t in log if 1.5 < t < 4.5]
print("(1) process steps logged at", log, "-> steps inside the crash window (1.5, 4.5):", bad,
      "VIOLATION" if bad else "ok")

# (7) queue-fronted target
qlog = []


class S(QueuedResource):
    busy = False

    def has_capacity(self):
        return not self.busy

    def handle_queued_event(self, e):
        self.busy = True
        qlog.append(("start", round(self.now.to_seconds(), 2)))
        yield 1.0
        self.busy = False


s = S("s")
fs = FaultSchedule()
fs.add(CrashNode("s", at=2.5, restart_at=8.5))
sim = Simulation(entities=[s], end_time=Instant.from_seconds(12), fault_schedule=fs)
for i in range(6):
    sim.schedule(Event(time=Instant.from_seconds(1.0 + 0.01 * i), event_type="r", target=s))
sim.run()
bad = [t for (_, t) in qlog if 2.5 < t < 8.5]
print("(7) queued work started at", [t for _, t in qlog], "-> inside the crash window (2.5, 8.5):", bad,
      "VIOLATION" if bad else "ok")

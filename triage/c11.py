# Drive a real 3-node Raft cluster through a real Simulation with a Network whose per-link latency we choose,
# so that B's RequestVote(term 1) reaches C after A's first heartbeat of term 1.
import random
from happysimulator import Simulation, Event, Instant, Entity
from happysimulator.components.consensus.raft import RaftNode, RaftState
from happysimulator.components.network.network import Network
from happysimulator.components.network.link import NetworkLink
from happysimulator.distributions.constant import ConstantLatency
net=Network(name='net')
A=RaftNode('A', net, election_timeout_min=10, election_timeout_max=10, heartbeat_interval=0.05)
B=RaftNode('B', net, election_timeout_min=10, election_timeout_max=10, heartbeat_interval=0.05)
C=RaftNode('C', net, election_timeout_min=10, election_timeout_max=10, heartbeat_interval=0.05)
for n,ps in ((A,[B,C]),(B,[A,C]),(C,[A,B])): n._peers=ps
lat={('A','B'):1.0,('B','A'):1.0,('A','C'):0.01,('C','A'):0.01,('B','C'):0.2,('C','B'):0.01}
ents={'A':A,'B':B,'C':C}
for (s,d),l in lat.items(): net.add_link(ents[s],ents[d],NetworkLink(name=f'{s}{d}',latency=ConstantLatency(l)))
leaders=[]
sim=Simulation(entities=[net,A,B,C], end_time=Instant.from_seconds(0.6))
sim.control.on_event(lambda e: [leaders.append((round(sim._current_time.to_seconds(),3), n.name, n._current_term)) for n in (A,B,C) if n._state==RaftState.LEADER and (n.name,n._current_term) not in [(x[1],x[2]) for x in leaders]])
# A and B both time out at t=0 (simultaneous candidates of term 1)
sim.schedule(Event(time=Instant.from_seconds(0), event_type='RaftElectionTimeout', target=A))
sim.schedule(Event(time=Instant.from_seconds(0), event_type='RaftElectionTimeout', target=B))
sim.run(); print('leaders (time, node, term):', leaders)

"""C20 native reproduction: HyperLogLog.merge accepts a sketch built with a different seed (Bloom and
Count-Min refuse that) and silently returns registers that are NOT the sketch of the concatenated
streams: the merged sketch differs from sketch(s1 ++ s2) under either seed, and the same items
sketched under two seeds are double counted."""
from happysimulator.sketching.hyperloglog import HyperLogLog

items = [f"user-{i}" for i in range(2000)]
a = HyperLogLog(precision=10, seed=1)
b = HyperLogLog(precision=10, seed=2)
ref = HyperLogLog(precision=10, seed=1)          # sketch of the concatenated stream (same items twice)
for x in items:
    a.add(x); b.add(x); ref.add(x); ref.add(x)
try:
    a.merge(b)
except ValueError as e:
    print("merge refused (repaired):", e)
    raise SystemExit(0)
same = a._registers == ref._registers
print("merged registers == registers of sketch(s1 ++ s2):", same)
print("cardinality merged:", a.cardinality(), " concatenated stream:", ref.cardinality(), " true distinct:", len(items))
raise SystemExit(0 if same else 1)

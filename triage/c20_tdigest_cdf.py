"""C20 / TDigest.cdf is not monotone: at value == the mean of a centroid (other than the first) the half weight
of that centroid, which the interpolation just below the mean has already counted, is dropped again.
Obligation: specs.C20.cdf_at_two_values / cdf-non-decreasing-in-the-value.  Repair: fixes/C20_tdigest_cdf_monotone.diff
exit 0 = monotone on the probe, 1 = defect present."""
from happysimulator.sketching.tdigest import TDigest

td = TDigest()
for v in [1.0, 2.0, 3.0]:
    td.add(v)
a, b = td.cdf(1.99), td.cdf(2.0)
print("cdf(1.99) =", a, " cdf(2.0) =", b)
bad = 0
prev = 0.0
for k in range(0, 4001):
    x = k / 1000.0
    c = td.cdf(x)
    if c < prev:
        bad += 1
    prev = c
print("decreasing steps on the grid 0..4 step 0.001:", bad)
raise SystemExit(1 if (a > b or bad) else 0)

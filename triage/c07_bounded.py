"""C07 bounded native stand-ins (clean interpreter, public API) for code the deductive engine does not reach.

  tcp      TCPConnection.send (random.random(), int() of the float window, a nested `for` with a suspension,
           a non-linear RTT): seeded configurations x congestion controls x loss rates; the transfer must finish,
           no process continuation or event may be discarded as time travel, and no instant may see more than
           CAP deliveries (a frozen-clock spin shows up as the watchdog firing or as the cap being exceeded).
  profile  the profile path of ArrivalTimeProvider.next_arrival_time (numerical integration + brentq) behind
           Source.with_profile: ticks never go back in time, nothing is discarded as time travel, the run ends.

usage: c07_bounded.py tcp|profile <n> <seed> [--json]      last stdout line (with --json): {"evaluations": n, "violations": [...]}
"""
import json
import logging
import random
import signal
import sys

CAP = 5000          # deliveries at one simulated instant


class _Grab(logging.Handler):
    def __init__(self):
        super().__init__(level=logging.WARNING)
        self.hits = []

    def emit(self, record):
        msg = record.getMessage()
        if "Time travel" in msg:
            self.hits.append(msg[:160])


class Watchdog(BaseException):
    """not an Exception: nothing in the library may swallow it"""


def _watchdog(seconds, what):
    def bail(*_a):
        raise Watchdog(f"watchdog: {what} still running after {seconds} s wall")
    signal.signal(signal.SIGALRM, bail)
    signal.alarm(seconds)


def tcp(n, seed):
    import numpy as np
    from happysimulator import Entity, Event, Instant, Simulation
    from happysimulator.components.infrastructure.tcp_connection import AIMD, BBR, Cubic, TCPConnection
    grab = _Grab()
    logging.getLogger("happysimulator").addHandler(grab)
    bad, cases = [], 0
    for i in range(n):
        rnd = random.Random(seed * 7919 + i)
        random.seed(seed * 31 + i)
        np.random.seed(seed * 31 + i)
        cc = rnd.choice([AIMD, Cubic, BBR])()
        loss = rnd.choice([0.0, 0.001, 0.05, 0.3, 0.9])
        size = rnd.choice([1, 1460, 1461, 65536, 500_000])
        cwnd = rnd.choice([1.0, 2.0, 10.0, 64.0])
        rtt = rnd.choice([0.0, 1e-6, 0.02, 0.05])
        rto = rnd.choice([0.0, 0.2, 1.0])
        conn = TCPConnection("conn", congestion_control=cc, base_rtt_s=rtt, loss_rate=loss, initial_cwnd=cwnd,
                             retransmit_timeout_s=rto)
        seen = {}

        class Driver(Entity):
            done = False

            def handle_event(self, event):
                yield from conn.send(size)
                Driver.done = True
                return []

        drv = Driver("driver")
        sim = Simulation(entities=[conn, drv], end_time=Instant.from_seconds(1e7))
        sim.schedule(Event(time=Instant.from_seconds(1.0), event_type="go", target=drv))
        cfg = {"cc": type(cc).__name__, "loss": loss, "size": size, "cwnd": cwnd, "base_rtt": rtt, "rto": rto, "case": i}
        grab.hits.clear()
        if len(bad) >= 2:
            break
        try:
            _watchdog(8, "tcp send")
            sim.run()
            signal.alarm(0)
        except Watchdog as exc:
            bad.append(dict(cfg, problem=str(exc), clock=str(sim._clock.now)))
            continue
        finally:
            signal.alarm(0)
        cases += 1
        if grab.hits:
            bad.append(dict(cfg, problem="discarded as time travel", detail=grab.hits[:2]))
        if not Driver.done:
            bad.append(dict(cfg, problem="send() did not finish", clock=str(sim._clock.now)))
        Driver.done = False
        del seen
    return {"evaluations": cases, "violations": bad[:5]}


def profile(n, seed):
    import numpy as np
    from happysimulator import Entity, Instant, Simulation
    from happysimulator.load.profile import LinearRampProfile, SpikeProfile
    from happysimulator.load.source import Source
    grab = _Grab()
    logging.getLogger("happysimulator").addHandler(grab)
    bad, cases, slow = [], 0, 0
    for i in range(n):
        rnd = random.Random(seed * 104729 + i)
        np.random.seed(seed * 17 + i)
        prof = rnd.choice([
            LinearRampProfile(duration_s=rnd.choice([0.5, 2.0]), start_rate=rnd.choice([0.0, 1.0, 50.0]),
                              end_rate=rnd.choice([10.0, 400.0])),
            SpikeProfile(baseline_rate=rnd.choice([1.0, 20.0]), spike_rate=rnd.choice([200.0, 1500.0]),
                         warmup_s=rnd.choice([0.1, 0.5]), spike_duration_s=0.3)])
        poisson = rnd.random() < 0.5

        class Sink(Entity):
            def __init__(self):
                super().__init__("sink")
                self.times, self.per_instant = [], {}

            def handle_event(self, event):
                t = event.time.nanoseconds
                self.times.append(t)
                self.per_instant[t] = self.per_instant.get(t, 0) + 1

        sink = Sink()
        src = Source.with_profile(prof, target=sink, poisson=poisson)
        sim = Simulation(sources=[src], entities=[sink], end_time=Instant.from_seconds(1.5))
        cfg = {"profile": repr(prof), "poisson": poisson, "case": i}
        grab.hits.clear()
        try:
            _watchdog(15, "profile source")
            sim.run()
        except Watchdog as exc:
            # the numerical integration of the profile path can take seconds of WALL time per arrival (not a C07
            # matter); a frozen simulated clock shows as ticks piling up on one instant
            if len(set(sink.times)) < 2 and len(sink.times) > CAP:
                bad.append(dict(cfg, problem=str(exc), clock=str(sim._clock.now)))
                continue
            slow += 1
        finally:
            signal.alarm(0)
        cases += 1
        if grab.hits:
            bad.append(dict(cfg, problem="tick discarded as time travel", detail=grab.hits[:2]))
        if any(b < a for a, b in zip(sink.times, sink.times[1:])):
            bad.append(dict(cfg, problem="arrival before the previous one"))
        if sink.per_instant and max(sink.per_instant.values()) > CAP:
            bad.append(dict(cfg, problem=f"more than {CAP} arrivals at one instant"))
    return {"evaluations": cases, "violations": bad[:5], "cut_short_by_the_wall_clock_watchdog": slow}


if __name__ == "__main__":
    args = [a for a in sys.argv[1:] if a != "--json"]
    which, n, seed = args[0], int(args[1]), int(args[2]) if len(args) > 2 else 0
    logging.getLogger("happysimulator").setLevel(logging.WARNING)
    res = {"tcp": tcp, "profile": profile}[which](n, seed)
    print(json.dumps(res))
    sys.exit(1 if res["violations"] else 0)

from happysimulator import Simulation, Event, Instant, Entity, Sink
from happysimulator.components.client.connection_pool import ConnectionPool
from happysimulator.distributions.constant import ConstantLatency
sink=Sink('t')
pool=ConnectionPool('pool', target=sink, max_connections=2, connection_latency=ConstantLatency(0.05))
peak=[0]
class W(Entity):
    def handle_event(self, e):
        c = yield from pool.acquire()
        peak[0]=max(peak[0], pool.active_connections)
        yield 1.0
        pool.release(c)
ws=[W(f'w{i}') for i in range(5)]
sim=Simulation(entities=ws+[pool,sink], end_time=Instant.from_seconds(5))
for w in ws: sim.schedule(Event(time=Instant.from_seconds(1), event_type='go', target=w))
sim.run(); print('max_connections=2 peak active', peak[0], 'total', pool.total_connections)

#!/bin/bash
# usage: tools/seed_official.sh <seed-id> <Cxx>  - the procedure of the brief, on /repo itself: git apply the seeded patch, run the
# registered quick command of the property (without rewriting evidence), undo the patch straight afterwards.
ID=$1; P=$2
git -C /repo diff --quiet || { echo "/repo has uncommitted changes"; exit 3; }
git -C /repo apply /verif/seeded/$ID/patch.diff || exit 3
OUT=$(cd /verif && ./check $P --tier quick --no-evidence 2>&1); RC=$?
git -C /repo checkout -- .
echo "$ID on /repo: ./check $P exit=$RC :: $(echo "$OUT" | grep -c '^VIOLATION') VIOLATION line(s); $(echo "$OUT" | tail -1 | cut -c1-160)"
git -C /repo diff --quiet && echo "  /repo clean again"

#!/bin/bash
# usage: tools/revert_probe.sh <Cxx> <commit> [<commit>...]  - for each fix commit: scratch copy of /repo with that commit
# reverted, run the check of <Cxx> against it, list the (task, obligation) pairs reported.  Shows that the check
# detects the defect the commit repaired.
P=$1; shift
for c in "$@"; do
  D=/var/tmp/rv_${P}_$c
  rm -rf $D; rsync -a --exclude .git --exclude __pycache__ /repo/ $D/
  if ! git -C /repo show $c -- happysimulator | (cd $D && patch -R -p1 -s); then echo "== $P $c: revert does not apply"; rm -rf $D; continue; fi
  echo "== $P revert $c: $(git -C /repo log -1 --format=%s $c)"
  PYVC_REPO=$D python3 /verif/tools/harvest.py $P 2>&1 | tail -12
  rm -rf $D
done

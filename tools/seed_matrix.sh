#!/bin/bash
# Re-runs every confirmed seeded change (seeded/<id>/) against the checks recorded in its meta.json with the CURRENT specs,
# 4 at a time, each in its own scratch worktree of /repo (tools/seed_eval.sh, suite run skipped: it was done when the change
# was confirmed).  Updates seeded/<id>/meta.json and prints one line per seed.
cd /verif
ls seeded | while read id; do
  checks=$(python3 -c "import json;m=json.load(open('seeded/$id/meta.json'));print(' '.join(m['checks'].keys()))")
  echo "$id $checks"
done | xargs -P 4 -L 1 bash -c 'SEED_SKIP_SUITE=1 tools/seed_eval.sh $0 seeded/$0 "$@" 2>&1 | tail -1'

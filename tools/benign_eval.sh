#!/bin/bash
# usage: tools/benign_eval.sh <k> <Cxx> [...]  - applies benign/benign-<k>.diff (a behaviour-preserving refactoring) to a scratch
# worktree of /repo and runs the named checks against it; a VIOLATION here would be a false alarm.
K=$1; shift; W=/tmp/bn_$K
git -C /repo worktree remove --force $W 2>/dev/null; git -C /repo worktree add -q --detach $W HEAD || exit 3
git -C $W apply /verif/benign/benign-$K.diff || { echo "benign-$K: patch does not apply"; git -C /repo worktree remove --force $W; exit 3; }
for P in "$@"; do
  OUT=$(cd /verif && PYVC_REPO=$W ./check $P --no-evidence 2>&1); RC=$?
  echo "benign-$K $P exit=$RC :: $(echo "$OUT" | grep -E '^(VIOLATION|UNDECIDED|OUT-OF-REACH|CHECKER-ERROR)' | cut -c1-160 | head -3 | tr '\n' ';')"
done
git -C /repo worktree remove --force $W

#!/usr/bin/env python3
"""Prints the markdown status tables for DESIGN.md from evidence/*.json, KNOWN_FINDINGS.json, seeded/*/meta.json."""
import glob
import json
import os

V = os.path.dirname(os.path.dirname(os.path.abspath(__file__)))
man = json.load(open(os.path.join(V, "MANIFEST.json")))
claimed = {c["property_id"] for c in man["checks"]}
props = [json.loads(l) for l in open(os.path.join(V, "properties.jsonl"))]
known = json.load(open(os.path.join(V, "KNOWN_FINDINGS.json")))["findings"]

print("| id | registered | functions | lemmas | obligations discharged | bounded stand-ins | solver s | open findings | fixed defects |")
print("|----|-----------|-----------|--------|------------------------|-------------------|----------|---------------|---------------|")
for p in props:
    pid = p["id"]
    ev = None
    f = os.path.join(V, "evidence", pid + ".json")
    if os.path.exists(f):
        ev = json.load(open(f))
    nopen = sum(1 for k in known if k["property"] == pid and k["status"] == "open")
    nfix = sum(1 for k in known if k["property"] == pid and k["status"] == "fixed")
    if ev is None:
        print(f"| {pid} | {'yes' if pid in claimed else 'no'} | - | - | - | - | - | {nopen} | {nfix} |")
        continue
    cov = ev.get("coverage", ev)
    funcs = cov.get("functions_under_contract") or []
    nb = cov.get("bounded_standins") or []
    print(f"| {pid} | {'yes' if pid in claimed else 'no'} | {len(funcs)} | {cov.get('lemmas', '-')} | "
          f"{cov.get('discharged', '-')}/{cov.get('obligations', '-')} | "
          f"{', '.join(b.get('fn', '?') for b in nb) or '-'} | {cov.get('solver_time_s', '-')} | {nopen} | {nfix} |")

print()
print("| seeded change | property | what it changes | needs | suite with patch | detected by |")
print("|---|---|---|---|---|---|")
for mf in sorted(glob.glob(os.path.join(V, "seeded", "*", "meta.json"))):
    m = json.load(open(mf))
    det = ", ".join(f"{k} ({'; '.join(v['violations'][:2])})" for k, v in m.get("checks", {}).items() if v["exit"] == 1)
    if not det and m.get("not_claimed_reason"):
        det = "not claimed as property-breaking: " + m["not_claimed_reason"][:160] + "..."
    if not det:
        und = [k for k, v in m.get("checks", {}).items() if v["exit"] in (2, 3)]
        det = (f"not decided: {', '.join(und)} exits 2 (the change is outside the contract's reach - no pass, no VIOLATION)"
               + (": " + m["undecided_reason"] if m.get("undecided_reason") else "")) if und else "MISSED (check passes)"
    print(f"| {m['id']} | {m['property']} | {m.get('change', '')} | {m.get('needs_to_manifest', '')} | {m.get('suite_with_patch', '')} | {det} |")

#!/bin/bash
# usage: tools/run_suite.sh [repo-dir]   -> prints "passed=N failed=M errors=K" for the pinned suite (serial, as in BASELINE.json)
D=${1:-/repo}
OUT=$(mktemp /var/tmp/suite.XXXXXX.xml)
cd "$D" && /venv/bin/python -m pytest -ra -q -p no:cacheprovider --timeout=900 --continue-on-collection-errors --junitxml="$OUT" >/dev/null 2>&1
/venv/bin/python - "$OUT" <<'PY'
import sys, xml.etree.ElementTree as ET
r = ET.parse(sys.argv[1]).getroot()
ts = r if r.tag == "testsuite" else r[0]
t, f, e, s = (int(ts.get(k, 0)) for k in ("tests", "failures", "errors", "skipped"))
print(f"passed={t-f-e-s} failed={f} errors={e} skipped={s}")
for tc in r.iter("testcase"):
    if tc.find("failure") is not None or tc.find("error") is not None:
        print("  FAIL", tc.get("classname"), tc.get("name"))
PY
rm -f "$OUT"

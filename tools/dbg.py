#!/verif/.venv/bin/python
"""Debug one task of a property spec, serially, printing every non-proved obligation with its goal
and decoded counterexample.   usage: tools/dbg.py <Cxx> <task-qualname-substring> [--all] [--goal NAME]"""
import sys, json, importlib, os
sys.path.insert(0, '/verif'); os.chdir('/verif')
from pyvc import loader; loader.install()
import pyvc.spec as S, pyvc.ctx as C, z3
mod = importlib.import_module("specs." + sys.argv[1])
from pyvc.verify import run_task
show_all = "--all" in sys.argv
goal = sys.argv[sys.argv.index("--goal") + 1] if "--goal" in sys.argv else None
if goal:
    orig = C.Ctx.oblige
    def dbg(self, name, value, kind="post", info=None):
        if goal in name:
            print("=== PC before", name)
            for p in self.pc[-40:]: print("   ", str(p)[:300])
            print("    qfacts:", len(self.qfacts), " pool:", {k: [str(x)[:40] for x in v][:12] for k, v in self.pool.items()})
        return orig(self, name, value, kind, info)
    C.Ctx.oblige = dbg
for t in S.TASKS:
    if sys.argv[2] not in t.qualname: continue
    r = run_task(t)
    print(f"## {r['task']}: paths={r['paths']} {r['outcomes']} error={r.get('error')} oor={r['out_of_reach']} wall={r['wall_s']}s")
    for ob in r['obligations']:
        if ob['kind'] == 'canary': continue
        if show_all or ob['verdict'] != 'PROVED' or ob['time_s'] > 1.0:
            print(f"   {ob['verdict']:9s} {ob['name']}  path={ob['path']} {ob['time_s']}s {ob['solver']}{' CANDIDATE' if ob.get('candidate') else ''} {ob.get('info','')}")
            if ob['verdict'] != 'PROVED':
                print("      goal :", ob['goal'][:900].replace("\n", " "))
                print("      model:", json.dumps(ob.get('model'), default=str)[:1200])

#!/usr/bin/env python3
"""prints the prompt for a fresh seeded-breakage sub-agent: property text + scratch worktree only"""
import json, sys
pid, wt = sys.argv[1], sys.argv[2]
n = sys.argv[3] if len(sys.argv) > 3 else "2"
avoid = sys.argv[4] if len(sys.argv) > 4 else ""
tag = sys.argv[5] if len(sys.argv) > 5 else ""
p = next(json.loads(l) for l in open('/verif/properties.jsonl') if json.loads(l)['id'] == pid)
print(f"""You are testing how robust a Python library's guarantees are. The library is happy-simulator (a pure-Python discrete-event simulation engine with many simulated components). You have your own scratch git worktree of it at {wt} (work ONLY there; never touch /repo, and do not read or use anything under /verif - your work must be independent of it). Python: /venv/bin/python (the package imports from the worktree when you run with `cd {wt}` because tests use the source tree; check with `/venv/bin/python -c "import happysimulator,sys;print(happysimulator.__file__)"` run from inside {wt} - if it does not point into {wt}, run with PYTHONPATH={wt}).

A semantic property that users rely on:

  {p['title']}
  {p['statement']}
  (it must hold {p['quantifier']['text']})
  Code it is anchored in: {', '.join(p['anchors']['files'])}

TASK: produce {n} DIFFERENT, independent changes to the library source (each a small realistic edit of the kind a developer could make in a refactoring, optimisation or feature commit - not sabotage comments, not test edits) such that each one
  (a) still imports/compiles, and the EXISTING test suite still passes completely with it: `cd {wt} && /venv/bin/python -m pytest -q -p no:cacheprovider --timeout=900 -x -q` (about 3000 tests; takes several minutes; run it fully for each change);
  (b) BREAKS the property above;
  (c) needs something specific to manifest - a particular interleaving, a crash or fault at a particular point, a multi-step sequence of operations, an unusual input, or two cooperating sites that each look fine alone - NOT something that ordinary use would expose at once;
  (d) comes with a demonstration: a small standalone program demo.py (uses only the library's public or module-level API, exits 0 when the property holds and non-zero when it is violated, prints what it observed) that FAILS with the change and PASSES without it (verify both; NEVER use `git stash` - it is shared between worktrees; save your change with `git diff > {wt}/_seed/x.diff`, `git checkout -- happysimulator`, run, then `git apply {wt}/_seed/x.diff`).
Make the changes in different functions / different aspects of the property if you can. Prefer changes in the anchored files or the functions they call.{(' Other testers have already covered these functions - do NOT change them, pick others (the property covers many more components than these): ' + avoid) if avoid else ''}

DELIVERABLE: for change k = 1..{n} write the directory {wt}/_seed/{pid}-k/ containing: patch.diff (output of `git diff` in the worktree with ONLY that change applied, paths relative to the repository root so that `git apply` works), demo.py, and notes.txt (what the change is, why the tests do not notice, what it needs in order to manifest, the exact commands you ran and their results incl. the final pytest summary line with and the demo's exit status with/without the change). Leave the worktree clean of source changes at the end (git checkout -- happysimulator), keeping only _seed/. Your final message: a short list of the changes with one line each.""")

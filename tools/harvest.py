#!/usr/bin/env python3
"""Run a check and list the distinct (task, obligation) pairs / bounded cases it reports as VIOLATION."""
import json, subprocess, sys, os, glob, shutil
pid = sys.argv[1]
os.chdir('/verif')
shutil.rmtree(f'replays/{pid}', ignore_errors=True)
p = subprocess.run(['./check', pid, '--no-evidence'], capture_output=True, text=True)
print(p.stdout.strip().splitlines()[-1])
for ln in p.stdout.splitlines():
    if ln.startswith(('UNDECIDED', 'OUT-OF-REACH', 'CHECKER-ERROR')):
        print(ln[:300])
seen = set()
for f in sorted(glob.glob(f'replays/{pid}/*.json')):
    d = json.load(open(f))
    if d.get('bounded'):
        key = ('bounded', d['bounded'], json.dumps(d['case'].get('case') if isinstance(d['case'], dict) else d['case'])[:200])
    else:
        key = (d['task'], d['obligation'])
    if key not in seen:
        seen.add(key); print(json.dumps(key))

#!/bin/bash
# usage: tools/seed_eval.sh <seed-id> <srcdir with patch.diff demo.py notes.txt> <Cxx> [<Cyy> ...]
# Confirms a seeded property-breaking change in a scratch worktree of /repo (demo passes without / fails with the
# patch, pinned suite still passes with it), runs the named checks against the patched scratch tree (PYVC_REPO) and
# writes /verif/seeded/<seed-id>/{patch.diff,demo.py,notes.txt,meta.json}.  /repo itself is not touched.
set -u
ID=$1; SRC=$2; shift 2
V=/verif; D=$V/seeded/$ID; WT=/tmp/sv_$ID
mkdir -p $D; if [ "$(realpath $SRC)" != "$(realpath $D)" ]; then cp $SRC/patch.diff $SRC/demo.py $D/; cp $SRC/notes.txt $D/ 2>/dev/null; fi
git -C /repo worktree remove --force $WT 2>/dev/null; rm -rf $WT
git -C /repo worktree add -q --detach $WT HEAD || exit 3
cd $WT
PYTHONPATH=$WT timeout 600 /venv/bin/python $D/demo.py > $D/demo_without.out 2>&1; RC0=$?
if ! git apply $D/patch.diff 2> $D/apply.err; then echo "$ID: patch does not apply to HEAD"; cat $D/apply.err; APPLY=fail; else APPLY=ok; rm -f $D/apply.err; fi
PYTHONPATH=$WT timeout 600 /venv/bin/python $D/demo.py > $D/demo_with.out 2>&1; RC1=$?
SUITE=skipped
if [ "${SEED_SKIP_SUITE:-0}" != 1 ]; then SUITE=$($V/tools/run_suite.sh $WT | tr '\n' ' '); fi
CHK="{}"
for P in "$@"; do
  OUT=$(cd $V && PYVC_REPO=$WT ./check $P --no-evidence 2>&1); RC=$?
  echo "$OUT" | grep -E "^(VIOLATION|UNDECIDED|OUT-OF-REACH|CHECKER-ERROR|KNOWN-FINDING)" | cut -c1-400 > $D/check_$P.out
  echo "$OUT" | tail -1 >> $D/check_$P.out
  CHK=$(python3 - "$CHK" "$P" "$RC" "$D/check_$P.out" <<'PY'
import json,sys
d=json.loads(sys.argv[1]); lines=open(sys.argv[4]).read().splitlines()
d[sys.argv[2]]={"exit":int(sys.argv[3]),"violations":[l.split(" replay=")[1].split("/")[-1].rsplit("__",1)[0] for l in lines if l.startswith("VIOLATION") and " replay=" in l][:12],"summary":lines[-1] if lines else ""}
print(json.dumps(d))
PY
)
done
cd $V
python3 - "$ID" "$RC0" "$RC1" "$APPLY" "$SUITE" "$CHK" "$(git -C /repo rev-parse --short HEAD)" <<'PY'
import json,sys,os
i,rc0,rc1,ap,suite,chk,head=sys.argv[1:8]
p=f"/verif/seeded/{i}/meta.json"
m=json.load(open(p)) if os.path.exists(p) else {}
if suite.strip()=="skipped" and m.get("suite_with_patch","skipped")!="skipped": suite=m["suite_with_patch"]
old_checks=m.get("checks",{})
m.update({"id":i,"property":i.split("-")[0],"repo_head":head,"patch_applies":ap=="ok","demo_exit_without_patch":int(rc0),"demo_exit_with_patch":int(rc1),
          "suite_with_patch":suite.strip(),"checks":{**old_checks,**json.loads(chk)},
          "confirmed": ap=="ok" and int(rc0)==0 and int(rc1)!=0 and ("failed=0" in suite or suite.strip()=="skipped"),
          "ran":[f"git worktree add /tmp/sv_{i} HEAD; demo.py (PYTHONPATH=worktree) without and with patch.diff; tools/run_suite.sh <worktree>; PYVC_REPO=<worktree> ./check <Cxx> --no-evidence"]})
m["detected_by"]=[k for k,v in m["checks"].items() if v["exit"]==1]
json.dump(m,open(p,"w"),indent=1)
print(i,"confirmed=",m["confirmed"],"demo",rc0,rc1,"suite:",suite.strip(),"detected_by",m["detected_by"],{k:v["exit"] for k,v in m["checks"].items()})
PY
git -C /repo worktree remove --force $WT; rm -rf $WT

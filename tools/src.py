#!/venv/bin/python
"""print a repo source file (or selected classes/functions) without docstrings/comments"""
import ast, sys
path = sys.argv[1]
if not path.startswith("/"):
    path = "/repo/happysimulator/" + path
t = ast.parse(open(path).read())
class Strip(ast.NodeTransformer):
    def _s(self, n):
        self.generic_visit(n)
        b = n.body
        if b and isinstance(b[0], ast.Expr) and isinstance(getattr(b[0], "value", None), ast.Constant) and isinstance(b[0].value.value, str):
            n.body = b[1:] or [ast.Pass()]
        return n
    visit_FunctionDef = visit_ClassDef = visit_AsyncFunctionDef = visit_Module = _s
t = Strip().visit(t)
names = sys.argv[2:]
if not names:
    print(ast.unparse(t))
else:
    for n in ast.walk(t):
        if isinstance(n, (ast.ClassDef, ast.FunctionDef)) and n.name in names:
            print(ast.unparse(n)); print()

#!/bin/bash
# usage: tools/mutate.sh <prop> <relative-file> '<sed-expression>' [--only X]   : run a check against a mutated scratch copy
P=$1; F=$2; E=$3; shift 3
D=$(mktemp -d /var/tmp/mut.XXXXXX)
cp -r /repo/happysimulator $D/
sed -i "$E" $D/happysimulator/$F
if diff -q /repo/happysimulator/$F $D/happysimulator/$F >/dev/null; then echo "MUTATION DID NOT APPLY"; rm -rf $D; exit 9; fi
diff /repo/happysimulator/$F $D/happysimulator/$F | head -6
PYVC_REPO=$D /verif/check $P --no-evidence "$@" 2>&1 | grep -E "VIOLATION|UNDECIDED|OUT-OF|CHECKER|^\[" | head -8
rm -rf $D

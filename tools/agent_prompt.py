#!/usr/bin/env python3
import json, sys
pid = sys.argv[1]
extra = sys.argv[2] if len(sys.argv) > 2 else ""
p = next(json.loads(l) for l in open('/verif/properties.jsonl') if json.loads(l)['id'] == pid)
print(f"""You are writing machine-checked contracts for one property of the Python library happy-simulator (repo at /repo, read-only for you) with the in-house deductive verifier PyVC that lives in /verif/pyvc. Work in /verif.

PROPERTY {pid} - {p['title']}
Statement: {p['statement']}
Quantifier: {p['quantifier']['text']}
Anchored files: {', '.join(p['anchors']['files'])}

WHAT TO DO
1. Read /verif/pyvc/README.md completely, then /verif/specs/C18.py, /verif/specs/C08.py and /verif/specs/common.py as worked examples, then the design notes for this property: the section "### {pid} " in /verif/DESIGN.md (grep for it; it lists the functions to put under contract, the clauses, and the defects already known on the pinned tree with candidate repairs in /verif/triage/candidate_fixes.py and reproductions in /verif/triage/).
2. Read the real code (tools/src.py prints it without docstrings).
3. Write /verif/specs/{pid}.py: field types from the constructors, class invariants, pre/postconditions on each function the property depends on, loop invariants, lemmas that connect the per-function contracts to the property statement. Top-level postconditions must come from the property statement, not from what the code happens to do. Start with the simplest functions, get them to PROVED, then widen. Aim for breadth over the functions listed in the design section, but every clause you keep must be discharged (exit 0) on the current tree.
4. For each function that verifies, check that the contract has teeth: run 2-3 one-line mutants with tools/mutate.sh (a mutant that breaks the property statement must produce a VIOLATION line). Strengthen contracts that let such a mutant survive.
5. When an obligation fails on the unchanged tree decide which it is: (a) your clause/invariant is wrong or demands more than the property states -> fix the spec; (b) the code really violates the property -> confirm it natively (a small script against the real code through its public API; /verif/triage has many), then write a minimal repair as a unified diff against /repo into /verif/fixes/{pid}_<short-name>.diff (do NOT modify /repo; make a scratch copy under /var/tmp, patch it there, run your check against it with PYVC_REPO=<copy> ./check {pid} ..., run the repo's related unit tests there with `cd <copy> && /venv/bin/python -m pytest -q -p no:cacheprovider tests -k <keyword>`, and delete the copy afterwards). Write the spec so that it is exit 0 on the tree WITH your repair applied and reports a VIOLATION on the unrepaired tree; tell me exactly which. If no small safe repair exists, keep the failing clause, and describe the finding (task name, obligation name, what fails, native reproduction script path) so it can be listed as a known finding.
6. Never weaken or delete a correct clause to get exit 0, never add an assumption just to make something pass; every assumption (stub_of contracts, preconditions about the environment, configuration assumptions) must be listed in PROPERTY["assumptions"].

RULES
- Do not edit anything under /repo. Do not edit other spec files (specs/C*.py of other properties, specs/common.py) - if you need a shared type, define it in your own file. Other agents are working concurrently in /verif on other properties.
- You may extend the engine under /verif/pyvc when something is OUT-OF-REACH, but only with small additive changes made with precise edits (re-read the region right before editing, never rewrite or reformat a whole file, never change existing behaviour); after any engine change run `./check C18 --no-evidence` and `./check C08 --no-evidence` (both must stay exit 0). Where a function cannot be brought within reach, leave it out and say so; a bounded native stand-in may be registered in PROPERTY["bounded"] (list of dicts name/bound/fn(seed,tier)->{{"evaluations":n,"violations":[...]}}), labelled bounded.
- Do not run git commands that change state (no commit, no checkout, no stash). Do not touch MANIFEST.json, DESIGN.md, KNOWN_FINDINGS.json.
- Use `./check {pid} --no-evidence ...` while developing (plain `./check {pid}` rewrites evidence/{pid}.json; run it once at the end). Keep the whole check under about 3 minutes wall time.
- Time budget: stop when the check is exit 0 with good coverage of the design section's function list, or after roughly 3 hours of work, whichever comes first.
{extra}
FINAL REPORT (your last message, concise): which functions are under contract and how many obligations; which mutants you tried and their outcome; every genuine defect (obligation names that fail on the unrepaired tree, native repro, diff file) ; every assumption you made; what you left out and why; any engine change (file + what).""")

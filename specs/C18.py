"""C18 - logical clocks respect causality; CRDT replicas converge to the specified value.

Step contracts of the clocks (what causality needs), CRDT merge against a spec join, lemmas
that the join is commutative / associative / idempotent, value specs.  See DESIGN.md section 3-C18.
"""
from pyvc.spec import *

F_LC = "happysimulator/core/logical_clocks.py"
F_G = "happysimulator/components/crdt/g_counter.py"
F_OR = "happysimulator/components/crdt/or_set.py"

# ---------------------------------------------------------------------------- loop contracts
# (declared before the repo modules are imported)


def view(d, k):
    """abstract value of a counter map at key k: missing keys count as 0"""
    return d.get(k, 0)


def vmax(a, b):
    return ite(a >= b, a, b)


def same_map(a, b):
    """the two dict values are identical (same keys, values, size)"""
    return mk_bool(a.term == b.term)


# VectorClock.receive: for nid, ts in remote.items()
loop(F_LC, "VectorClock.receive", 1, modifies=[("VectorClock", "_vector")], inv=[
    ("visited-max", lambda L: forall(Str, lambda n: implies(
        contains(L.visited, n),
        view(L.self._vector, n) == vmax(view(L.old(L.self)._vector, n), view(L.remote, n))))),
    ("unvisited-same", lambda L: forall(Str, lambda n: implies(
        ~contains(L.visited, n),
        (view(L.self._vector, n) == view(L.old(L.self)._vector, n))
        & iff(contains(L.self._vector, n), contains(L.old(L.self)._vector, n))))),
    ("own-key", lambda L: contains(L.self._vector, L.self._node_id)),
    ("node-id", lambda L: L.self._node_id == L.old(L.self)._node_id),
    ("nonneg", lambda L: forall(Str, lambda n: view(L.self._vector, n) >= 0)),
])

# VectorClock.happened_before: for k in all_keys (set)
loop(F_LC, "VectorClock.happened_before", 1, inv=[
    ("all_leq", lambda L: iff(L.all_leq, forall(Str, lambda n: implies(
        contains(L.visited, n), view(L.self._vector, n) <= view(L.other._vector, n))))),
    ("any_lt", lambda L: iff(L.any_lt, exists(Str, lambda n:
        contains(L.visited, n) & (view(L.self._vector, n) < view(L.other._vector, n))))),
    ("leq-so-far", lambda L: L.all_leq),
])

# GCounter.merge: for node_id, count in other._counts.items()
loop(F_G, "GCounter.merge", 1, modifies=[("GCounter", "_counts")], inv=[
    ("visited-max", lambda L: forall(Str, lambda n: implies(
        contains(L.visited, n),
        view(L.self._counts, n) == vmax(view(L.old(L.self)._counts, n), view(L.old(L.other)._counts, n))))),
    ("unvisited-same", lambda L: forall(Str, lambda n: implies(
        ~contains(L.visited, n), view(L.self._counts, n) == view(L.old(L.self)._counts, n)))),
    ("other-same", lambda L: same(L.self, L.other) | same_map(L.other._counts, L.old(L.other)._counts)),
    ("alias-same", lambda L: implies(same(L.self, L.other), same_map(L.self._counts, L.old(L.self)._counts))),
    ("nonneg", lambda L: forall(Str, lambda n: view(L.self._counts, n) >= 0)),
])

# OR-set merge (helpers tags / same_tags / EMPTY_TAGS are defined below).
# loop 1: for element, other_tags in other._entries.items()  -> per-element union
# loop 2: for tags in self._entries.values(): tags -= self._removed  -> drop observed-removed tags


def _union_old(L, e):
    return z3.SetUnion(tags(L.old(L.self)._entries, e), tags(L.old(L.other)._entries, e))


def _removed_joined(L):
    return mk_bool(setdom(L.self._removed) == z3.SetUnion(setdom(L.old(L.self)._removed), setdom(L.old(L.other)._removed)))


loop(F_OR, "ORSet.merge", 1, modifies=[("ORSet", "_entries")], inv=[
    ("visited-union", lambda L: forall(Int, lambda e: implies(contains(L.visited, e), mk_bool(
        tags(L.self._entries, e) == _union_old(L, e))))),
    ("unvisited-same", lambda L: forall(Int, lambda e: implies(~contains(L.visited, e), mk_bool(
        tags(L.self._entries, e) == tags(L.old(L.self)._entries, e))))),
    ("other-same", lambda L: same(L.self, L.other) | same_tags(L.other._entries, L.old(L.other)._entries)),
    ("alias-same", lambda L: implies(same(L.self, L.other), same_tags(L.self._entries, L.old(L.self)._entries))),
    ("removed-joined", _removed_joined),
])
loop(F_OR, "ORSet.merge", 2, modifies=[("ORSet", "_entries")], inv=[
    ("visited-filtered", lambda L: forall(Int, lambda e: implies(contains(L.visited, e), mk_bool(
        tags(L.self._entries, e) == z3.SetDifference(_union_old(L, e), setdom(L.self._removed)))))),
    ("unvisited-union", lambda L: forall(Int, lambda e: implies(~contains(L.visited, e), mk_bool(
        tags(L.self._entries, e) == _union_old(L, e))))),
    ("other-same", lambda L: same(L.self, L.other) | same_tags(L.other._entries, L.old(L.other)._entries)),
    ("removed-joined", _removed_joined),
])

# CRDTStore._handle_gossip_push: for p in self._peers: if p.name == source_name: requester = p; break
# (the contracts of the store live in specs/c18_ext.py, imported by the last line of this file)
F_STORE = "happysimulator/components/crdt/crdt_store.py"
loop(F_STORE, "CRDTStore._handle_gossip_push", 1, types={"requester": OptRef("Entity"), "p": Ref("Entity")}, inv=[
    ("no-requester-yet", lambda L: L.requester is None)])


from happysimulator.core.logical_clocks import (LamportClock, VectorClock, HLCTimestamp,  # noqa: E402
                                                 HybridLogicalClock)
from happysimulator.components.crdt.g_counter import GCounter  # noqa: E402
from happysimulator.components.crdt.pn_counter import PNCounter  # noqa: E402
from happysimulator.components.crdt.lww_register import LWWRegister  # noqa: E402
from happysimulator.components.crdt.or_set import ORSet  # noqa: E402

PROPERTY = {
    "id": "C18",
    "level": "proof",
    "trusted": ["heap typing of the fields declared in specs/C18.py"],
    "assumptions": [
        "A-python: no monkey-patching/reflection; dict, set, sorted, max behave as documented",
        "physical clock readings of HybridLogicalClock are arbitrary integers (covers any skew/drift model)",
        "the <= direction of 'vector clocks order a before b exactly when a happened before b' is the "
        "Fidge/Mattern theorem for any implementation meeting the proved step contracts (cited, not re-proved)",
        "composition of per-step contracts along a happened-before chain is by induction on the chain (lemmas "
        "chain-step-* are the induction steps)",
        # ---- extension (specs/c18_ext.py)
        "CRDTStore is verified as a COUNTER store: _crdts is Map(Str, Ref(GCounter)) and crdt_factory is "
        "`lambda node_id: GCounter(node_id)` (class CounterFactory) as in tests/ and examples/; PN-counter, OR-set and "
        "LWW stores are covered by the bounded stand-in crdt-store-gossip only",
        "gossip handlers are verified for incoming states of exactly two keys with the fixed names 'k1', 'k2' whose "
        "contents (the peer's replicas, the local store: both, one or neither key present) are arbitrary; key strings are "
        "only hashed and compared by the handlers, the loop over the incoming dict is the native dict iteration",
        "an event is represented by the two attributes the handlers read (event_type, context['metadata'] as the dict "
        "Network.send builds: source, destination + payload)",
        "Network.send, CRDTStore._serialize_state and CRDTStore._state_hash are opaque stubs in the handler tasks (the "
        "handlers are proved to send the very value _serialize_state returned; that this value is the full current state "
        "is checked by the bounded stand-in); random.choice(peers) is an arbitrary element of peers",
        "heap typing of a store: the replicas in _crdts are allocated objects, none of them shared with the sender "
        "(serialised state is rebuilt by from_dict on the receiving side); containers have value semantics in the engine, "
        "so a to_dict that hands out its live dict instead of a copy is not detected deductively (bounded stand-in: "
        "state is compared after every step)",
        "NodeClock._model is None, a FixedSkew or a LinearDrift (ClockModel is a Protocol; user models are out of scope); "
        "LinearDrift monotonicity is stated for true_time >= 0 and rate_ppm >= -1e6 (below that the modelled clock runs "
        "backwards by design); floats are reals (A-float)",
        "the yields of the store's handlers are modelled with the store's and the replicas' fields stable across the "
        "yield: no handler touches state after its yield, so the clauses are evaluated in the state at the yield",
    ],
    "bounded": [],
}

# ============================================================================ Lamport
cls(LamportClock, fields={"_time": Int})

fn(LamportClock, "tick", ensures=[("plus1", lambda s: s.self._time == s.old(s.self)._time + 1)])
fn(LamportClock, "send", ensures=[
    ("plus1", lambda s: s.self._time == s.old(s.self)._time + 1),
    ("returns-new", lambda s: s.result == s.self._time)])
fn(LamportClock, "receive", args={"remote_ts": Int}, ensures=[
    ("after-local", lambda s: s.self._time > s.old(s.self)._time),
    ("after-remote", lambda s: s.self._time > s.remote_ts),
    ("exact", lambda s: s.self._time == vmax(s.old(s.self)._time, s.remote_ts) + 1)])


def _lamport_chain():
    # induction step of "a -> b ==> L(a) < L(b)": program order (tick/send) and message edges
    # (send at p with value m, receive at q) strictly increase the timestamp; < is transitive.
    a, b, c = fresh(Int, "La"), fresh(Int, "Lb"), fresh(Int, "Lc")
    oblige("lt-transitive", implies((a < b) & (b < c), a < c))
    t, m = fresh(Int, "t"), fresh(Int, "m")
    t2 = vmax(t, m) + 1           # receive contract ('exact')
    oblige("message-edge", (t2 > m) & (t2 > t))


lemma("lamport-chain-step", _lamport_chain)

# ============================================================================ Vector clocks
VMAP = Map(Str, Int)
cls(VectorClock, fields={"_node_id": Str, "_vector": VMAP},
    inv=[("own-key", lambda o: contains(o._vector, o._node_id)),
         ("nonneg", lambda o: forall(Str, lambda n: view(o._vector, n) >= 0))])

fn(VectorClock, "tick", ensures=[
    ("own+1", lambda s: view(s.self._vector, s.self._node_id) == view(s.old(s.self)._vector, s.self._node_id) + 1),
    ("others-same", lambda s: forall(Str, lambda n: implies(
        n != s.self._node_id, view(s.self._vector, n) == view(s.old(s.self)._vector, n))))])

fn(VectorClock, "send", ensures=[
    ("own+1", lambda s: view(s.self._vector, s.self._node_id) == view(s.old(s.self)._vector, s.self._node_id) + 1),
    ("others-same", lambda s: forall(Str, lambda n: implies(
        n != s.self._node_id, view(s.self._vector, n) == view(s.old(s.self)._vector, n)))),
    ("returns-copy", lambda s: forall(Str, lambda n: view(s.result, n) == view(s.self._vector, n)))])

fn(VectorClock, "receive", args={"remote": VMAP},
   requires=[lambda s: forall(Str, lambda n: view(s.remote, n) >= 0)],
   ensures=[
    ("others-max", lambda s: forall(Str, lambda n: implies(
        n != s.self._node_id,
        view(s.self._vector, n) == vmax(view(s.old(s.self)._vector, n), view(s.remote, n))))),
    ("own-max+1", lambda s: view(s.self._vector, s.self._node_id) ==
        vmax(view(s.old(s.self)._vector, s.self._node_id), view(s.remote, s.self._node_id)) + 1)])

fn(VectorClock, "happened_before", args={"other": Ref(VectorClock)}, returns=Bool, modifies=[], ensures=[
    ("iff-spec", lambda s: iff(s.result,
        forall(Str, lambda n: view(s.self._vector, n) <= view(s.other._vector, n))
        & exists(Str, lambda n: view(s.self._vector, n) < view(s.other._vector, n)))),
    ("pure-self", lambda s: unchanged(s, s.self)), ("pure-other", lambda s: unchanged(s, s.other))])


def _vc_order_lemmas():
    # vector order  a < b  :=  (forall k a[k] <= b[k]) and (exists k a[k] < b[k])
    A = z3.ArraySort(z3.StringSort(), z3.IntSort())
    a, b, c = z3.Const("va", A), z3.Const("vb", A), z3.Const("vc", A)
    k = z3.Const("k", z3.StringSort())

    def lt(x, y):
        return z3.And(z3.ForAll([k], x[k] <= y[k]), z3.Exists([k], x[k] < y[k]))
    oblige("irreflexive", z3.Not(lt(a, a)))
    oblige("transitive", z3.Implies(z3.And(lt(a, b), lt(b, c)), lt(a, c)))
    # step contracts imply a -> b ==> V(a) < V(b):
    me = z3.Const("me", z3.StringSort())
    # local step: own component +1, others equal
    b2 = z3.Store(a, me, a[me] + 1)
    oblige("local-step-increases", lt(a, b2))
    # message edge: receiver state r, message m (= sender's vector at send): r' = max(r,m) with own+1
    r, m = z3.Const("vr", A), z3.Const("vm", A)
    r2 = z3.Const("vr2", A)
    step = z3.And(z3.ForAll([k], z3.Implies(k != me, r2[k] == z3.If(r[k] >= m[k], r[k], m[k]))),
                  r2[me] == z3.If(r[me] >= m[me], r[me], m[me]) + 1)
    oblige("message-edge-dominates-sender", z3.Implies(step, lt(m, r2)))
    oblige("message-edge-dominates-receiver", z3.Implies(step, lt(r, r2)))


lemma("vector-order-and-causality-steps", _vc_order_lemmas)

# ============================================================================ HLC
HLC_T = valueclass("HLCTimestamp", [HLCTimestamp], [("physical_ns", Int), ("logical", Int), ("node_id", Str)])
cls(HybridLogicalClock, fields={"_get_physical_ns": Fn(Int, "physical"), "_last": HLC_T, "_node_id": Str},
    inv=[("last-is-mine", lambda o: o._last.node_id == o._node_id)])


def hlc_lt(a, b):
    """(pt, l) lexicographic - the causality order of HLC (node id only breaks ties)"""
    return (a.physical_ns < b.physical_ns) | ((a.physical_ns == b.physical_ns) & (a.logical < b.logical))


fn(HybridLogicalClock, "now", ensures=[
    ("strictly-after-last", lambda s: hlc_lt(s.old(s.self)._last, s.self._last)),
    ("returns-last", lambda s: (s.result.physical_ns == s.self._last.physical_ns)
        & (s.result.logical == s.self._last.logical) & (s.result.node_id == s.self._node_id)),
    ("physical-monotone", lambda s: s.self._last.physical_ns >= s.old(s.self)._last.physical_ns)])

fn(HybridLogicalClock, "send", ensures=[
    ("strictly-after-last", lambda s: hlc_lt(s.old(s.self)._last, s.self._last)),
    ("returns-last", lambda s: (s.result.physical_ns == s.self._last.physical_ns)
        & (s.result.logical == s.self._last.logical))])

fn(HybridLogicalClock, "receive", args={"remote": HLC_T}, ensures=[
    ("after-local", lambda s: hlc_lt(s.old(s.self)._last, s.self._last)),
    ("after-remote", lambda s: hlc_lt(s.remote, s.self._last)),
    ("physical-covers-seen", lambda s: (s.self._last.physical_ns >= s.remote.physical_ns)
        & (s.self._last.physical_ns >= s.old(s.self)._last.physical_ns))])

fn(HLCTimestamp, "__lt__", self_ty=HLC_T, args={"other": HLC_T}, inv=False, ensures=[
    ("lexicographic", lambda s: iff(s.result,
        (s.self.physical_ns < s.other.physical_ns)
        | ((s.self.physical_ns == s.other.physical_ns) & (s.self.logical < s.other.logical))
        | ((s.self.physical_ns == s.other.physical_ns) & (s.self.logical == s.other.logical)
           & (s.self.node_id < s.other.node_id)))),
    ("extends-causal-order", lambda s: implies(hlc_lt(s.self, s.other), s.result))])

fn(HLCTimestamp, "__eq__", self_ty=HLC_T, args={"other": HLC_T}, inv=False, ensures=[
    ("componentwise", lambda s: iff(s.result, (s.self.physical_ns == s.other.physical_ns)
        & (s.self.logical == s.other.logical) & (s.self.node_id == s.other.node_id)))])


def _hlc_chain():
    P = [fresh(Int, f"p{i}") for i in range(3)]
    Lg = [fresh(Int, f"l{i}") for i in range(3)]

    def lt(i, j):
        return (P[i] < P[j]) | ((P[i] == P[j]) & (Lg[i] < Lg[j]))
    oblige("hlc-lt-transitive", implies(lt(0, 1) & lt(1, 2), lt(0, 2)))
    oblige("hlc-lt-irreflexive", ~lt(0, 0))


lemma("hlc-chain-step", _hlc_chain)

# ============================================================================ G-Counter / PN-Counter
cls(GCounter, fields={"_node_id": Str, "_counts": VMAP},
    inv=[("nonneg", lambda o: forall(Str, lambda n: view(o._counts, n) >= 0))])

fn(GCounter, "increment", args={"n": Int},
   ensures=[("own+n", lambda s: view(s.self._counts, s.self._node_id) == view(s.old(s.self)._counts, s.self._node_id) + s.n),
            ("others-same", lambda s: forall(Str, lambda k: implies(
                k != s.self._node_id, view(s.self._counts, k) == view(s.old(s.self)._counts, k)))),
            ("inflates", lambda s: forall(Str, lambda k: view(s.self._counts, k) >= view(s.old(s.self)._counts, k)))],
   raises={ValueError: [("only-nonpositive", lambda s: s.n < 1), ("frame", lambda s: unchanged(s, s.self))]})

fn(GCounter, "node_value", args={"node_id": Str},
   ensures=[("view", lambda s: s.result == view(s.self._counts, s.node_id)), ("pure", lambda s: unchanged(s, s.self))])

fn(GCounter, "merge", args={"other": Ref(GCounter)}, ensures=[
    ("pointwise-max", lambda s: forall(Str, lambda k:
        view(s.self._counts, k) == vmax(view(s.old(s.self)._counts, k), view(s.old(s.other)._counts, k)))),
    ("other-unchanged", lambda s: same(s.self, s.other) | forall(Str, lambda k:
        view(s.other._counts, k) == view(s.old(s.other)._counts, k))),
    ("node-id-kept", lambda s: s.self._node_id == s.old(s.self)._node_id)])


def _join_laws_max():
    # the spec join of G-counter views: pointwise max.  commutative / associative / idempotent
    A = z3.ArraySort(z3.StringSort(), z3.IntSort())
    a, b, c = z3.Const("ga", A), z3.Const("gb", A), z3.Const("gc", A)
    k = z3.Const("k", z3.StringSort())

    def j(x, y):
        return z3.Lambda([k], z3.If(x[k] >= y[k], x[k], y[k]))
    oblige("commutative", z3.ForAll([k], j(a, b)[k] == j(b, a)[k]))
    oblige("associative", z3.ForAll([k], j(j(a, b), c)[k] == j(a, j(b, c))[k]))
    oblige("idempotent", z3.ForAll([k], j(a, a)[k] == a[k]))
    oblige("inflationary", z3.ForAll([k], j(a, b)[k] >= a[k]))


lemma("gcounter-join-laws", _join_laws_max)

cls(PNCounter, fields={"_node_id": Str, "_p": Ref(GCounter), "_n": Ref(GCounter)},
    inv=[("distinct-halves", lambda o: ~same(o._p, o._n))])

fn(PNCounter, "increment", args={"n": Int}, requires=[lambda s: s.n >= 1],
   focus=lambda s: [s.self._p, s.self._n], ensures=[
    ("p-own+n", lambda s: view(s.self._p._counts, s.self._p._node_id) == view(s.old(s.self._p)._counts, s.self._p._node_id) + s.n),
    ("n-same", lambda s: forall(Str, lambda k: view(s.self._n._counts, k) == view(s.old(s.self._n)._counts, k)))])

fn(PNCounter, "decrement", args={"n": Int}, requires=[lambda s: s.n >= 1],
   focus=lambda s: [s.self._p, s.self._n], ensures=[
    ("n-own+n", lambda s: view(s.self._n._counts, s.self._n._node_id) == view(s.old(s.self._n)._counts, s.self._n._node_id) + s.n),
    ("p-same", lambda s: forall(Str, lambda k: view(s.self._p._counts, k) == view(s.old(s.self._p)._counts, k)))])

# ============================================================================ LWW register
cls(LWWRegister, fields={"_node_id": Str, "_value": Any, "_timestamp": Opt(HLC_T)})


def ts_gt(a, b):
    """total order of HLCTimestamp (physical, logical, node id): a > b"""
    return ((a.physical_ns > b.physical_ns)
            | ((a.physical_ns == b.physical_ns) & (a.logical > b.logical))
            | ((a.physical_ns == b.physical_ns) & (a.logical == b.logical) & (b.node_id < a.node_id)))


def _lww_holds(s, ts, val):
    return (s.self._timestamp.physical_ns == ts.physical_ns) & (s.self._timestamp.logical == ts.logical) \
        & (s.self._timestamp.node_id == ts.node_id) & (s.self._value == val)


def _lww_set_post(s):
    old_ts = s.old(s.self)._timestamp
    if old_ts is None:
        return _lww_holds(s, s.timestamp, s.value)
    return ite_b(ts_gt(s.timestamp, old_ts), _lww_holds(s, s.timestamp, s.value),
                 _lww_holds(s, old_ts, s.old(s.self)._value))


def ite_b(c, a, b):
    return (implies(c, a)) & (implies(~c if not isinstance(c, bool) else (not c), b))


fn(LWWRegister, "set", args={"value": Any, "timestamp": HLC_T}, ensures=[
    ("greatest-timestamp-wins", _lww_set_post)])


def _lww_merge_post(s):
    ots = s.old(s.other)._timestamp
    mts = s.old(s.self)._timestamp
    if ots is None:
        return unchanged(s, s.self)
    if mts is None:
        return _lww_holds(s, ots, s.old(s.other)._value)
    return ite_b(ts_gt(ots, mts), _lww_holds(s, ots, s.old(s.other)._value), _lww_holds(s, mts, s.old(s.self)._value))


fn(LWWRegister, "merge", args={"other": Ref(LWWRegister)}, ensures=[
    ("join-is-max-by-timestamp", _lww_merge_post),
    ("other-unchanged", lambda s: same(s.self, s.other) | unchanged(s, s.other))])


def _lww_join_laws():
    # join on (timestamp, value) pairs: keep the pair with the greater timestamp (total order).
    def mk(i):
        return (z3.Int(f"p{i}"), z3.Int(f"l{i}"), z3.String(f"n{i}"), z3.Int(f"v{i}"))

    def gt(x, y):
        return z3.Or(x[0] > y[0], z3.And(x[0] == y[0], x[1] > y[1]),
                     z3.And(x[0] == y[0], x[1] == y[1], y[2] < x[2]))

    def join(x, y):
        c = gt(y, x)
        return tuple(z3.If(c, yy, xx) for xx, yy in zip(x, y))

    def eq(x, y):
        return z3.And(*[xx == yy for xx, yy in zip(x, y)])

    def coherent(x, y):
        # a timestamp identifies one write (node id + HLC value are unique per write)
        return z3.Implies(z3.And(x[0] == y[0], x[1] == y[1], x[2] == y[2]), x[3] == y[3])
    a, b, c = mk(0), mk(1), mk(2)
    assume(z3.And(coherent(a, b), coherent(b, c), coherent(a, c)))
    oblige("commutative", eq(join(a, b), join(b, a)))
    oblige("associative", eq(join(join(a, b), c), join(a, join(b, c))))
    oblige("idempotent", eq(join(a, a), a))


lemma("lww-join-laws", _lww_join_laws)

# ============================================================================ OR-Set
# view: tags(e) = live tags of element e;  removed = the tombstone set (tags whose removal this
# replica has observed).  From the statement - "an OR-set contains an element exactly when some
# add of it was not observed by a remove":
#   contains(e)  <=>  tags(e) != {}                                  (contract of contains)
#   a live tag is never an observed-removed one                      (invariant live-not-removed)
#   add puts a fresh tag, remove records every observed tag, merge is the join
#     tags'(e) = (tags(e) | other.tags(e)) - (removed | other.removed)
# Environment facts no per-replica contract can derive (tags are globally unique because node ids
# are: a tag belongs to one element, and nobody else mints tags with my node id) are the
# precondition of merge and are listed as assumptions.
TAG = Tuple(Str, Int)
TAGSET = Set(TAG)
ORMAP = Map(Int, TAGSET)       # elements modelled as ints (any hashable with value equality)
EMPTY_TAGS = z3.K(TAG.sort(), z3.BoolVal(False))


def tags(d, e):
    """the live tags of element e in entries-dict d (empty if absent): Array TAG->Bool
    symbolically, frozenset natively (replay)"""
    if native():
        return frozenset(d.get(e, ()))
    m = d.term
    dt = ORMAP.dt
    et = e.t if hasattr(e, "t") else z3.IntVal(e)
    return z3.If(z3.Select(dt.dom(m), et), TAGSET.dt.dom(z3.Select(dt.val(m), et)), EMPTY_TAGS)


def same_tags(a, b):
    """same key set and same tag set per element (sizes, which are ghost bookkeeping, may differ)"""
    if native():
        return {k: frozenset(v) for k, v in a.items()} == {k: frozenset(v) for k, v in b.items()}
    return forall(Int, lambda e: mk_bool(z3.And(
        tags(a, e) == tags(b, e),
        z3.Select(ORMAP.dt.dom(a.term), e.t) == z3.Select(ORMAP.dt.dom(b.term), e.t))))


def setdom(s):
    return frozenset(s) if native() else TAGSET.dt.dom(s.term)


def num_s(x):
    return x.t if hasattr(x, "t") else z3.StringVal(x)


def mytag(o, q):
    if native():
        return (o._node_id, q)
    return TAG.dt.mk(num_s(o._node_id), num(q))


def nonempty(a):
    r = s_is_empty(a)
    return (not r) if isinstance(r, bool) else ~r


cls(ORSet, fields={"_node_id": Str, "_entries": ORMAP, "_seq": Int, "_removed": TAGSET},
    inv=[("seq-nonneg", lambda o: o._seq >= 0),
         ("live-not-removed", lambda o: forall(Int, lambda e: s_disjoint(tags(o._entries, e), setdom(o._removed)))),
         ("tag-names-one-element", lambda o: forall(Int, lambda e1: forall(Int, lambda e2: implies(
             e1 != e2, s_disjoint(tags(o._entries, e1), tags(o._entries, e2)))))),
         ("own-live-tags-below-seq", lambda o: forall(Int, lambda e: forall(Int, lambda q: implies(
             s_has(tags(o._entries, e), mytag(o, q)), q < o._seq)))),
         ("own-removed-tags-below-seq", lambda o: forall(Int, lambda q: implies(
             s_has(setdom(o._removed), mytag(o, q)), q < o._seq))),
         ])

ctor(ORSet, args={"node_id": Str}, ensures=[
    ("empty", lambda s: forall(Int, lambda e: s_is_empty(tags(s.self._entries, e)))),
    ("no-tombstones", lambda s: s_is_empty(setdom(s.self._removed)))])

fn(ORSet, "add", args={"element": Int}, ensures=[
    ("fresh-tag-added", lambda s: s_eq(tags(s.self._entries, s.element), s_add(
        tags(s.old(s.self)._entries, s.element), mytag(s.old(s.self), s.old(s.self)._seq)))),
    ("others-same", lambda s: forall(Int, lambda e: implies(e != s.element, s_eq(
        tags(s.self._entries, e), tags(s.old(s.self)._entries, e))))),
    ("seq+1", lambda s: s.self._seq == s.old(s.self)._seq + 1),
    ("removed-same", lambda s: s_eq(setdom(s.self._removed), setdom(s.old(s.self)._removed))),
    ("now-contained", lambda s: nonempty(tags(s.self._entries, s.element)))])

fn(ORSet, "remove", args={"element": Int}, ensures=[
    ("element-gone", lambda s: s_is_empty(tags(s.self._entries, s.element))),
    ("others-same", lambda s: forall(Int, lambda e: implies(e != s.element, s_eq(
        tags(s.self._entries, e), tags(s.old(s.self)._entries, e))))),
    ("observed-tags-recorded", lambda s: s_eq(setdom(s.self._removed), s_union(
        setdom(s.old(s.self)._removed), tags(s.old(s.self)._entries, s.element))))])

fn(ORSet, "contains", args={"element": Int}, ensures=[
    ("iff-has-live-tag", lambda s: iff(s.result, nonempty(tags(s.self._entries, s.element)))),
    ("pure", lambda s: unchanged(s, s.self))])


def _merge_env(s):
    """assumed about the environment (global tag uniqueness), see header comment"""
    me, ot = s.self, s.other
    return [
        forall(Int, lambda e1: forall(Int, lambda e2: implies(
            e1 != e2, s_disjoint(tags(me._entries, e1), tags(ot._entries, e2))))),
        forall(Int, lambda e: forall(Int, lambda q: implies(
            s_has(tags(ot._entries, e), mytag(me, q)), q < me._seq))),
        forall(Int, lambda q: implies(s_has(setdom(ot._removed), mytag(me, q)), q < me._seq)),
    ]


# ORSet.__eq__ compares the LIVE tag sets only (its own comment: "Compare only non-empty tag sets"; tombstones are not
# part of it).  Not called by merge on the pinned tree; declared so that a merge that consults it is verified against
# what it really computes instead of ending out of reach (two dict comprehensions).
stub_of(ORSet, "__eq__", returns=Bool, modifies=[], ensures=[
    ("equal-iff-same-live-tags", lambda s: iff(s.result, forall(Int, lambda e: s_eq(tags(s.self._entries, e), tags(s.other._entries, e)))))])

fn(ORSet, "merge", args={"other": Ref(ORSet)}, uses=[(ORSet, "__eq__")],
   requires=[lambda s: _merge_env(s)[0], lambda s: _merge_env(s)[1], lambda s: _merge_env(s)[2]],
   ensures=[
    # spec join on the view: live tags of either side that neither side has observed removed
    ("join", lambda s: forall(Int, lambda e: s_eq(tags(s.self._entries, e), s_diff(
        s_union(tags(s.old(s.self)._entries, e), tags(s.old(s.other)._entries, e)),
        s_union(setdom(s.old(s.self)._removed), setdom(s.old(s.other)._removed)))))),
    ("removed-join", lambda s: s_eq(setdom(s.self._removed), s_union(
        setdom(s.old(s.self)._removed), setdom(s.old(s.other)._removed)))),
    ("other-unchanged", lambda s: same(s.self, s.other) | (same_tags(s.other._entries, s.old(s.other)._entries)
                                                            & s_eq(setdom(s.other._removed), setdom(s.old(s.other)._removed)))),
    ("ids-kept", lambda s: (s.self._node_id == s.old(s.self)._node_id) & (s.self._seq == s.old(s.self)._seq))])


def _orset_join_laws():
    # view = (adds: Set[(e,tag)], removed: Set[tag]); join = (A1|A2 minus R1|R2 , R1|R2) with the
    # representation invariant A & R == {} ; element tags modelled as pairs (e, tag) flattened to one sort
    P = z3.DeclareSort("ETag")
    S = z3.ArraySort(P, z3.BoolSort())
    E = z3.K(P, z3.BoolVal(False))

    def mk(i):
        return z3.Const(f"A{i}", S), z3.Const(f"R{i}", S)

    def join(x, y):
        r = z3.SetUnion(x[1], y[1])
        return z3.SetDifference(z3.SetUnion(x[0], y[0]), r), r

    def eq(x, y):
        return z3.And(x[0] == y[0], x[1] == y[1])
    a, b, c = mk(0), mk(1), mk(2)
    for x in (a, b, c):
        assume(z3.SetIntersect(x[0], x[1]) == E)
    oblige("commutative", eq(join(a, b), join(b, a)))
    oblige("associative", eq(join(join(a, b), c), join(a, join(b, c))))
    oblige("idempotent", eq(join(a, a), a))
    oblige("keeps-invariant", z3.SetIntersect(join(a, b)[0], join(a, b)[1]) == E)
    # value spec: an element tag is live after the join iff it was live on some side and removed on neither
    t = z3.Const("t", P)
    oblige("value-spec", z3.Select(join(a, b)[0], t) ==
           z3.And(z3.Or(z3.Select(a[0], t), z3.Select(b[0], t)), z3.Not(z3.Select(a[1], t)), z3.Not(z3.Select(b[1], t))))


lemma("orset-join-laws", _orset_join_laws)


# ============================================================================ bounded stand-in + extension
def _store_gossip_standin(seed, tier):
    """CRDTStore clusters of every CRDT type against an op-based oracle (triage/c18_store_gossip.py): what the deductive
    part cannot reach - _serialize_state (dict comprehension), ORSet.to_dict/from_dict (heterogeneous lists),
    value / elements / __eq__ (sums, generator expressions), VectorClock.merge, stores of PN-counters, OR-sets, LWW
    registers.  The script narrows its family by source tests while the two C18 repairs are not applied."""
    return run_native_script("triage/c18_store_gossip.py", 150 if tier == "quick" else 4000, seed)


PROPERTY["bounded"].append({
    "name": "crdt-store-gossip",
    "bound": "150 (quick) / 4000 (thorough) seeded schedules: 2-4 stores of one CRDT type (G, PN, OR-set, LWW with HLCs on "
             "skewed / drifting NodeClocks), 1-3 keys, 8-20 writes / gossip rounds, then full pairwise gossip twice; + as "
             "many random VectorClock.merge / GCounter.value states",
    "fn": _store_gossip_standin})

from specs.c18_ext import *  # noqa: E402,F401,F403  (registers the extension's classes, tasks and stubs)

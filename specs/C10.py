"""C10 - rate limiters never over-admit and report time-until-available truthfully.

Part A: the five policies of components/rate_limiter/policy.py (step contracts, truthfulness of
        time_until_available, interval-bound lemmas over the step contracts).
Part B: RateLimitedEntity / NullRateLimiter / Inductor handlers (exactly-once accounting, order).
Part C: DistributedRateLimiter (ctor, window id, sync test, check_and_increment / handle_event generators against the
        real KVStore with every other caller running at the yields; atomicity clauses gated on DRL_ATOMIC).
Part D: the rate-limit decision of APIGateway._rate_limit_and_route and Sidecar._handle_request.
See DESIGN.md section 3-C10.
"""
from pyvc.spec import *

F_POL = "happysimulator/components/rate_limiter/policy.py"


# ---------------------------------------------------------------------------- sequences of instants
def t_at(sq, i):
    """nanoseconds of the i-th instant of a Seq(TIME) term (raw z3, no fork)"""
    return TIME.dt.nanoseconds(sq[i if isinstance(i, (int, z3.ExprRef)) else num(i)])


def seq_sorted_def(sq, step_hint=False):
    """non-decreasing (pairwise form; as an assumption it is instantiated on the index terms in
    play - the index of the latest entry is registered as one - as a goal it is skolemised)"""
    _index_hint(z3.Length(sq) - 1)

    def inner(i, j):
        if step_hint:
            _succ_hint(i)
            _succ_hint(j)
        return mk_bool(z3.Implies(z3.And(0 <= num(i), num(i) <= num(j), num(j) < z3.Length(sq)),
                                  t_at(sq, num(i)) <= t_at(sq, num(j))))
    return forall(Int, lambda i: forall(Int, lambda j: inner(i, j), "j"), "i")


def seq_all_le(sq, x_ns):
    return forall(Int, lambda i: mk_bool(z3.Implies(z3.And(num(i) >= 0, num(i) < z3.Length(sq)),
                                                     t_at(sq, num(i)) <= x_ns)), "i")


def seq_sorted(sq):
    """sortedness; on a term that is syntactically an append  A ++ [x]  it is stated in the unfolded form
    sorted(A) and every entry of A <= x, which spares z3's sequence solver the index arithmetic on the
    concatenation (seconds, erratically).  Lemma `sorted-append-unfolding` proves both directions of that
    unfolding for arbitrary A, x."""
    ap = _as_append(sq)
    if ap is not None:
        return seq_sorted(ap[0]) & seq_all_le(ap[0], TIME.dt.nanoseconds(ap[1]))
    return seq_sorted_def(z3.simplify(sq))


def _sorted_append_lemma():
    a = fresh(LOG, "A").term
    x = TIME.unwrap(fresh(TIME, "x"))
    b = z3.Concat(a, z3.Unit(x))
    xn = TIME.dt.nanoseconds(x)
    # (=>)  sorted(A) and all(A) <= x  ==>  sorted(A ++ [x])          (definition on the concatenation)
    # arbitrary positions i <= j of A ++ [x] (fresh constants = universally quantified)
    i, j = num(fresh(Int, "i")), num(fresh(Int, "j"))
    _index_hint(i)
    _index_hint(j)
    assume(seq_sorted_def(a))
    assume(seq_all_le(a, xn))
    assume(mk_bool(z3.And(0 <= i, i <= j, j < z3.Length(b))))
    for nm, k in (("i", i), ("j", j)):      # the sequence-theory part, isolated: what the k-th entry of A ++ [x] is
        oblige(f"entry-{nm}-of-the-append", mk_bool(b[k] == z3.If(k < z3.Length(a), a[k], x)))
    oblige("unfolded-implies-sorted", mk_bool(t_at(b, i) <= t_at(b, j)))


def _sorted_append_lemma_rev():
    a = fresh(LOG, "A").term
    x = TIME.unwrap(fresh(TIME, "x"))
    b = z3.Concat(a, z3.Unit(x))
    _index_hint(z3.Length(a))
    assume(seq_sorted_def(b))
    oblige("sorted-implies-prefix-sorted", seq_sorted_def(a))
    oblige("sorted-implies-all-le-last", seq_all_le(a, TIME.dt.nanoseconds(x)))


def _all_ge_append_lemma():
    a = fresh(LOG, "A").term
    x = TIME.unwrap(fresh(TIME, "x"))
    bnd = fresh(Int, "bound")
    b = z3.Concat(a, z3.Unit(x))
    _index_hint(z3.Length(a))
    assume(seq_all_ge_def(a, bnd))
    assume(mk_bool(TIME.dt.nanoseconds(x) >= num(bnd)))
    oblige("unfolded-implies-all-ge", seq_all_ge_def(b, bnd))


def _all_ge_append_lemma_rev():
    a = fresh(LOG, "A").term
    x = TIME.unwrap(fresh(TIME, "x"))
    bnd = fresh(Int, "bound")
    b = z3.Concat(a, z3.Unit(x))
    _index_hint(z3.Length(a))
    assume(seq_all_ge_def(b, bnd))
    oblige("all-ge-implies-prefix-all-ge", seq_all_ge_def(a, bnd))
    oblige("all-ge-implies-last-ge", mk_bool(TIME.dt.nanoseconds(x) >= num(bnd)))


def _index_hint(t):
    from pyvc import ctx as _pctx
    if _pctx.active():
        _pctx.cur().note_term(z3.simplify(t))


def _as_append(sq):
    """(A, x) when the sequence term is syntactically  A ++ [x], else None"""
    sq = z3.simplify(sq)
    if z3.is_app(sq) and sq.decl().kind() == z3.Z3_OP_SEQ_CONCAT and sq.num_args() >= 2:
        last = sq.arg(sq.num_args() - 1)
        if z3.is_app(last) and last.decl().kind() == z3.Z3_OP_SEQ_UNIT:
            rest = [sq.arg(k) for k in range(sq.num_args() - 1)]
            return (rest[0] if len(rest) == 1 else z3.Concat(*rest)), last.arg(0)
    return None


def seq_all_ge(sq, bound):
    ap = _as_append(sq)
    if ap is not None:      # unfolded on an append, like seq_sorted (lemma sorted-append-unfolding covers it)
        return seq_all_ge(ap[0], bound) & mk_bool(TIME.dt.nanoseconds(ap[1]) >= num(bound))
    return seq_all_ge_def(sq, bound)


def seq_all_ge_def(sq, bound):
    return forall(Int, lambda i: mk_bool(z3.Implies(z3.And(num(i) >= 0, num(i) < z3.Length(sq)),
                                                     t_at(sq, num(i)) >= num(bound))), "i")


def sw_wn(o):
    """window length at clock resolution (the truncation `now - float` applies)"""
    return mk_num(z3.ToInt(num(o._window_size * 1000000000.0)))


# SlidingWindowPolicy._prune: while self._request_log and self._request_log[0] < cutoff: pop(0)
loop(F_POL, "SlidingWindowPolicy._prune", 1, modifies=[("SlidingWindowPolicy", "_request_log")], inv=[
    ("never-grows", lambda L: mk_bool(z3.Length(L.self._request_log.term) <= z3.Length(L.old(L.self)._request_log.term))),
    ("kept-part-is-a-suffix", lambda L: seq_is_suffix(L.self._request_log.term, L.old(L.self)._request_log.term)),
    ("dropped-entries-are-older-than-the-window", lambda L: forall(Int, lambda i: mk_bool(z3.Implies(
        z3.And(num(i) >= 0, num(i) < z3.Length(L.old(L.self)._request_log.term) - z3.Length(L.self._request_log.term)),
        t_at(L.old(L.self)._request_log.term, num(i)) < num(ns(L.cutoff)))), "i")),
    ("still-sorted", lambda L: seq_sorted_def(L.self._request_log.term, step_hint=True)),
])


def seq_is_suffix(new, old):
    """pointwise definition of `new is a suffix of old` (z3's SuffixOf makes its sequence solver erratic):
    new[i] == old[i + (|old| - |new|)] for every position of new"""
    k = z3.Length(old) - z3.Length(new)
    _index_hint(z3.Length(new) - 1)
    _index_hint(z3.IntVal(0))

    def body(i):
        _succ_hint(i)
        return mk_bool(z3.Implies(z3.And(num(i) >= 0, num(i) < z3.Length(new)), new[num(i)] == old[num(i) + k]))
    return mk_bool(k >= 0) & forall(Int, body, "i")


def _succ_hint(i):
    """a loop step that pops the head shifts every index by one: register sk+1 next to a skolem index sk"""
    if str(num(i)).startswith("sk_"):
        _index_hint(num(i) + 1)

# ---------------------------------------------------------------------------- ghost state of the entities
# g_accepted : every request that was not dropped, in arrival order
# g_forwarded: the requests forwarded downstream, in forwarding order
# g_polls    : poll events scheduled and not yet delivered
for _rel, _K, _req in (("happysimulator/components/rate_limiter/rate_limited_entity.py", "RateLimitedEntity", "_handle_request"),
                       ("happysimulator/components/rate_limiter/inductor.py", "Inductor", "_handle_arrival")):
    ghost(_rel, f"{_K}.{_req}", "return self._forward(event, now)", "self.g_accepted.append(event)", where="before")
    ghost(_rel, f"{_K}.{_req}", "self._queued += 1", "self.g_accepted.append(event)", where="after*")
    ghost(_rel, f"{_K}._forward", "self._forwarded += 1", "self.g_forwarded.append(event)")
    ghost(_rel, f"{_K}._ensure_poll_scheduled", "self._poll_scheduled = True", "self.g_polls += 1")
    ghost(_rel, f"{_K}._handle_poll", "self._poll_scheduled = False", "self.g_polls -= 1")

from specs.common import *  # noqa: E402,F401

from happysimulator.components.rate_limiter.policy import (TokenBucketPolicy, LeakyBucketPolicy,  # noqa: E402
                                                            SlidingWindowPolicy, FixedWindowPolicy,
                                                            AdaptivePolicy)

PROPERTY = {
    "id": "C10",
    "level": "proof",
    "trusted": ["heap typing of the fields declared in specs/C10.py and specs/common.py"],
    "assumptions": COMMON_ASSUMPTIONS + [
        "token bucket configuration: capacity >= 1, refill_rate > 0, 0 <= initial_tokens <= capacity (the "
        "constructor validates nothing; a bucket with capacity < 1 can never admit, refill_rate == 0 divides by zero)",
        "leaky bucket configuration: leak_rate > 0 (leak_rate <= 0 makes the interval +inf and time_until_available overflow)",
        "adaptive configuration beyond what the constructor validates: min_rate * window_size >= 1 (the smallest bucket can "
        "hold one token) and increase_step >= 0 (a negative step would let record_success push the rate below min_rate)",
        "sliding window configuration: window_size_seconds > 0, max_requests >= 1 (max_requests == 0 makes "
        "time_until_available index an empty log)",
        "fixed window configuration: window_size >= 1 ns (a shorter window truncates to 0 ns at clock resolution)",
        "C01 for the policies: calls arrive with non-decreasing `now` (precondition of time_until_available, of the drain "
        "and of SlidingWindowPolicy.try_acquire; TokenBucket/Leaky/Fixed/Adaptive try_acquire need no such precondition)",
        "RateLimiterPolicy interface as used by RateLimitedEntity (stub): try_acquire returns an arbitrary bool, "
        "time_until_available returns a Duration >= 0 (proved for each of the five policies as `wait-nonnegative`); policy "
        "calls do not touch the entity's state",
        "a poll event delivered to RateLimitedEntity/Inductor is one that the entity scheduled itself and that has not been "
        "delivered before (ghost counter g_polls >= 1 on delivery)",
        "Inductor: time_constant > 0; math.exp is modelled as a strictly increasing positive function with exp(0) == 1",
        "the aligned windows of FixedWindowPolicy are taken at clock resolution: window k is [k*Wn, (k+1)*Wn) with "
        "Wn = int(window_size * 1e9) ns (the truncation every Instant +/- float applies)",
        "lemmas state the induction step of the interval bounds over the proved step contracts; the induction over the "
        "sequence of calls itself is the standard argument (not mechanised); the counting step of the sliding-window lemma "
        "(admissions inside the window are a sub-multiset of the log) is stated, not derived",
        "DistributedRateLimiter: the backing store is a KVStore without capacity limit whose values under the counter keys "
        "are non-negative ints (KVStore.get/put/increment run inlined); during every store latency any other request "
        "of this or of another limiter sharing the store may run (all non-const fields havoc'd at the yield)",
        "DistributedRateLimiter._get_counter_key (an f-string) is used as an uninterpreted function of (key_prefix, "
        "window_id); that it is injective in the window id (decimal rendering) is not proved",
        "DistributedRateLimiter, atomicity clauses (`an-admission-raises-the-shared-counter-atomically-by-one`, store "
        "guarantee `shared-window-counters-never-decrease`, lemma distributed-at-most-limit-per-window-across-all-callers, "
        "bounded stand-in distributed-limit-under-overlapping-store-round-trips) are active only when check_and_increment "
        "uses the store's atomic increment (fixes/C10_distributed-atomic-increment.diff); on the unrepaired tree the "
        "read-then-write over-admits under overlapping round trips (open finding, triage/c10_distributed_race.py); the "
        "rely on the other callers is the guarantee proved for this code (all callers run DistributedRateLimiter with the "
        "same global_limit)",
        "APIGateway._select_backend/_forward_request and Sidecar._check_circuit_timeout/_forward_request are interface "
        "stubs (arbitrary results; _forward_request counts one routed request): only the rate-limit decision of "
        "APIGateway._rate_limit_and_route and Sidecar._handle_request is under contract; the forward stamp of "
        "DistributedRateLimiter.handle_event (not in the past) is C07's clause",
    ],
}

NS_PER_S = 1000000000


def secs(n):
    """nanoseconds (int term) -> seconds (real), as Duration.to_seconds does over the reals"""
    return n / 1000000000.0 if native() else mk_num(z3.ToReal(num(n)) / z3.RealVal(NS_PER_S))


def rmin(a, b):
    return ite(a <= b, a, b)


def rmax(a, b):
    return ite(a >= b, a, b)


# ============================================================================ A1. token bucket
cls(TokenBucketPolicy, fields={"_capacity": Real, "_refill_rate": Real, "_tokens": Real,
                               "_last_refill_time": Opt(TIME)},
    const=["_capacity", "_refill_rate"],
    inv=[("config", lambda o: (o._capacity >= 1) & (o._refill_rate > 0)),
         ("tokens-in-range", lambda o: (o._tokens >= 0) & (o._tokens <= o._capacity))])


def tb_avail(o, t_ns, rate=None, cap=None):
    """tokens the bucket state `o` offers at instant t (spec function): refill since the last
    refill instant, capped.  try_acquire(t) admits iff this is >= 1."""
    rate = o._refill_rate if rate is None else rate
    cap = o._capacity if cap is None else cap
    last = o._last_refill_time
    if last is None:
        return o._tokens
    el = rmax(t_ns - ns(last), 0)
    return rmin(cap, o._tokens + secs(el) * rate)


def tb_last(o, t_ns):
    """refill instant after an operation at t: max(last, t)"""
    last = o._last_refill_time
    if last is None:
        return t_ns
    return rmax(ns(last), t_ns)


ctor(TokenBucketPolicy, args={"capacity": Real, "refill_rate": Real, "initial_tokens": Opt(Real)},
     requires=[lambda s: (s.capacity >= 1) & (s.refill_rate > 0),
               lambda s: True if s.initial_tokens is None else (s.initial_tokens >= 0) & (s.initial_tokens <= s.capacity)],
     ensures=[("starts-full-or-as-given", lambda s: s.self._tokens == (s.capacity if s.initial_tokens is None else s.initial_tokens)),
              ("no-refill-yet", lambda s: s.self._last_refill_time is None)])

fn(TokenBucketPolicy, "try_acquire", args={"now": TIME}, ensures=[
    ("admits-iff-a-token-is-available", lambda s: iff(s.result, tb_avail(s.old(s.self), ns(s.now)) >= 1)),
    ("spends-exactly-one-token-per-admit", lambda s:
        s.self._tokens == tb_avail(s.old(s.self), ns(s.now)) - ite(s.result, 1, 0)),
    ("refill-instant", lambda s: (s.self._last_refill_time is not None)
        and ns(s.self._last_refill_time) == tb_last(s.old(s.self), ns(s.now))),
    # statement (at most `capacity` admits at one instant), independent of how the refill clock is kept: what the
    # bucket offers at the instant of the call goes down by exactly the admitted token - a stale refill clock would
    # hand the token straight back from the idle time before `now`
    ("an-admit-uses-up-one-token-at-that-instant", lambda s:
        tb_avail(s.self, ns(s.now)) == tb_avail(s.old(s.self), ns(s.now)) - ite(s.result, 1, 0)),
])


def probe_idle_burst(policy, t_probe, t_burst):
    """The interaction named in the statement, run on the REAL policy code: ask for the wait (possibly on a full
    bucket), stay idle, then two requests at one later instant."""
    policy.time_until_available(t_probe)
    first = policy.try_acquire(t_burst)
    second = policy.try_acquire(t_burst)
    return (first, second)


def probe_task(K, avail):
    fn("specs.C10", "probe_idle_burst", kind="function", label=K.__name__,
       args={"policy": Ref(K), "t_probe": TIME, "t_burst": TIME},
       requires=[lambda s: (s.policy._last_refill_time is not None) and
                 ((ns(s.t_probe) >= ns(s.policy._last_refill_time)) & (ns(s.t_burst) >= ns(s.t_probe)))],
       ensures=[
        ("a-probe-and-an-idle-period-do-not-create-tokens", lambda s: iff(
            s.result[0], avail(s.old(s.policy), ns(s.t_burst)) >= 1)),
        ("a-burst-at-one-instant-spends-one-token-per-admit", lambda s: iff(
            s.result[1], avail(s.old(s.policy), ns(s.t_burst)) >= 2)
            & (avail(s.policy, ns(s.t_burst)) == avail(s.old(s.policy), ns(s.t_burst))
               - ite(s.result[0], 1, 0) - ite(s.result[1], 1, 0))),
    ])


probe_task(TokenBucketPolicy, lambda o, t: tb_avail(o, t))


def monotone_now(field):
    """C01: calls arrive with non-decreasing `now` (the recorded instant is not in the future)"""
    def req(s):
        last = getattr(s.self, field)
        return True if last is None else ns(s.now) >= ns(last)
    return req


def drain(policy, now):
    """The drain loop of the statement, run on the REAL policy code: ask for the wait, advance the
    clock by exactly the returned duration, ask again.  Returns True iff an acquire succeeded
    after at most two waits (three questions)."""
    for _ in (1, 2, 3):
        w = policy.time_until_available(now)
        if w.nanoseconds == 0:
            return policy.try_acquire(now)
        now = now + w
    return False


def drain_task(K, field, **kw):
    """field: name of the Opt(TIME) field holding the latest instant seen, or a predicate (policy, now)"""
    if callable(field):
        req = lambda s: field(s.policy, s.now)      # noqa: E731
    else:
        req = lambda s: True if getattr(s.policy, field) is None else ns(s.now) >= ns(getattr(s.policy, field))  # noqa: E731
    fn("specs.C10", "drain", kind="function", label=K.__name__,
       args={"policy": Ref(K), "now": TIME}, requires=[req], **kw,
       ensures=[("waiting-the-returned-duration-reaches-an-admitting-instant-within-2-waits", lambda s: s.result)])


drain_task(TokenBucketPolicy, "_last_refill_time")

fn(TokenBucketPolicy, "time_until_available", args={"now": TIME}, requires=[monotone_now("_last_refill_time")], ensures=[
    ("wait-nonnegative", lambda s: ns(s.result) >= 0),
    ("zero-means-immediate-acquire-succeeds", lambda s: implies(ns(s.result) == 0, tb_avail(s.self, ns(s.now)) >= 1)),
    ("no-acquire-succeeds-before-the-wait-elapsed", lambda s: forall(Int, lambda t: implies(
        (t >= ns(s.now)) & (t < ns(s.now) + ns(s.result)), tb_avail(s.self, t) < 1))),
    ("wait-is-short-of-the-admitting-instant-by-less-than-1ns", lambda s: implies(
        ns(s.result) > 0, tb_avail(s.self, ns(s.now) + ns(s.result) + 1) >= 1)),
    # (the very first call starts the refill clock, so only a started bucket is observably unchanged)
    ("asking-does-not-change-availability", lambda s: True if s.old(s.self)._last_refill_time is None else
        forall(Int, lambda t: implies(t >= ns(s.now), tb_avail(s.self, t) == tb_avail(s.old(s.self), t)))),
    ("first-call-starts-the-clock", lambda s: (s.self._last_refill_time is not None)
        and ns(s.self._last_refill_time) == tb_last(s.old(s.self), ns(s.now))),
])


def _bucket_interval_lemma(adaptive):
    """Telescoping induction step: from the proved step contract of try_acquire
         tokens' = min(cap, tokens + rate*dt) - [admitted],  tokens' >= 0,  last' = last + dt
       the potential  n + tokens <= T0 + R*(last - s)  is preserved, where n = admits since the interval
       start s, T0 <= cap the tokens at s and R the (maximal) rate; at the end tokens >= 0 gives
         n <= cap + R*(t - s)      for every interval (s, t].
       adaptive: rate and cap = rate*window vary per step inside [min, max] (record_* contracts)."""
    def body():
        cap, R = fresh(Real, "cap"), fresh(Real, "rate")
        s0, last, now = fresh(Int, "s"), fresh(Int, "last"), fresh(Int, "now")
        n, tok, T0 = fresh(Int, "n"), fresh(Real, "tokens"), fresh(Real, "T0")
        adm = fresh(Bool, "admitted")
        if adaptive:
            r, W, lo = fresh(Real, "cur_rate"), fresh(Real, "window"), fresh(Real, "min_rate")
            assume((lo > 0) & (lo <= r) & (r <= R) & (W > 0))
            step_cap, step_rate = r * W, r
            assume(cap == R * W)
        else:
            assume((cap >= 1) & (R > 0))
            step_cap, step_rate = cap, R
        assume((s0 <= last) & (last <= now) & (n >= 0) & (tok >= 0) & (T0 <= cap))
        hyp = n + tok <= T0 + R * secs(last - s0)                     # induction hypothesis
        assume(hyp)
        avail = rmin(step_cap, tok + secs(now - last) * step_rate)      # contract of try_acquire
        assume(iff(adm, avail >= 1))
        tok2 = avail - ite(adm, 1, 0)
        n2 = n + ite(adm, 1, 0)
        oblige("tokens-stay-nonnegative", tok2 >= 0)
        oblige("potential-preserved", n2 + tok2 <= T0 + R * secs(now - s0))
        oblige("interval-bound", n2 <= cap + R * secs(now - s0))
        # base: an interval that starts now with T0 = tokens available now
        oblige("base", implies((n == 0) & (last == s0) & (tok == T0), hyp))
    return body


lemma("token-bucket-interval-bound(capacity+rate*length)", _bucket_interval_lemma(False))

# ============================================================================ A2. leaky bucket
cls(LeakyBucketPolicy, fields={"_leak_rate": Real, "_leak_interval": Real, "_last_leak_time": Opt(TIME)},
    const=["_leak_rate", "_leak_interval"],
    inv=[("config", lambda o: (o._leak_rate > 0) & (o._leak_interval * o._leak_rate == 1))])


def lb_admits(o, t_ns):
    """the leaky bucket state `o` admits at instant t: nothing admitted yet, or at least one leak
    interval (1/rate) since the latest admitted instant"""
    last = o._last_leak_time
    if last is None:
        return True
    return secs(t_ns - ns(last)) * o._leak_rate >= 1


ctor(LeakyBucketPolicy, args={"leak_rate": Real}, requires=[lambda s: s.leak_rate > 0],
     ensures=[("nothing-admitted-yet", lambda s: s.self._last_leak_time is None)])

fn(LeakyBucketPolicy, "try_acquire", args={"now": TIME}, ensures=[
    ("admits-iff-spaced", lambda s: iff(s.result, lb_admits(s.old(s.self), ns(s.now)))),
    ("admitted-requests-are-at-least-1/rate-apart", lambda s: True if s.old(s.self)._last_leak_time is None else implies(
        s.result, secs(ns(s.now) - ns(s.old(s.self)._last_leak_time)) * s.self._leak_rate >= 1)),
    ("records-the-admitted-instant", lambda s: implies(
        s.result, (s.self._last_leak_time is not None) and ns(s.self._last_leak_time) == ns(s.now))),
    ("denied-changes-nothing", lambda s: implies(Not(s.result), unchanged(s, s.self))),
])

fn(LeakyBucketPolicy, "time_until_available", args={"now": TIME}, requires=[monotone_now("_last_leak_time")], ensures=[
    ("wait-nonnegative", lambda s: ns(s.result) >= 0),
    ("zero-means-immediate-acquire-succeeds", lambda s: implies(ns(s.result) == 0, lb_admits(s.self, ns(s.now)))),
    ("no-acquire-succeeds-before-the-wait-elapsed", lambda s: forall(Int, lambda t: implies(
        (t >= ns(s.now)) & (t < ns(s.now) + ns(s.result)), Not(lb_admits(s.self, t))))),
    ("wait-is-short-of-the-admitting-instant-by-less-than-1ns", lambda s: implies(
        ns(s.result) > 0, lb_admits(s.self, ns(s.now) + ns(s.result) + 1))),
    ("pure", lambda s: unchanged(s, s.self)),
])

drain_task(LeakyBucketPolicy, "_last_leak_time")


def _leaky_spacing_lemma():
    # admitted instants a_0 < a_1 < ...; contract: a_{i+1} - a_i >= 1/rate.  Induction step of
    # a_{i+k} - a_i >= k/rate, hence an interval of length L holds at most floor(L*rate)+1 admits.
    rate = fresh(Real, "rate")
    a_i, a_k, a_k1, k = fresh(Int, "a_i"), fresh(Int, "a_ik"), fresh(Int, "a_ik1"), fresh(Int, "k")
    assume((rate > 0) & (k >= 0))
    assume(secs(a_k - a_i) * rate >= k)                  # hypothesis
    assume(secs(a_k1 - a_k) * rate >= 1)                 # step contract
    oblige("k+1-admits-span-at-least-k/rate", secs(a_k1 - a_i) * rate >= k + 1)
    L = fresh(Real, "L")
    oblige("count-in-interval", implies(secs(a_k1 - a_i) <= L, k + 2 <= L * rate + 1))


lemma("leaky-bucket-spacing", _leaky_spacing_lemma)

# ============================================================================ A3. adaptive (AIMD token bucket)
from happysimulator.components.rate_limiter.policy import RateSnapshot, RateAdjustmentReason  # noqa: E402

SNAPSHOT = valueclass("RateSnapshot", [RateSnapshot], [("time", TIME), ("rate", Real), ("reason", Any)])
cls(AdaptivePolicy, fields={"_min_rate": Real, "_max_rate": Real, "_current_rate": Real, "_increase_step": Real,
                            "_decrease_factor": Real, "_window_size": Real, "_tokens": Real,
                            "_last_refill_time": Opt(TIME), "rate_history": Seq(SNAPSHOT),
                            "successes": Int, "failures": Int, "timeouts": Int, "rate_increases": Int, "rate_decreases": Int},
    const=["_min_rate", "_max_rate", "_increase_step", "_decrease_factor", "_window_size"],
    inv=[("config", lambda o: (o._min_rate > 0) & (o._max_rate >= o._min_rate) & (o._decrease_factor > 0)
          & (o._decrease_factor < 1) & (o._window_size > 0) & (o._min_rate * o._window_size >= 1)
          & (o._increase_step >= 0)),
         ("rate-stays-within-[min,max]", lambda o: (o._current_rate >= o._min_rate) & (o._current_rate <= o._max_rate)),
         ("tokens-nonnegative", lambda o: o._tokens >= 0),
         # the bucket of the CURRENT rate: capacity = current_rate * window
         ("tokens-within-the-bucket-of-the-current-rate", lambda o: o._tokens <= o._current_rate * o._window_size)])


def ad_avail(o, t_ns):
    return tb_avail(o, t_ns, rate=o._current_rate, cap=o._current_rate * o._window_size)


ctor(AdaptivePolicy, args={"initial_rate": Real, "min_rate": Real, "max_rate": Real, "increase_step": Opt(Real),
                           "decrease_factor": Real, "window_size": Real},
     requires=[lambda s: s.min_rate * s.window_size >= 1,
               lambda s: True if s.increase_step is None else s.increase_step >= 0],
     ensures=[("starts-at-initial-rate-with-a-full-bucket", lambda s: (s.self._current_rate == s.initial_rate)
               & (s.self._tokens == s.initial_rate * s.window_size))],
     raises={ValueError: [("only-invalid-configuration", lambda s: (s.min_rate <= 0) | (s.max_rate < s.min_rate)
                           | (s.initial_rate < s.min_rate) | (s.initial_rate > s.max_rate) | (s.decrease_factor <= 0)
                           | (s.decrease_factor >= 1) | (s.window_size <= 0))]})

fn(AdaptivePolicy, "try_acquire", args={"now": TIME}, ensures=[
    ("admits-iff-a-token-is-available", lambda s: iff(s.result, ad_avail(s.old(s.self), ns(s.now)) >= 1)),
    ("spends-exactly-one-token-per-admit", lambda s:
        s.self._tokens == ad_avail(s.old(s.self), ns(s.now)) - ite(s.result, 1, 0)),
    ("refill-instant", lambda s: (s.self._last_refill_time is not None)
        and ns(s.self._last_refill_time) == tb_last(s.old(s.self), ns(s.now))),
    ("an-admit-uses-up-one-token-at-that-instant", lambda s:
        ad_avail(s.self, ns(s.now)) == ad_avail(s.old(s.self), ns(s.now)) - ite(s.result, 1, 0)),
    ("rate-untouched", lambda s: unchanged(s, s.self, "_current_rate", "rate_history")),
])

probe_task(AdaptivePolicy, lambda o, t: ad_avail(o, t))

fn(AdaptivePolicy, "time_until_available", args={"now": TIME}, requires=[monotone_now("_last_refill_time")], ensures=[
    ("wait-nonnegative", lambda s: ns(s.result) >= 0),
    ("zero-means-immediate-acquire-succeeds", lambda s: implies(ns(s.result) == 0, ad_avail(s.self, ns(s.now)) >= 1)),
    ("no-acquire-succeeds-before-the-wait-elapsed", lambda s: forall(Int, lambda t: implies(
        (t >= ns(s.now)) & (t < ns(s.now) + ns(s.result)), ad_avail(s.self, t) < 1))),
    ("wait-is-short-of-the-admitting-instant-by-less-than-1ns", lambda s: implies(
        ns(s.result) > 0, ad_avail(s.self, ns(s.now) + ns(s.result) + 1) >= 1)),
    ("asking-does-not-change-availability", lambda s: True if s.old(s.self)._last_refill_time is None else
        forall(Int, lambda t: implies(t >= ns(s.now), ad_avail(s.self, t) == ad_avail(s.old(s.self), t)))),
    ("first-call-starts-the-clock", lambda s: (s.self._last_refill_time is not None)
        and ns(s.self._last_refill_time) == tb_last(s.old(s.self), ns(s.now))),
    ("rate-untouched", lambda s: unchanged(s, s.self, "_current_rate", "rate_history")),
])

drain_task(AdaptivePolicy, "_last_refill_time")

fn(AdaptivePolicy, "record_success", args={"now": TIME}, ensures=[
    ("additive-increase-clamped-to-max", lambda s: s.self._current_rate == rmin(
        s.self._max_rate, s.old(s.self)._current_rate + s.self._increase_step)),
    ("counted", lambda s: s.self.successes == s.old(s.self).successes + 1),
    ("history-records-each-change", lambda s: slen(s.self.rate_history) == slen(s.old(s.self).rate_history)
        + ite(s.self._current_rate > s.old(s.self)._current_rate, 1, 0)),
    ("tokens-untouched", lambda s: unchanged(s, s.self, "_tokens", "_last_refill_time")),
])

for _reason in (RateAdjustmentReason.FAILURE, RateAdjustmentReason.TIMEOUT, RateAdjustmentReason.THROTTLED):
    fn(AdaptivePolicy, "record_failure", label=_reason.name, args={"now": TIME, "reason": (lambda r=_reason: r)}, ensures=[
        ("multiplicative-decrease-clamped-to-min", lambda s: s.self._current_rate == rmax(
            s.self._min_rate, s.old(s.self)._current_rate * s.self._decrease_factor)),
        ("never-increases", lambda s: s.self._current_rate <= s.old(s.self)._current_rate),
        ("counted-once", lambda s: s.self.failures + s.self.timeouts == s.old(s.self).failures + s.old(s.self).timeouts + 1),
        ("history-records-each-change", lambda s: slen(s.self.rate_history) == slen(s.old(s.self).rate_history)
            + ite(s.self._current_rate < s.old(s.self)._current_rate, 1, 0)),
        ("tokens-never-grow", lambda s: s.self._tokens <= s.old(s.self)._tokens),
    ])

lemma("adaptive-interval-bound(max_rate*window+max_rate*length)", _bucket_interval_lemma(True))

# ============================================================================ A5. sliding window
LOG = Seq(TIME)
cls(SlidingWindowPolicy, fields={"_window_size": Real, "_max_requests": Int, "_request_log": LOG},
    const=["_window_size", "_max_requests"],
    inv=[("config", lambda o: (o._window_size > 0) & (o._max_requests >= 1)),
         ("log-is-sorted", lambda o: seq_sorted(o._request_log.term)),
         ("never-more-than-N-logged", lambda o: slen(o._request_log) <= o._max_requests)])


def sw_admits(o, t_ns):
    """fewer than N logged admissions lie inside the closed window [t - Wn, t] (the log is sorted and holds at
    most N entries, so this is: not full, or the oldest entry has left the window)"""
    lg = o._request_log.term
    return mk_bool(z3.Or(z3.Length(lg) < num(o._max_requests),
                         z3.And(z3.Length(lg) > 0, t_at(lg, 0) < num(t_ns) - num(sw_wn(o)))))


def log_monotone(s):
    """C01: now is not before the latest logged admission"""
    lg = s.self._request_log.term
    return mk_bool(z3.Or(z3.Length(lg) == 0, t_at(lg, z3.Length(lg) - 1) <= num(ns(s.now))))


ctor(SlidingWindowPolicy, args={"window_size_seconds": Real, "max_requests": Int},
     requires=[lambda s: (s.window_size_seconds > 0) & (s.max_requests >= 1)],
     ensures=[("empty-log", lambda s: slen(s.self._request_log) == 0)])

# what is dropped (kept apart from the contract the callers use, which needs none of it)
fn(SlidingWindowPolicy, "_prune", label="only-expired-entries-dropped", args={"now": TIME}, ensures=[
    ("kept-part-is-a-suffix", lambda s: seq_is_suffix(s.self._request_log.term, s.old(s.self)._request_log.term)),
    ("dropped-entries-are-older-than-the-window", lambda s: forall(Int, lambda i: mk_bool(z3.Implies(
        z3.And(num(i) >= 0, num(i) < z3.Length(s.old(s.self)._request_log.term) - z3.Length(s.self._request_log.term)),
        t_at(s.old(s.self)._request_log.term, num(i)) < num(ns(s.now)) - num(sw_wn(s.self)))), "i")),
])

fn(SlidingWindowPolicy, "_prune", args={"now": TIME}, modifies=["_request_log"], ensures=[
    ("frame", lambda s: unchanged(s, s.self, "_window_size", "_max_requests")),
    ("latest-entry-is-kept-or-log-empties", lambda s: mk_bool(z3.Or(
        z3.Length(s.self._request_log.term) == 0,
        t_at(s.self._request_log.term, z3.Length(s.self._request_log.term) - 1)
        == t_at(s.old(s.self)._request_log.term, z3.Length(s.old(s.self)._request_log.term) - 1)))),
    ("still-sorted", lambda s: seq_sorted(s.self._request_log.term)),
    ("kept-entries-lie-inside-the-window", lambda s: seq_all_ge(s.self._request_log.term, ns(s.now) - sw_wn(s.self))),
    ("never-grows", lambda s: slen(s.self._request_log) <= slen(s.old(s.self)._request_log)),
    ("nothing-dropped-iff-the-oldest-entry-is-inside-the-window", lambda s: iff(
        slen(s.self._request_log) == slen(s.old(s.self)._request_log),
        mk_bool(z3.Or(z3.Length(s.old(s.self)._request_log.term) == 0,
                      t_at(s.old(s.self)._request_log.term, 0) >= num(ns(s.now)) - num(sw_wn(s.self)))))),
    ("nothing-dropped-means-same-oldest-entry", lambda s: mk_bool(z3.Implies(
        z3.And(z3.Length(s.self._request_log.term) == z3.Length(s.old(s.self)._request_log.term),
               z3.Length(s.self._request_log.term) > 0),
        t_at(s.self._request_log.term, 0) == t_at(s.old(s.self)._request_log.term, 0)))),
    ("oldest-kept-entry-is-inside-the-window", lambda s: mk_bool(z3.Or(
        z3.Length(s.self._request_log.term) == 0,
        t_at(s.self._request_log.term, 0) >= num(ns(s.now)) - num(sw_wn(s.self))))),
])

lemma("sorted-append-unfolding(=>)", _sorted_append_lemma)
lemma("sorted-append-unfolding(<=)", _sorted_append_lemma_rev)
lemma("all-ge-append-unfolding(=>)", _all_ge_append_lemma)
lemma("all-ge-append-unfolding(<=)", _all_ge_append_lemma_rev)

fn(SlidingWindowPolicy, "try_acquire", args={"now": TIME}, requires=[log_monotone], modifies=["_request_log"], returns=Bool,
   uses=[(SlidingWindowPolicy, "_prune")], ensures=[
    ("frame", lambda s: unchanged(s, s.self, "_window_size", "_max_requests")),
    ("still-sorted", lambda s: seq_sorted(s.self._request_log.term)),
    ("never-more-than-N-logged", lambda s: slen(s.self._request_log) <= s.self._max_requests),
    ("admits-iff-fewer-than-N-admissions-inside-the-window", lambda s: iff(s.result, sw_admits(s.old(s.self), ns(s.now)))),
    ("admitted-instant-is-logged-last", lambda s: implies(s.result, mk_bool(z3.And(
        z3.Length(s.self._request_log.term) >= 1,
        t_at(s.self._request_log.term, z3.Length(s.self._request_log.term) - 1) == num(ns(s.now)))))),
    # statement: at most N in any window - the log holds every admission of [now - Wn, now] (sorted, pruned
    # entries are older) and never more than N entries (class invariant)
    ("all-logged-entries-lie-inside-the-window", lambda s: seq_all_ge(s.self._request_log.term, ns(s.now) - sw_wn(s.self))),
    ("denied-only-when-N-admissions-are-inside-the-window", lambda s: implies(
        Not(s.result), slen(s.self._request_log) == s.self._max_requests)),
    ("admitted-only-with-room", lambda s: implies(s.result, slen(s.self._request_log) <= s.self._max_requests)),
])

fn(SlidingWindowPolicy, "time_until_available", args={"now": TIME}, requires=[log_monotone],
   uses=[(SlidingWindowPolicy, "_prune")], ensures=[
    ("wait-nonnegative", lambda s: ns(s.result) >= 0),
    ("zero-means-immediate-acquire-succeeds", lambda s: implies(ns(s.result) == 0, sw_admits(s.self, ns(s.now)))),
    ("no-acquire-succeeds-before-the-wait-elapsed", lambda s: forall(Int, lambda t: implies(
        (t >= ns(s.now)) & (t < ns(s.now) + ns(s.result)), Not(sw_admits(s.self, t))))),
    # the oldest entry is still inside the closed window at now + wait; one nanosecond later it has left
    ("wait-is-short-of-the-admitting-instant-by-at-most-1ns", lambda s: implies(
        ns(s.result) > 0, sw_admits(s.self, ns(s.now) + ns(s.result) + 1))),
    ("asking-does-not-change-availability", lambda s: forall(Int, lambda t: implies(
        t >= ns(s.now), iff(sw_admits(s.self, t), sw_admits(s.old(s.self), t))))),
])

drain_task(SlidingWindowPolicy, lambda p, now: mk_bool(z3.Or(
    z3.Length(p._request_log.term) == 0,
    t_at(p._request_log.term, z3.Length(p._request_log.term) - 1) <= num(ns(now)))),
    uses=[(SlidingWindowPolicy, "_prune"), (SlidingWindowPolicy, "try_acquire")])

# ============================================================================ A4. fixed window
# Aligned windows at clock resolution: Wn = window length in whole nanoseconds (the truncation every
# Instant +/- float applies); window k is [k*Wn, (k+1)*Wn).


def win_ns(o):
    return mk_num(z3.ToInt(num(o._window_size * 1000000000.0))) if not native() else int(o._window_size * 1e9)


def fdiv(a, b):
    """floor division of int terms, b > 0"""
    return a // b if native() else mk_num(num(a) / num(b))


def fw_window_start(o, t_ns):
    return fdiv(t_ns, win_ns(o)) * win_ns(o)


cls(FixedWindowPolicy, fields={"_requests_per_window": Int, "_window_size": Real,
                               "_current_window_start": Opt(TIME), "_current_window_count": Int},
    const=["_requests_per_window", "_window_size"],
    inv=[("config", lambda o: (o._requests_per_window >= 1) & (o._window_size > 0) & (win_ns(o) >= 1)),
         ("never-more-than-N-in-the-current-window", lambda o: (o._current_window_count >= 0)
          & (o._current_window_count <= o._requests_per_window)),
         ("no-window-no-count", lambda o: True if o._current_window_start is not None else o._current_window_count == 0),
         ("window-start-is-aligned", lambda o: True if o._current_window_start is None else
          ns(o._current_window_start) == fw_window_start(o, ns(o._current_window_start)))])


def fw_count(o, t_ns):
    """admissions already counted against the aligned window of instant t"""
    st = o._current_window_start
    if st is None:
        return 0
    return ite(fw_window_start(o, t_ns) > ns(st), 0, o._current_window_count)


def fw_admits(o, t_ns):
    return fw_count(o, t_ns) < o._requests_per_window


ctor(FixedWindowPolicy, args={"requests_per_window": Int, "window_size": Real},
     requires=[lambda s: s.window_size * 1000000000.0 >= 1],
     ensures=[("empty", lambda s: (s.self._current_window_start is None) & (s.self._current_window_count == 0))],
     raises={ValueError: [("only-invalid-configuration", lambda s: (s.requests_per_window < 1) | (s.window_size <= 0))]})

fn(FixedWindowPolicy, "_get_window_start", args={"now": TIME}, ensures=[
    ("window-contains-now", lambda s: (ns(s.result) <= ns(s.now)) & (ns(s.now) < ns(s.result) + win_ns(s.self))),
    ("window-is-aligned", lambda s: ns(s.result) == fw_window_start(s.self, ns(s.now))),
    ("pure", lambda s: unchanged(s, s.self)),
])

fn(FixedWindowPolicy, "try_acquire", args={"now": TIME}, ensures=[
    ("admits-iff-the-aligned-window-has-room", lambda s: iff(s.result, fw_admits(s.old(s.self), ns(s.now)))),
    ("counts-each-admit-once", lambda s: s.self._current_window_count == fw_count(s.old(s.self), ns(s.now)) + ite(s.result, 1, 0)),
    ("window-only-advances", lambda s: (s.self._current_window_start is not None) and ns(s.self._current_window_start) == (
        fw_window_start(s.self, ns(s.now)) if s.old(s.self)._current_window_start is None else
        rmax(ns(s.old(s.self)._current_window_start), fw_window_start(s.self, ns(s.now))))),
])

fn(FixedWindowPolicy, "time_until_available", args={"now": TIME}, requires=[monotone_now("_current_window_start")], ensures=[
    ("wait-nonnegative", lambda s: ns(s.result) >= 0),
    ("zero-means-immediate-acquire-succeeds", lambda s: implies(ns(s.result) == 0, fw_admits(s.self, ns(s.now)))),
    ("no-acquire-succeeds-before-the-wait-elapsed", lambda s: forall(Int, lambda t: implies(
        (t >= ns(s.now)) & (t < ns(s.now) + ns(s.result)), Not(fw_admits(s.self, t))))),
    ("wait-ends-at-an-admitting-instant", lambda s: fw_admits(s.self, ns(s.now) + ns(s.result))),
    ("asking-does-not-change-availability", lambda s: forall(Int, lambda t: implies(
        t >= ns(s.now), iff(fw_admits(s.self, t), fw_admits(s.old(s.self), t))))),
])

drain_task(FixedWindowPolicy, "_current_window_start")


def _fixed_window_lemma():
    # (a) per aligned window: the proved invariant count <= N plus counts-each-admit-once/window-only-advances:
    #     the counter restarts at 0 exactly when the aligned window changes.
    # (b) an interval [s, s+Wn) of one window length meets at most two consecutive aligned windows, hence
    #     holds at most 2N admits.
    Wn, s0, t = fresh(Int, "Wn"), fresh(Int, "s"), fresh(Int, "t")
    assume((Wn >= 1) & (s0 <= t) & (t < s0 + Wn))
    k_s, k_t = fdiv(s0, Wn), fdiv(t, Wn)
    oblige("window-length-interval-meets-at-most-two-aligned-windows", (k_t == k_s) | (k_t == k_s + 1))
    N, c1, c2 = fresh(Int, "N"), fresh(Int, "c1"), fresh(Int, "c2")
    assume((c1 >= 0) & (c1 <= N) & (c2 >= 0) & (c2 <= N))
    oblige("at-most-2N", c1 + c2 <= 2 * N)


lemma("fixed-window-2N-in-any-window-length-interval", _fixed_window_lemma)

# ============================================================================ B. rate limited entities
from happysimulator.components.rate_limiter.policy import RateLimiterPolicy  # noqa: E402
from happysimulator.components.rate_limiter.rate_limited_entity import RateLimitedEntity  # noqa: E402
from happysimulator.components.rate_limiter.null import NullRateLimiter  # noqa: E402
from happysimulator.components.rate_limiter.inductor import Inductor  # noqa: E402
from happysimulator.components.queue_policy import FIFOQueue  # noqa: E402

EV = Ref(Event)
EVSEQ = Seq(EV)

# the FIFO buffer (its own contracts are part of C08; here it runs inlined)
cls(FIFOQueue, fields={"_capacity": IntInf, "_queue": EVSEQ}, const=["_capacity"],
    inv=[("capacity-shape", lambda o: True if isinstance(o._capacity, float) else o._capacity >= 0),
         ("never-above-capacity", lambda o: True if isinstance(o._capacity, float) else slen(o._queue) <= o._capacity)])

# the policy interface as the entity sees it: each of the five policies above proves `wait-nonnegative`
cls(RateLimiterPolicy)
stub_of(RateLimiterPolicy, "try_acquire", returns=Bool, modifies=[])
stub_of(RateLimiterPolicy, "time_until_available", returns=DURATION, modifies=[], ensures=[lambda s: ns(s.result) >= 0])
POLICY_IFACE = [(RateLimiterPolicy, "try_acquire"), (RateLimiterPolicy, "time_until_available")]


def qseq(o):
    """the buffered requests, oldest first (raw sequence term)"""
    return o._queue._queue.term


def _entity_inv(poll_prefix):
    return [
        ("counters-nonneg", lambda o: (o._received >= 0) & (o._forwarded >= 0) & (o._queued >= 0) & (o._dropped >= 0)),
        # statement: every request is forwarded, queued or dropped exactly once
        ("every-request-forwarded-queued-or-dropped-exactly-once", lambda o:
            o._received == o._forwarded + slen(o._queue._queue) + o._dropped),
        ("ever-queued-accounting", lambda o: o._queued >= slen(o._queue._queue)),
        ("time-series-match-counters", lambda o: (slen(o.received_times) == o._received)
            & (slen(o.forwarded_times) == o._forwarded) & (slen(o.dropped_times) == o._dropped)),
        # statement: requests are forwarded in arrival order -
        # (already forwarded) ++ (still buffered) is exactly the sequence of accepted arrivals
        ("forwards-in-arrival-order", lambda o: mk_bool(
            o.g_accepted.term == z3.Concat(o.g_forwarded.term, qseq(o)))),
        ("at-most-one-poll-outstanding", lambda o: o.g_polls == ite(o._poll_scheduled, 1, 0)),
        # the drain never stalls: while requests are buffered a poll is outstanding
        ("buffered-requests-have-a-poll-outstanding", lambda o: implies(slen(o._queue._queue) > 0, o._poll_scheduled)),
    ]


ENTITY_GHOST = {"g_accepted": EVSEQ, "g_forwarded": EVSEQ, "g_polls": Int}
cls(RateLimitedEntity, fields={"_downstream": Ref(Entity), "_policy": Ref(RateLimiterPolicy), "_queue": Ref(FIFOQueue),
                               "_poll_scheduled": Bool, "_received": Int, "_forwarded": Int, "_queued": Int, "_dropped": Int,
                               "received_times": Seq(TIME), "forwarded_times": Seq(TIME), "dropped_times": Seq(TIME)},
    ghost=ENTITY_GHOST, const=["_downstream", "_policy", "_queue"], inv=_entity_inv("rate_limit_poll::"))


def is_forward_of(e, src, s, downstream):
    """e is the forward of request src: stamped with the time of the triggering event, addressed downstream"""
    return (ns(e.time) == ns(s.event.time)) & same(e.target, downstream) & (e.event_type == "forward::" + s.old(src).event_type) \
        & Not(e._cancelled)


def is_poll(e, s, prefix):
    return same(e.target, s.self) & (e.event_type == prefix + s.self.name) & (ns(e.time) >= ns(s.event.time)) & e.daemon


def _request_post(prefix):
    def post(s):
        o, old = s.self, s.old(s.self)
        d_fwd = o._forwarded - old._forwarded
        d_q = slen(o._queue._queue) - slen(s.old(s.self._queue)._queue)
        d_drop = o._dropped - old._dropped
        return (o._received == old._received + 1) & (d_fwd + d_q + d_drop == 1) & (d_fwd >= 0) & (d_q >= 0) & (d_drop >= 0)
    return post


def _request_result(prefix):
    def post(s):
        o, old = s.self, s.old(s.self)
        r = s.result
        fwd = o._forwarded - old._forwarded
        if len(r) == 0:
            # dropped, or queued behind an already outstanding poll
            return fwd == 0
        if len(r) != 1:
            return False
        e = r[0]
        # the admission goes to the oldest waiting request: the arrival itself only when nothing is buffered
        oldq = s.old(s.self._queue)._queue
        src = s.event if _truthy(slen(oldq) == 0) else oldq[0]
        return ite_b(fwd == 1, is_forward_of(e, src, s, o._downstream),
                     is_poll(e, s, prefix) & (slen(o._queue._queue) == slen(s.old(s.self._queue)._queue) + 1))
    return post


def ite_b(c, a, b):
    return implies(c, a) & implies(Not(c), b)


def _poll_post(s):
    o, old = s.self, s.old(s.self)
    return (o._received == old._received) & (o._dropped == old._dropped) \
        & (o._forwarded - old._forwarded == slen(s.old(s.self._queue)._queue) - slen(o._queue._queue)) \
        & (o._forwarded - old._forwarded >= 0) & (o._forwarded - old._forwarded <= 1)


def _poll_result(prefix):
    def post(s):
        o, old = s.self, s.old(s.self)
        r = s.result
        fwd = o._forwarded - old._forwarded
        n_old = slen(s.old(s.self._queue)._queue)
        if len(r) == 0:
            return (fwd == 0) & (slen(o._queue._queue) == 0)
        if len(r) == 1:
            e = r[0]
            # either the last buffered request went out, or nothing could go and the poll is re-armed
            return ite_b(fwd == 1, ns(e.time) == ns(s.event.time), is_poll(e, s, prefix))
        if len(r) == 2:
            return (fwd == 1) & (ns(r[0].time) == ns(s.event.time)) & same(r[0].target, o._downstream) & is_poll(r[1], s, prefix)
        return False
    return post


def _oldest_first(s):
    """a poll forwards the OLDEST buffered request"""
    o, old = s.self, s.old(s.self)
    oq = s.old(s.self._queue)._queue.term
    return implies(o._forwarded == old._forwarded + 1, mk_bool(z3.And(
        z3.Length(oq) >= 1, o.g_forwarded.term == z3.Concat(old.g_forwarded.term, z3.Unit(oq[0])))))


def entity_contracts(K, request, prefix, extra_uses=(), ensure_requires=(), ensure_extra=()):
    uses = POLICY_IFACE + list(extra_uses)
    focus = lambda s: [s.self._queue]        # noqa: E731
    fn(K, request, args={"event": EV}, uses=uses, focus=focus, ensures=[
        ("forwarded-queued-or-dropped-exactly-once", _request_post(prefix)),
        ("emits-the-forward-or-one-poll", _request_result(prefix)),
        ("accepted-unless-dropped", lambda s: slen(s.self.g_accepted) == slen(s.old(s.self).g_accepted)
            + ite(s.self._dropped == s.old(s.self)._dropped, 1, 0)),
    ])
    fn(K, "_handle_poll", args={"event": EV}, uses=uses, focus=focus,
       requires=[("the-delivered-poll-was-scheduled-by-this-entity", lambda s: s.self.g_polls >= 1)], ensures=[
        ("forwards-at-most-one-buffered-request", _poll_post),
        ("forwards-the-oldest-buffered-request", _oldest_first),
        ("emits-forward-and-or-one-poll", _poll_result(prefix)),
        ("no-new-arrivals", lambda s: unchanged(s, s.self, "g_accepted")),
    ])
    fn(K, "_ensure_poll_scheduled", args={"now": TIME}, uses=uses, focus=focus, inv=False,
       requires=[lambda s: s.self.g_polls == ite(s.self._poll_scheduled, 1, 0)] + list(ensure_requires),
       ensures=list(ensure_extra) + [
        ("at-most-one-poll-outstanding", lambda s: (s.self.g_polls == 1) & s.self._poll_scheduled),
        ("schedules-only-when-none-outstanding", lambda s: len(s.result) == (0 if _truthy(s.old(s.self)._poll_scheduled) else 1)),
        ("poll-not-in-the-past", lambda s: True if len(s.result) == 0 else
            (ns(s.result[0].time) >= ns(s.now)) & same(s.result[0].target, s.self) & (s.result[0].event_type == prefix + s.self.name)),
    ])
    # handle_event only dispatches: verified modularly against the two handler clauses proved above (the stubs
    # below restate exactly `forwarded-queued-or-dropped-exactly-once` / `forwards-at-most-one-buffered-request`;
    # the class invariants are established by the handlers themselves, hence inv=False here)
    mods = [f for f in REG.classes[K].fields if f not in REG.classes[K].const] + list(ENTITY_GHOST) \
        + [(lambda s: s.self._queue, "_queue")]
    stub_of(K, request, returns=EVSEQ, modifies=mods, ensures=[_request_post(prefix)])
    stub_of(K, "_handle_poll", returns=EVSEQ, modifies=mods, requires=[("the-delivered-poll-was-scheduled-by-this-entity",
                                                         lambda s: s.self.g_polls >= 1)], ensures=[_poll_post])
    fn(K, "handle_event", args={"event": EV}, uses=[(K, request), (K, "_handle_poll")], focus=focus, inv=False,
       requires=[("a-delivered-poll-was-scheduled-by-this-entity", lambda s: implies(
           s.event.event_type == prefix + s.self.name, s.self.g_polls >= 1))], ensures=[
        ("poll-or-request", lambda s: ite_b(s.event.event_type == prefix + s.self.name,
                                            _poll_post(s), _request_post(prefix)(s))),
    ])


def _truthy(b):
    """fork on a symbolic bool (used where the clause shape depends on it)"""
    return bool(b)


entity_contracts(RateLimitedEntity, "_handle_request", "rate_limit_poll::")

# ---- null limiter: forwards every request exactly once, unchanged
cls(NullRateLimiter, fields={"_downstream": Ref(Entity)}, const=["_downstream"])
fn(NullRateLimiter, "handle_event", args={"event": EV}, ensures=[
    ("forwards-exactly-once-unchanged", lambda s: (len(s.result) == 1) and (
        (ns(s.result[0].time) == ns(s.event.time)) & same(s.result[0].target, s.self._downstream)
        & (s.result[0].event_type == s.event.event_type) & Not(s.result[0]._cancelled))),
])

# ---- inductor (EWMA smoothing): same buffer / poll structure, the admission test is _can_forward
cls(Inductor, fields={"_downstream": Ref(Entity), "_time_constant": Real, "_queue": Ref(FIFOQueue), "_poll_scheduled": Bool,
                      "_smoothed_interval": Opt(Real), "_last_arrival_time": Opt(TIME), "_last_output_time": Opt(TIME),
                      "_received": Int, "_forwarded": Int, "_queued": Int, "_dropped": Int,
                      "received_times": Seq(TIME), "forwarded_times": Seq(TIME), "dropped_times": Seq(TIME),
                      "rate_history": Seq(Tuple(TIME, Real))},
    ghost=ENTITY_GHOST, const=["_downstream", "_queue", "_time_constant"],
    inv=_entity_inv("inductor_poll::") + [
        ("time-constant-positive", lambda o: o._time_constant > 0),
        ("smoothed-interval-nonnegative", lambda o: smoothed_nonneg(o))])


OPT_REAL = Opt(Real)


def smoothed_nonneg(o):
    """_smoothed_interval is None or >= 0 (one formula: reading the Opt field in Python would fork the path)"""
    if native():
        return o._smoothed_interval is None or o._smoothed_interval >= 0
    t = field_term(o, "_smoothed_interval")
    return mk_bool(z3.Or(OPT_REAL.dt.is_none(t), OPT_REAL.dt.val(t) >= 0))

fn(Inductor, "_can_forward", args={"now": TIME}, returns=Bool, modifies=[], ensures=[
    ("forwards-only-when-one-smoothed-interval-has-passed-since-the-last-output", lambda s: iff(s.result, ind_admits(s.self, ns(s.now)))),
    ("pure", lambda s: unchanged(s, s.self)),
])


OPT_TIME = Opt(TIME)


def ind_admits(o, t_ns):
    """no output yet, no (positive) estimate yet, or one smoothed interval has passed since the last output
    (written on the raw Opt terms: one formula, no path fork in the callers that use the contract)"""
    if native():
        lo, sm = o._last_output_time, o._smoothed_interval
        return lo is None or sm is None or sm <= 0 or (t_ns - lo.nanoseconds) / 1e9 >= sm
    lo, sm = field_term(o, "_last_output_time"), field_term(o, "_smoothed_interval")
    smv = OPT_REAL.dt.val(sm)
    el = z3.ToReal(num(t_ns) - TIME.dt.nanoseconds(OPT_TIME.dt.val(lo))) / z3.RealVal(NS_PER_S)
    return mk_bool(z3.Or(OPT_TIME.dt.is_none(lo), OPT_REAL.dt.is_none(sm), smv <= 0, el >= smv))


fn(Inductor, "_update_rate_estimate", args={"now": TIME}, inv=False, modifies=["_smoothed_interval", "rate_history"],
   requires=[lambda s: s.self._time_constant > 0,
             lambda s: smoothed_nonneg(s.self)], ensures=[
    ("smoothed-interval-stays-nonnegative", lambda s: smoothed_nonneg(s.self)),
    ("estimate-is-between-the-old-estimate-and-the-new-gap", lambda s: _ewma_between(s)),
    ("only-the-estimate-changes", lambda s: unchanged(s, s.self, "_received", "_forwarded", "_queued", "_dropped",
                                                       "_last_output_time", "_last_arrival_time", "_poll_scheduled")),
])


def _ewma_between(s):
    old_t, new_t = field_term(s.old(s.self), "_smoothed_interval"), field_term(s.self, "_smoothed_interval")
    la_t = field_term(s.old(s.self), "_last_arrival_time")
    old, new = OPT_REAL.dt.val(old_t), OPT_REAL.dt.val(new_t)
    dt = z3.ToReal(num(ns(s.now)) - TIME.dt.nanoseconds(OPT_TIME.dt.val(la_t))) / z3.RealVal(NS_PER_S)
    lo, hi = z3.If(old <= dt, old, dt), z3.If(old >= dt, old, dt)
    return mk_bool(z3.Implies(
        z3.And(z3.Not(OPT_TIME.dt.is_none(la_t)), z3.Not(OPT_REAL.dt.is_none(old_t)), z3.Not(OPT_REAL.dt.is_none(new_t)), dt >= 0),
        z3.And(new >= lo, new <= hi)))


entity_contracts(
    Inductor, "_handle_arrival", "inductor_poll::",
    extra_uses=[(Inductor, "_update_rate_estimate"), (Inductor, "_can_forward")],
    ensure_requires=[lambda s: smoothed_nonneg(s.self)],
    ensure_extra=[
        # the drain never stalls: a poll is strictly later than now (a poll at `now` cannot forward when the
        # request was just refused at `now`, and would re-arm itself at a frozen clock)
        ("poll-strictly-advances-the-clock", lambda s: True if len(s.result) == 0 else ns(s.result[0].time) > ns(s.now))])

# ============================================================================ C. distributed limiter (local part)
from happysimulator.components.rate_limiter.distributed import DistributedRateLimiter  # noqa: E402

import inspect as _inspect  # noqa: E402
from happysimulator.components.datastore.kv_store import KVStore  # noqa: E402

# Repair gate (fixes/C10_distributed-atomic-increment.diff): the shared window counter is raised by an atomic
# increment of the store instead of a read followed, one store latency later, by a write of the stale count + 1.
DRL_ATOMIC = "increment(key)" in _inspect.getsource(DistributedRateLimiter.check_and_increment)

# The backing store: the real KVStore (get / put / increment run inlined), holding the window counters.
COUNTS = Map(Str, Int)
cls(KVStore, fields={"_read_latency": Real, "_write_latency": Real, "_delete_latency": Real, "_capacity": Opt(Int),
                     "_data": COUNTS, "_insertion_order": Seq(Str), "_reads": Int, "_writes": Int, "_deletes": Int,
                     "_hits": Int, "_misses": Int, "_evictions": Int},
    const=["_read_latency", "_write_latency", "_delete_latency", "_capacity"],
    inv=[("latencies-nonneg", lambda o: (o._read_latency >= 0) & (o._write_latency >= 0)),
         ("window-counters-nonnegative", lambda o: forall(Str, lambda k: o._data.get(k, 0) >= 0))],
    # rely/guarantee between all callers sharing the store (closed under composition): what every step of
    # check_and_increment must keep, and what it may assume of the steps of the other requests in flight.
    # On the unrepaired tree the write of a stale count + 1 LOWERS the counter (lost update): gated.
    guarantee=[("shared-window-counters-never-decrease", lambda old, new: forall(Str, lambda k:
                new._data.get(k, 0) >= old._data.get(k, 0)))] if DRL_ATOMIC else [])

cls(DistributedRateLimiter, fields={"_downstream": Ref(Entity), "_backing_store": Ref(KVStore), "_global_limit": Int,
                                    "_window_size": Real, "_key_prefix": Str, "_local_threshold": Real,
                                    "_local_window_id": Opt(Int), "_local_count": Int, "_last_known_global_count": Int,
                                    "_requests_received": Int, "_requests_forwarded": Int, "_requests_dropped": Int,
                                    "_store_reads": Int, "_store_writes": Int, "_local_rejections": Int,
                                    "_global_rejections": Int,
                                    "received_times": Seq(TIME), "forwarded_times": Seq(TIME), "dropped_times": Seq(TIME),
                                    "global_counts": Seq(Tuple(TIME, Int))},
    const=["_downstream", "_backing_store", "_global_limit", "_window_size", "_key_prefix", "_local_threshold"],
    inv=[("config", lambda o: (o._global_limit >= 1) & (o._window_size > 0) & (o._local_threshold > 0) & (o._local_threshold <= 1))])

_ENTITY_INIT = [Entity.__init__]


def _attached(s):
    """Entity.__init__ without the `_clock = None` store (the clock is injected before any handler runs: common.py
    types Entity._clock as a non-optional reference)"""
    def _init(self, name):
        self.name = name
    Entity.__init__ = _init
    return []


def _detach(s):
    Entity.__init__ = _ENTITY_INIT[0]


# the `config` invariant (limit >= 1, window > 0, threshold in (0, 1]) is what the constructor validates
ctor(DistributedRateLimiter, args={"name": Str, "downstream": Ref(Entity), "backing_store": Ref(KVStore), "global_limit": Int,
                                   "window_size": Real, "key_prefix": Str, "local_threshold": Real},
     setup=_attached, teardown=_detach, ensures=[
    ("starts-with-no-window-and-zero-counters", lambda s: (s.self._local_window_id is None) & (s.self._local_count == 0)
        & (s.self._last_known_global_count == 0) & (s.self._requests_received == 0) & (s.self._requests_forwarded == 0)
        & (s.self._requests_dropped == 0)),
    ("configuration-stored", lambda s: (s.self._global_limit == s.global_limit) & (s.self._window_size == s.window_size)
        & same(s.self._backing_store, s.backing_store) & same(s.self._downstream, s.downstream))],
     raises={ValueError: [("only-invalid-configuration", lambda s: (s.global_limit < 1) | (s.window_size <= 0)
                           | (s.local_threshold <= 0) | (s.local_threshold > 1))]})

fn(DistributedRateLimiter, "_get_window_id", args={"now": TIME}, ensures=[
    ("now-lies-in-the-aligned-window-of-that-id", lambda s: (s.result * s.self._window_size <= secs(ns(s.now)))
        & (secs(ns(s.now)) < (s.result + 1) * s.self._window_size)),
    ("pure", lambda s: unchanged(s, s.self)),
])

fn(DistributedRateLimiter, "_should_sync", ensures=[
    ("sync-iff-local-count-reaches-the-threshold-share-of-the-estimated-remainder", lambda s: iff(
        s.result, s.self._local_count >= (s.self._global_limit - s.self._last_known_global_count) * s.self._local_threshold)),
    ("pure", lambda s: unchanged(s, s.self)),
])

# ---- check_and_increment / handle_event: generators; at every yield (store latency) any other request of this or
# of another limiter sharing the store may run (all non-const fields are havoc'd, the store keeps its guarantee).
# The counter key is an (uninterpreted) function of prefix and window id: the f-string itself is not modelled.
_KEYF = z3.Function("c10_counter_key", z3.StringSort(), z3.IntSort(), z3.StringSort())


def drl_key(o, now):
    """key of the shared counter that an arrival at `now` is charged to: the one of the aligned window of now"""
    return Str.wrap(_KEYF(Str.unwrap(o._key_prefix), num(o._get_window_id(now))))


stub_of(DistributedRateLimiter, "_get_counter_key", returns=Str, modifies=[], ensures=[
    lambda s: mk_bool(Str.unwrap(s.result) == _KEYF(Str.unwrap(s.self._key_prefix), num(s.window_id)))])

DRL_YIELDS = dict(stable=[("Entity", "_clock")])
DRL_FOCUS = lambda s: [s.self._backing_store]       # noqa: E731
DRL_REQ = [("backing-store-unbounded", lambda s: s.self._backing_store._capacity is None)]


def _yielded(s):
    """this path has passed a yield (the final atomic segment does not start at function entry)"""
    return s._seg is not s._old


def _cnt(store, key):
    return store._data.get(key, 0)


def _drl_admission_clauses():
    cl = [
        # statement: never more than the limit per window across all callers sharing the store
        ("admitted-only-while-the-shared-counter-of-its-window-is-within-the-limit", lambda s: implies(
            s.result, (_cnt(s.self._backing_store, drl_key(s.self, s.now)) <= s.self._global_limit)
            & (_cnt(s.self._backing_store, drl_key(s.self, s.now)) >= 1))),
        ("an-admission-leaves-its-count-in-the-shared-counter", lambda s: implies(
            s.result, _cnt(s.self._backing_store, drl_key(s.self, s.now)) == s.self._last_known_global_count)),
        ("only-the-counter-of-the-window-of-now-is-written", lambda s: forall(Str, lambda k: implies(
            mk_bool(Str.unwrap(k) != Str.unwrap(drl_key(s.self, s.now))),
            _cnt(s.self._backing_store, k) == _cnt(s.pre(s.self._backing_store), k)))),
        # local counters are reconciled without double counting
        ("local-count-counts-each-own-admission-once", lambda s: implies(
            s.result, s.self._local_count == s.pre(s.self)._local_count + 1)),
        ("a-rejection-is-counted-once", lambda s: implies(Not(s.result), (
            s.self._local_rejections + s.self._global_rejections
            == s.pre(s.self)._local_rejections + s.pre(s.self)._global_rejections + 1))),
        ("an-admission-is-no-rejection", lambda s: implies(s.result, (
            s.self._local_rejections + s.self._global_rejections
            == s.pre(s.self)._local_rejections + s.pre(s.self)._global_rejections))),
        ("rejected-without-asking-the-store-only-when-the-window-is-known-to-be-full", lambda s: implies(
            Not(_yielded(s)), Not(s.result) & (s.self._last_known_global_count >= s.self._global_limit))),
        ("request-counters-untouched", lambda s: unchanged_since(s, "_requests_received", "_requests_forwarded",
                                                                  "_requests_dropped")),
    ]
    if DRL_ATOMIC:
        cl += [
            # each admission takes a slot of its own: in the atomic step that admits, the shared counter of the window
            # goes up by exactly one from the value every other caller left there (no lost update, no double count)
            ("an-admission-raises-the-shared-counter-atomically-by-one", lambda s: implies(
                s.result, _cnt(s.self._backing_store, drl_key(s.self, s.now))
                == _cnt(s.pre(s.self._backing_store), drl_key(s.self, s.now)) + 1)),
        ]
    return cl


fn(DistributedRateLimiter, "check_and_increment", args={"now": TIME}, focus=DRL_FOCUS, requires=DRL_REQ,
   uses=[(DistributedRateLimiter, "_get_counter_key")],
   yields=Yields(at_yield=[
       ("store-delay-nonnegative", lambda s, y: y >= 0),
       ("nothing-decided-before-the-store-answered", lambda s, y: unchanged_since(s, "_local_rejections", "_global_rejections")),
   ], **DRL_YIELDS),
   ensures=_drl_admission_clauses())


def unchanged_since(s, *fields):
    out = True
    for f in fields:
        out = out & (getattr(s.self, f) == getattr(s.pre(s.self), f))
    return out


def _drl_forward(s):
    """statement: a forwarded request is forwarded exactly once; a refused one is dropped (exactly once)"""
    o, pre = s.self, s.pre(s.self)
    d_fwd, d_drop = o._requests_forwarded - pre._requests_forwarded, o._requests_dropped - pre._requests_dropped
    r = s.result
    if len(r) == 0:
        return (d_fwd == 0) & (d_drop == 1)
    if len(r) != 1:
        return False
    e = r[0]
    return (d_fwd == 1) & (d_drop == 0) & same(e.target, o._downstream) & Not(e._cancelled) \
        & (e.event_type == "forward::" + s.old(s.event).event_type)     # (stamp not in the past: C07)


fn(DistributedRateLimiter, "handle_event", args={"event": EV}, focus=DRL_FOCUS, requires=DRL_REQ,
   uses=[(DistributedRateLimiter, "_get_counter_key")],
   yields=Yields(at_yield=[
       ("store-delay-nonnegative", lambda s, y: y >= 0),
       ("received-counted-once-on-arrival", lambda s, y: s.self._requests_received
           == s.pre(s.self)._requests_received + (0 if _yielded(s) else 1)),
       ("nothing-decided-before-the-store-answered", lambda s, y: unchanged_since(s, "_requests_forwarded", "_requests_dropped")),
   ], keep=lambda s, y: [s.event], **DRL_YIELDS),      # the request being handled belongs to this process
   ensures=[
    ("forwarded-or-dropped-exactly-once", _drl_forward),
    ("received-counted-once-on-arrival", lambda s: s.self._requests_received
        == s.pre(s.self)._requests_received + (0 if _yielded(s) else 1)),
    ("time-series-follow-the-counters", lambda s: (
        slen(s.self.forwarded_times) - slen(s.pre(s.self).forwarded_times)
        == s.self._requests_forwarded - s.pre(s.self)._requests_forwarded)
        & (slen(s.self.dropped_times) - slen(s.pre(s.self).dropped_times)
           == s.self._requests_dropped - s.pre(s.self)._requests_dropped)),
    # the request is forwarded iff its window's shared counter admitted it (clauses of check_and_increment, inlined)
    ("forwarded-iff-admitted-dropped-iff-rejected", lambda s: (
        s.self._local_count - s.pre(s.self)._local_count == s.self._requests_forwarded - s.pre(s.self)._requests_forwarded)
        & (s.self._local_rejections + s.self._global_rejections - s.pre(s.self)._local_rejections
           - s.pre(s.self)._global_rejections == s.self._requests_dropped - s.pre(s.self)._requests_dropped)),
    ("a-forward-leaves-its-count-in-the-shared-counter", lambda s: implies(
        len(s.result) == 1, _cnt(s.self._backing_store, drl_key(s.self, s.old(s.event).time))
        == s.self._last_known_global_count)),
    ("forwarded-only-while-the-shared-counter-of-its-window-is-within-the-limit", lambda s: implies(
        len(s.result) == 1, _cnt(s.self._backing_store, drl_key(s.self, s.event.time)) <= s.self._global_limit)),
] + ([("a-forward-raises-the-shared-counter-atomically-by-one", lambda s: implies(
        len(s.result) == 1, _cnt(s.self._backing_store, drl_key(s.self, s.event.time))
        == _cnt(s.pre(s.self._backing_store), drl_key(s.self, s.event.time)) + 1))] if DRL_ATOMIC else []))


def _drl_limit_lemma():
    """Induction step of `at most global_limit admissions per window across all callers` over the proved step
    contracts: the shared counter c of the window never decreases (store guarantee), an admitting step raises it by
    exactly one and leaves it <= limit.  Potential: admissions n <= c; at every admission c <= limit."""
    n, c, c_pre, c_post, lim = (fresh(Int, x) for x in ("n", "c", "c_pre", "c_post", "limit"))
    adm = fresh(Bool, "admitted")
    assume((n >= 0) & (n <= c) & (lim >= 1))
    assume(c_pre >= c)                                                 # other callers' steps since (guarantee)
    assume(implies(adm, (c_post == c_pre + 1) & (c_post <= lim)))      # admitting step
    assume(implies(Not(adm), c_post >= c_pre))                         # any other step
    n2 = n + ite(adm, 1, 0)
    oblige("admissions-never-exceed-the-shared-counter", n2 <= c_post)
    oblige("at-most-limit-admissions-per-window", implies(adm, n2 <= lim))


if DRL_ATOMIC:
    lemma("distributed-at-most-limit-per-window-across-all-callers", _drl_limit_lemma)


# ============================================================================ D. rate limiting inside other components
# APIGateway (per-route policy) and Sidecar consult a RateLimiterPolicy and drop what it refuses: each request asks
# the policy exactly once, at the current instant; a refused request is dropped and counted exactly once and is not
# forwarded; an admitted request is never counted as rate limited.
from happysimulator.components.microservice.api_gateway import APIGateway, RouteConfig  # noqa: E402
from pyvc import ctx as _pyvc_ctx  # noqa: E402

cls(RouteConfig, fields={"name": Str, "backends": Seq(Ref(Entity)), "rate_limit_policy": OptRef(RateLimiterPolicy),
                         "auth_required": Bool, "timeout": Opt(Real)})
cls(APIGateway, fields={"_requests_routed": Int, "_requests_rejected_rate_limit": Int, "_requests_no_backend": Int,
                        "_total_requests": Int, "_next_request_id": Int})
stub_of(APIGateway, "_select_backend", returns=Ref(Entity), modifies=[])
stub_of(APIGateway, "_forward_request", returns=EVSEQ, modifies=["_requests_routed", "_next_request_id"], ensures=[
    lambda s: s.self._requests_routed == s.old(s.self)._requests_routed + 1])


def _trace(name):
    return [r for r in _pyvc_ctx.cur().ghost_args.get("trace", []) if r[0] == name]


def _gw_limits(s):
    asks, fwds = _trace("RateLimiterPolicy.try_acquire"), _trace("APIGateway._forward_request")
    o, old = s.self, s.old(s.self)
    d_rej = o._requests_rejected_rate_limit - old._requests_rejected_rate_limit
    d_nob, d_fwd = o._requests_no_backend - old._requests_no_backend, o._requests_routed - old._requests_routed
    once = (d_rej + d_nob + d_fwd == 1) & (d_rej >= 0) & (d_nob >= 0) & (d_fwd >= 0) & (d_fwd == len(fwds))
    pol = s.route.rate_limit_policy
    if pol is None:
        return once & (d_rej == 0) if len(asks) == 0 else False
    if len(asks) != 1:
        return False        # asking twice would spend two tokens on one request
    _, vals, admitted = asks[0]
    return once & same(vals["self"], pol) & (ns(vals["now"]) == now_ns(s.self)) \
        & iff(admitted, d_rej == 0) & implies(Not(admitted), d_fwd == 0) \
        & ((s.result is None) if len(fwds) == 0 else (s.result is not None))


fn(APIGateway, "_rate_limit_and_route", args={"event": EV, "route_key": Str, "route": Ref(RouteConfig)},
   uses=POLICY_IFACE + [(APIGateway, "_select_backend"), (APIGateway, "_forward_request")],
   ensures=[("asks-the-route-policy-once-and-drops-what-it-refuses-exactly-once", _gw_limits)])


from happysimulator.components.microservice.sidecar import Sidecar  # noqa: E402

cls(Sidecar, fields={"_rate_limit_policy": OptRef(RateLimiterPolicy), "_total_requests": Int, "_rate_limited": Int,
                     "_circuit_broken": Int, "_circuit_state": Any, "_next_request_id": Int})
stub_of(Sidecar, "_check_circuit_timeout", modifies=["_circuit_state"])
stub_of(Sidecar, "_forward_request", returns=EVSEQ, modifies=["_next_request_id"])


def _sc_limits(s):
    asks, fwds = _trace("RateLimiterPolicy.try_acquire"), _trace("Sidecar._forward_request")
    o, old = s.self, s.old(s.self)
    d_rej, d_cb = o._rate_limited - old._rate_limited, o._circuit_broken - old._circuit_broken
    once = (d_rej + d_cb + len(fwds) == 1) & (d_rej >= 0) & (d_cb >= 0) & (o._total_requests == old._total_requests + 1)
    pol = o._rate_limit_policy
    if pol is None:
        return once & (d_rej == 0) if len(asks) == 0 else False
    if len(asks) != 1:
        return False
    _, vals, admitted = asks[0]
    return once & same(vals["self"], pol) & (ns(vals["now"]) == now_ns(s.self)) & iff(admitted, d_rej == 0) \
        & ((s.result is None) if len(fwds) == 0 else (s.result is not None))


fn(Sidecar, "_handle_request", args={"event": EV},
   uses=POLICY_IFACE + [(Sidecar, "_check_circuit_timeout"), (Sidecar, "_forward_request")],
   ensures=[("asks-the-policy-once-and-drops-what-it-refuses-exactly-once", _sc_limits)])


# ============================================================================ sliding window: the interval bound
def _sliding_window_lemma():
    """From the proved contracts - the log is sorted, holds at most N entries (class invariant), after
    try_acquire(now) every logged entry lies in [now - Wn, now], _prune only drops entries older than the window
    and keeps a suffix - every admission of the closed window [now - Wn, now] is still logged when `now` is
    admitted.  So the admissions inside that window are at most N.  Induction step over the admissions:
    a_0 <= a_1 <= ... admitted instants; claim a_{i+N} > a_i + Wn.  The log after admitting a_{i+N} holds the
    latest <= N admissions, the oldest logged one is some a_j with j >= i+1, and a_i was dropped by a prune at
    an instant t <= a_{i+N} because it was older than t - Wn."""
    Wn, N = fresh(Int, "Wn"), fresh(Int, "N")
    a_i, t_prune, a_new = fresh(Int, "a_i"), fresh(Int, "t_prune"), fresh(Int, "a_new")
    assume((Wn >= 0) & (N >= 1))
    assume(a_i < t_prune - Wn)            # contract of _prune: dropped entries are older than the window
    assume(t_prune <= a_new)              # C01: instants are non-decreasing
    oblige("an-admission-dropped-from-the-log-is-outside-every-later-window", a_i < a_new - Wn)
    # counting: the window [a_new - Wn, a_new] holds only logged admissions, the log holds at most N
    n_logged, n_in_window = fresh(Int, "n_logged"), fresh(Int, "n_in_window")
    assume((n_logged <= N) & (n_in_window <= n_logged))
    oblige("at-most-N-in-any-window", n_in_window <= N)


lemma("sliding-window-at-most-N-in-any-window", _sliding_window_lemma)


# ============================================================================ bounded float cross-check
def _float_boundary_grid(seed, tier):
    """The proofs above treat floats as reals (A-float).  This native stand-in runs the REAL policies in
    IEEE floats on boundary-aligned arrival grids (multiples of 1/rate and of the window, +-1 ns, equal
    instants) and checks the statement's clauses directly: zero wait => acquire succeeds, no acquire 1 ns
    before the returned wait ends, the drain admits within 3 waits, fixed window <= N per aligned window
    (Wn = int(W*1e9) ns) and <= 2N per window length, sliding window <= N per window, leaky spacing."""
    import copy
    import random
    from collections import Counter
    n_eval, bad = 0, {}
    seeds = 150 if tier == "quick" else 1500
    for sd in range(seeds):
        rng = random.Random(seed * 100003 + sd)
        rate = rng.choice([1.0, 3.0, 7.0, 10.0, 0.3, 1000.0])
        cap = rng.choice([1.0, 2.0, 5.0])
        W = rng.choice([0.1, 0.3, 0.5, 1.0, 1 / 3])
        N = rng.choice([1, 2, 5])
        Wn = int(W * 1e9)
        step = rng.choice([int(1e9 / rate), Wn])
        t, ts = 0, []
        for _ in range(rng.randint(5, 40)):
            t += rng.choice([0, 1, 2, step - 1, step, step + 1, step // 2, step // 3, rng.randrange(1, 3 * step)])
            ts.append(t)
        def new(K, *a, **k):
            # (a worker process that verified tasks before has had K.__new__ patched and restored, after which
            # CPython's object.__new__ rejects constructor arguments: allocate and initialise explicitly)
            o = object.__new__(K)
            o.__init__(*a, **k)
            return o
        makers = {
            "TokenBucketPolicy": lambda: new(TokenBucketPolicy, capacity=cap, refill_rate=rate),
            "LeakyBucketPolicy": lambda: new(LeakyBucketPolicy, leak_rate=rate),
            "SlidingWindowPolicy": lambda: new(SlidingWindowPolicy, W, N),
            "FixedWindowPolicy": lambda: new(FixedWindowPolicy, N, W),
            "AdaptivePolicy": lambda: new(AdaptivePolicy, initial_rate=max(rate, 1.0), min_rate=1.0, max_rate=10000.0),
        }
        for name, mk in makers.items():
            p = mk()
            adm = [x for x in ts if p.try_acquire(Instant(x))]
            n_eval += len(ts)
            if name == "FixedWindowPolicy":
                if any(v > N for v in Counter(x // Wn for x in adm).values()):
                    bad.setdefault(name + ": more than N in one aligned window", {"W": W, "N": N, "times": ts[:12]})
                if any(sum(1 for y in adm if x <= y < x + Wn) > 2 * N for x in adm):
                    bad.setdefault(name + ": more than 2N in a window length", {"W": W, "N": N})
            if name == "SlidingWindowPolicy" and any(sum(1 for y in adm if x <= y <= x + Wn) > N for x in adm):
                bad.setdefault(name + ": more than N in a window", {"W": W, "N": N})
            if name == "LeakyBucketPolicy" and any((b - a) / 1e9 < 1 / rate - 2e-9 for a, b in zip(adm, adm[1:])):
                bad.setdefault(name + ": spacing below 1/rate", {"rate": rate})
            now = Instant(ts[-1])
            w = p.time_until_available(now)
            n_eval += 1
            if w == Duration.ZERO:
                if not p.try_acquire(now):
                    bad.setdefault(name + ": zero wait but acquire denied", {"W": W, "N": N, "rate": rate, "now_ns": ts[-1]})
                continue
            if w.nanoseconds > 1 and copy.deepcopy(p).try_acquire(now + Duration(w.nanoseconds - 1)):
                bad.setdefault(name + ": acquire succeeds before the wait elapsed", {"W": W, "N": N, "rate": rate})
            cur, ok, q = now, False, copy.deepcopy(p)
            for _ in range(4):
                ww = q.time_until_available(cur)
                if ww == Duration.ZERO:
                    ok = q.try_acquire(cur)
                    break
                cur = cur + ww
            if not ok:
                bad.setdefault(name + ": drain does not reach an admitting instant in 3 waits",
                               {"W": W, "N": N, "rate": rate, "cap": cap, "now_ns": ts[-1]})
    return {"evaluations": n_eval, "violations": [{"case": k, **v} for k, v in sorted(bad.items())]}


PROPERTY["bounded"] = [{"name": "float-boundary-grid", "bound": "150 (quick) / 1500 (thorough) random boundary-aligned arrival "
                        "grids x 5 policies, IEEE floats, native CPython", "fn": _float_boundary_grid}]


def _distributed_schedules(seed, tier):
    """End-to-end stand-in for the cross-request induction that the step contracts of check_and_increment leave to the
    lemma: 1-3 DistributedRateLimiters on one KVStore under a real Simulation, random latencies, bursts and overlapping
    store round trips; per aligned window no more than global_limit requests reach the sinks, every request is forwarded
    or dropped exactly once (triage/c10_distributed_race.py, clean interpreter)."""
    return run_native_script("triage/c10_distributed_race.py", 60 if tier == "quick" else 3000, seed)


# Only with the repair (fixes/C10_distributed-atomic-increment.diff): on the unrepaired tree overlapping round trips
# over-admit (open finding, triage/c10_distributed_race.py), see DRL_ATOMIC.
if DRL_ATOMIC:
    PROPERTY["bounded"].append({"name": "distributed-limit-under-overlapping-store-round-trips",
                                "bound": "60 (quick) / 3000 (thorough) random schedules, 1-3 limiters x 3-25 arrivals, "
                                "native Simulation", "fn": _distributed_schedules})

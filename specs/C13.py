"""C13 - membership: no false deaths on a healthy network, real failures are detected.

Part A: phi-accrual detector (sample window, phi as a function of the silence, "phi never decreases
        while no heartbeat arrives" proved relationally on two real calls).
Part B: per-member state machine of MembershipProtocol (who may set which state, incarnations).
Part C: the probe cycle (probe tick, ack, missed-ack deadline, suspicion timeout, probe order).
See DESIGN.md section 3-C13 for the clauses and what is not decided (cross-node timing).
"""
from pyvc.spec import *

from pyvc import ctx as _ctx  # noqa: E402
from pyvc.heap import Box, _default_of  # noqa: E402
from pyvc.types import Ty  # noqa: E402

F_MEM = "happysimulator/components/consensus/membership.py"
F_PHI = "happysimulator/components/consensus/phi_accrual_detector.py"

# ---------------------------------------------------------------------------- loop contracts
# (declared before the repo modules are imported; the helpers they call are defined further down)
MEMBER_STATE = [("MemberInfo", "state"), ("MemberInfo", "incarnation")]


class Later(Ty):
    """a type that is defined further down in this file (loop contracts must be declared first)"""

    def __init__(self, f):
        self.f = f

    name = property(lambda self: self.f().name)

    def sort(self):
        return self.f().sort()

    def wrap(self, term, loc=None):
        return self.f().wrap(term, loc)

    def unwrap(self, v):
        return self.f().unwrap(v)

    def assume_wf(self, term):
        return self.f().assume_wf(term)

    def concretize(self, model, term):
        return self.f().concretize(model, term)


# MembershipProtocol._apply_updates: for update in updates
# while the first L.i updates of a gossip list have been applied: every member record made a legal step, and
# the only deaths / new suspicions are the ones an applied update asked for
# (ghost witness g_cause[name] = position of the update that last set name's state: keeps the invariants free of
#  `exists`; g_pos = position of the update being applied)
ghost(F_MEM, "MembershipProtocol._apply_updates", "", "self.g_pos = -1", where="entry")
ghost(F_MEM, "MembershipProtocol._apply_updates", "member_name = update.get('member')", "self.g_pos = self.g_pos + 1", where="before")
for _pat in ("info.state = MemberState.SUSPECT", "info.state = MemberState.DEAD", "info.state = MemberState.ALIVE"):
    ghost(F_MEM, "MembershipProtocol._apply_updates", _pat, "self.g_cause[member_name] = self.g_pos")


def gossip_facts(o0, o1, seq_t):
    """between the views o0 and o1 of a node, with seq_t the (raw) list of updates applied so far"""
    return [
        ("every-member-made-a-legal-step", members_rel(o0, step_ok)),
        ("deaths-only-as-announced-by-an-applied-update", members_rel(o0, lambda a, b: implies(
            (st(b) == DEAD) & (st(a) != DEAD), caused(o1, seq_t, a.name, "dead", a.incarnation)))),
        ("new-suspicions-only-as-announced-by-an-applied-update", members_rel(o0, lambda a, b: implies(
            (st(b) == SUSPECT) & (st(a) != SUSPECT), caused(o1, seq_t, a.name, "suspect", a.incarnation)))),
    ]


GOSSIP_NAMES = ["every-member-made-a-legal-step", "deaths-only-as-announced-by-an-applied-update",
                "new-suspicions-only-as-announced-by-an-applied-update"]
GOSSIP_INV = [(n, (lambda L, i=i: gossip_facts(L.old(L.self), L.self, seq_term(L.seq))[i][1]))
              for i, n in enumerate(GOSSIP_NAMES)] + [("members-well-formed", lambda L: members_well_formed(L.self)),
                                                       ("ghost-position-is-the-loop-index", lambda L: L.self.g_pos == L.i - 1)]
GOSSIP_MODIFIES = MEMBER_STATE + [("MembershipProtocol", "g_cause"), ("MembershipProtocol", "g_pos")]
loop(F_MEM, "MembershipProtocol._apply_updates", 1, modifies=GOSSIP_MODIFIES, elem=Later(lambda: UPD),
     types={"update": lambda: UPD}, inv=GOSSIP_INV)

# ---- lists of member names are modelled as Vec(Str) (array + length): index facts instantiate well
from pyvc.vec import Vec, SymVec  # noqa: E402

NAMES = Vec(Str)


def vlen(x):
    return len(x) if isinstance(x, list) else slen(x)


def vec_all(x, pred):
    """pred(raw element term) for every element of a list of names (python list at a loop entry, SymVec later)"""
    if isinstance(x, list):
        return all_of(*[pred(Str.unwrap(e)) for e in x])
    arr = x.arr()
    return forall(Int, lambda j: implies((0 <= j) & (j < slen(x)), pred(z3.Select(arr, j.t))), "j")


def probeable(o, kt):
    """the name (raw term) is a member of o that is not reported DEAD"""
    mt = field_term(o, "_members")
    info = ObjProxy(z3.Select(MEMBERS.dt.val(mt), kt), MemberInfo, o._frozen)
    return mk_bool(z3.Select(MEMBERS.dt.dom(mt), kt)) & (st(info) != DEAD)


# MembershipProtocol._next_probe_target: alive = [name for name in self._probe_order if <member and not DEAD>]
loop(F_MEM, "MembershipProtocol._next_probe_target", "comp1", types={"alive": NAMES}, inv=[
    ("candidates-are-non-dead-members", lambda L: vec_all(L.alive, lambda kt: probeable(L.self, kt))),
    ("no-candidate-only-if-none-seen", lambda L: implies(vlen(L.alive) == 0, forall(Int, lambda j: implies(
        (0 <= j) & (j < L.i), Not(probeable(L.self, L.seq[j.t]))), "j"))),
    ("at-most-one-candidate-per-visited-name", lambda L: vlen(L.alive) <= L.i)])

# (ghost: the candidate list the target is taken from, so that the contract can say WHICH candidate is probed)
ghost(F_MEM, "MembershipProtocol._next_probe_target", "target = alive[",
      "self.g_alive = alive", where="before")

# MembershipProtocol._handle_indirect_ping: delegates = [name for name in self._members if <other and not DEAD>]
loop(F_MEM, "MembershipProtocol._handle_indirect_ping", "comp1", types={"delegates": NAMES}, inv=[
    ("delegates-are-other-non-dead-members", lambda L: vec_all(L.delegates, lambda kt: probeable(L.self, kt)
                                                                & mk_bool(kt != Str.unwrap(L.target_name))))])

# MembershipProtocol._handle_indirect_ping: for delegate_name in delegates  (one indirect ping each)
RELAY_MODIFIES = [("MembershipProtocol", "_indirect_probes_sent"), ("MembershipProtocol", "_pending_updates"),
                  ("MembershipProtocol", "_updates_disseminated")]
loop(F_MEM, "MembershipProtocol._handle_indirect_ping", 1, modifies=RELAY_MODIFIES,
     types={"events": lambda: Seq(Ref(Event)), "delegate_name": Str}, inv=[
    ("delegates-are-members", lambda L: vec_all(L.delegates, lambda kt: probeable(L.self, kt))),
    ("one-relay-request-per-visited-delegate", lambda L: (L.self._indirect_probes_sent == L.old(L.self)._indirect_probes_sent + L.i)
        & (vlen(L.events) == L.i)),
    ("gossip-counter-only-grows", lambda L: L.self._updates_disseminated >= L.old(L.self)._updates_disseminated)])

# MembershipProtocol._handle_probe_tick: for info in self._members.values()  (phi check of every member)
TICK_MODIFIES = [("MemberInfo", "state"), ("MemberInfo", "state_change_time"), ("MembershipProtocol", "_pending_updates")]
loop(F_MEM, "MembershipProtocol._handle_probe_tick", 1, modifies=TICK_MODIFIES, types={"info": lambda: Ref(MemberInfo)}, inv=[
    ("visited-alive-members-past-the-phi-threshold-are-suspected", lambda L: forall(Str, lambda k: implies(
        contains(L.visited, k) & is_member(L.self, k), past_threshold_handled(L.old(L.self), L.self, k, L.now_s)), "k")),
    ("unvisited-members-untouched", lambda L: forall(Str, lambda k: implies(
        Not(contains(L.visited, k)) & is_member(L.self, k), st(member(L.self, k)) == st(member(L.old(L.self), k))), "k")),
    ("a-tick-only-turns-alive-into-suspect", lambda L: members_rel(L.old(L.self), tick_step)),
    ("members-well-formed", lambda L: members_well_formed(L.self))])

from specs.common import *  # noqa: E402,F401

from happysimulator.components.consensus.phi_accrual_detector import PhiAccrualDetector  # noqa: E402
from happysimulator.components.consensus import phi_accrual_detector as _phi_mod  # noqa: E402

PROPERTY = {
    "id": "C13",
    "level": "proof",
    # (a refuted obligation costs two solver timeouts per path; with the default 300 s a defect in a handler with many
    #  paths would surface as a task timeout instead of a VIOLATION)
    "task_timeout": 900,
    "trusted": ["heap typing of the fields declared in specs/C13.py and specs/common.py",
                "heap typing at entry: the records / timers stored in _members and _pending_acks are objects that exist in "
                "the pre-state (preconditions member_records_exist / pending_timers_exist; the engine bounds a reference "
                "only when it is read, which is too late after the handler allocated an event)",
                "math.erfc: non-negative, non-increasing, strictly decreasing where positive (float underflow to 0 is "
                "allowed, so the `p <= 0` guard of phi() is reachable); math.log10: strictly increasing on (0,inf) "
                "(uninterpreted functions with these facts, pyvc/extern.py)"],
    "assumptions": COMMON_ASSUMPTIONS + [
        "PhiAccrualDetector._mean/_std are deterministic, side-effect free functions of the sample window "
        "(_intervals) and _std() >= 0 (stub contracts: their sum() over a list of symbolic length is not modelled)",
        "detector configuration in its documented range: max_sample_size >= 1, min_std > 0",
        "phi is queried at times not earlier than the last heartbeat (heartbeat stamps and query times are readings "
        "of the one monotone simulation clock) - precondition of the relational phi-monotonicity check",
        "member names are non-empty strings (an empty sender name is falsy in _handle_ack/_handle_suspicion_timeout) and "
        "a node is not a member of its own table; every member is stored under its own name (add_member)",
        "a node and its network are attached to the same simulation: they read the same clock",
        "protocol configuration in its documented range: probe_interval > 0, suspicion_timeout >= 0",
        "Network.send as a callee: the returned event is some event object carrying exactly the verified fields "
        "(contract of Network.send proved in this check; freshness of the object is not used)",
        "_apply_updates as a callee writes only MemberInfo.state / MemberInfo.incarnation (its only writes are inside "
        "loop 1 whose modifies list is checked)",
        "random.shuffle permutes its argument in place (same length, same elements); which permutation is arbitrary",
    ],
}

# ============================================================================ A. phi-accrual detector
def _also_at_successor(j):
    """proof hint (always True): when j is the skolem constant of a goal, the assumed index facts are also
    instantiated at j+1 (the window slides by one: sample j of the new window is sample j+1 of the old one)"""
    if _ctx.active() and z3.is_const(j.t) and str(j.t).startswith("sk_"):
        _ctx.cur().note_term(j.t + 1)
    return True


SAMPLES = Seq(Real)
cls(PhiAccrualDetector, fields={"_threshold": Real, "_max_sample_size": Int, "_min_std": Real,
                                "_intervals": SAMPLES, "_last_heartbeat": Opt(Real), "_heartbeat_count": Int},
    const=["_threshold", "_max_sample_size", "_min_std"],
    inv=[("config-in-range", lambda o: (o._max_sample_size >= 1) & (o._min_std > 0)),
         ("window-bounded", lambda o: slen(o._intervals) <= o._max_sample_size),
         ("samples-positive", lambda o: forall(Int, lambda j: _also_at_successor(j) and implies(
             (0 <= j) & (j < slen(o._intervals)), mk_bool(seq_term(o._intervals)[j.t] > 0)), "j")),
         ("count-nonneg", lambda o: o._heartbeat_count >= 0)])

MEAN_OF = z3.Function("c13_mean_of", SAMPLES.sort(), z3.RealSort())
STD_OF = z3.Function("c13_std_of", SAMPLES.sort(), z3.RealSort())
stub_of(PhiAccrualDetector, "_mean", returns=Real, modifies=[], ensures=[
    lambda s: mk_bool(num(s.result) == MEAN_OF(seq_term(s.self._intervals)))])
stub_of(PhiAccrualDetector, "_std", returns=Real, modifies=[], ensures=[
    lambda s: mk_bool(num(s.result) == STD_OF(seq_term(s.self._intervals))), lambda s: s.result >= 0])
STATS = [(PhiAccrualDetector, "_mean"), (PhiAccrualDetector, "_std")]


def _hb_window(s):
    """the sample window after heartbeat(t): a positive gap to the previous heartbeat is appended, the
    oldest sample leaves when the window is full; anything else leaves the window alone"""
    old = s.old(s.self)
    w0, w1 = seq_term(old._intervals), seq_term(s.self._intervals)
    last = old._last_heartbeat
    if last is None:
        return mk_bool(w1 == w0)
    gap = s.timestamp_s - last
    app = z3.Concat(w0, z3.Unit(num(gap)))
    full = z3.Length(w0) + 1 > num(s.self._max_sample_size)
    return mk_bool(z3.If(num(gap) > 0, w1 == z3.If(full, z3.Extract(app, 1, z3.Length(app) - 1), app), w1 == w0))


fn(PhiAccrualDetector, "heartbeat", args={"timestamp_s": Real},
   modifies=["_intervals", "_last_heartbeat", "_heartbeat_count"], ensures=[
    ("last-heartbeat-is-this-one", lambda s: mk_bool(z3.And(
        Opt(Real).dt.is_some(field_term(s.self, "_last_heartbeat")),
        Opt(Real).dt.val(field_term(s.self, "_last_heartbeat")) == num(s.timestamp_s)))),
    ("configuration-untouched", lambda s: unchanged(s, s.self, "_threshold", "_max_sample_size", "_min_std")),
    ("counted-once", lambda s: s.self._heartbeat_count == s.old(s.self)._heartbeat_count + 1),
    ("window-slides-by-one-positive-gap", _hb_window)])


def phi_raw(w, last, min_std, now):
    """phi as the statement defines it, for a silence of now - last: -log10(P(gap > silence)) under a normal model
    of the gaps w, with the std floored at min_std (all arguments and the result are raw z3 terms)"""
    import math
    std = STD_OF(w)
    sd = z3.If(std >= min_std, std, min_std)
    erfc = z3.Function("math_erfc", z3.RealSort(), z3.RealSort())
    log10 = z3.Function("math_log10", z3.RealSort(), z3.RealSort())
    y = (now - last - MEAN_OF(w)) / sd
    p = num(0.5) * erfc(y / num(math.sqrt(2)))      # the float constants exactly as the code reads them
    return -log10(p)


def phi_p(w, last, min_std, now):
    """the tail probability P(gap > silence) itself; with floats it underflows to 0 for a long silence, and phi is
    then +infinity (the statement's -log10(0))"""
    import math
    std = STD_OF(w)
    sd = z3.If(std >= min_std, std, min_std)
    erfc = z3.Function("math_erfc", z3.RealSort(), z3.RealSort())
    y = (now - last - MEAN_OF(w)) / sd
    return num(0.5) * erfc(y / num(math.sqrt(2)))


def phi_spec(o, now):
    """phi of detector view o at time now, given a last heartbeat exists"""
    return phi_raw(seq_term(o._intervals), num(o._last_heartbeat), num(o._min_std), num(now))


def phi_p_spec(o, now):
    return phi_p(seq_term(o._intervals), num(o._last_heartbeat), num(o._min_std), num(now))


def avail_term(det, now):
    """raw Bool term: detector view det reports 'available' at time now (phi below the threshold; phi is 0
    without a heartbeat, without samples, or before the last heartbeat)"""
    od = Opt(Real).dt
    lt, w = field_term(det, "_last_heartbeat"), field_term(det, "_intervals")
    thr, mn = field_term(det, "_threshold"), field_term(det, "_min_std")
    quiet = z3.Or(od.is_none(lt), z3.Length(w) < 1, num(now) - od.val(lt) < 0)
    # (an underflowed tail probability means phi = +inf: never below a threshold)
    return z3.If(quiet, 0 < thr, z3.And(phi_p(w, od.val(lt), mn, num(now)) > 0, phi_raw(w, od.val(lt), mn, num(now)) < thr))


def ite_b(c, a, b):
    if isinstance(c, bool):
        return a if c else b
    return implies(c, a) & implies(Not(c), b)


def _phi_is(o, r, now):
    """r is the phi value of detector state o at time now"""
    last = o._last_heartbeat
    if last is None:
        return r == 0
    quiet = (slen(o._intervals) < 1) | (now - last < 0)
    if isinstance(r, float) and r == float("inf"):
        # +inf exactly when the (float) tail probability has underflowed to 0 - and never in the quiet cases
        return Not(quiet) & mk_bool(phi_p_spec(o, now) <= 0)
    return ite_b(quiet, r == 0, mk_bool(phi_p_spec(o, now) > 0) & mk_bool(num(r) == phi_spec(o, now)))


fn(PhiAccrualDetector, "phi", args={"now_s": Real}, uses=STATS, ensures=[
    ("phi-is-the-normal-tail-of-the-silence", lambda s: _phi_is(s.self, s.result, s.now_s)),
    ("pure", lambda s: unchanged(s, s.self))])


def _avail_post(s):
    return iff(s.result, mk_bool(avail_term(s.self, s.now_s)))


fn(PhiAccrualDetector, "is_available", args={"now_s": Real}, uses=STATS, returns=Bool, modifies=[], ensures=[
    ("available-iff-phi-below-threshold", _avail_post),
    ("pure", lambda s: unchanged(s, s.self))])


# ---- "the phi-accrual suspicion level never decreases while no heartbeat arrives": two real calls of
#      phi on the same detector state (no heartbeat in between) at times t1 <= t2
def phi_at_two_times(det, t1, t2):
    return det.phi(t1), det.phi(t2)


def _phi_monotone(s):
    a, b = s.result
    inf = float("inf")
    if isinstance(b, float) and b == inf:
        return True                     # anything <= +inf
    if isinstance(a, float) and a == inf:
        return False                    # +inf followed by a finite value: must be an infeasible path
    return a <= b


fn("specs.C13", "phi_at_two_times", kind="function", args={"det": Ref(PhiAccrualDetector), "t1": Real, "t2": Real},
   requires=[lambda s: s.t1 <= s.t2,
             # heartbeat stamps and query times are readings of the one monotone simulation clock
             lambda s: True if s.det._last_heartbeat is None else s.det._last_heartbeat <= s.t1],
   uses=STATS, ensures=[
    ("phi-never-decreases-while-no-heartbeat-arrives", _phi_monotone),
    ("detector-untouched", lambda s: unchanged(s, s.det))])


# ============================================================================ B. typing of the protocol
# (types local to this property, after specs/C11.py: a Python Enum stored in a field; the metadata
# dict of an event and the gossip update dicts as records with literal keys and a presence set)
class EnumTy(Ty):
    def __init__(self, enum):
        self.enum, self.members = enum, list(enum)
        self.name = f"Enum({enum.__name__})"

    def sort(self):
        return z3.IntSort()

    def _rng(self, term):
        return z3.Or(*[term == m.value for m in self.members])

    def wrap(self, term, loc=None):
        term = z3.simplify(term)
        if z3.is_int_value(term):
            return self.enum(term.as_long())
        c = _ctx.cur()
        c.assume(self._rng(term))
        return self.members[c.choose([term == m.value for m in self.members], site="enum:" + self.name)]

    def unwrap(self, v):
        if isinstance(v, self.enum):
            return z3.IntVal(v.value)
        raise OutOfReach(f"{type(v).__name__} stored where {self.name} is declared")

    def assume_wf(self, term):
        _ctx.cur().assume(self._rng(term))

    def concretize(self, model, term):
        v = model.eval(term, model_completion=True).as_long()
        return next((m.name for m in self.members if m.value == v), v)


class RecFieldLoc:
    def __init__(self, parent, rty, k):
        self.parent, self.rty, self.k = parent, rty, k

    def get(self):
        return self.rty.acc(self.k)(self.parent.get())

    def set(self, t):
        self.parent.set(self.rty.rebuild(self.parent.get(), vals={self.k: t}))


class Record(Ty):
    """dict with literal string keys of fixed value types: presence set + one typed slot per key"""

    def __init__(self, name, fields):
        self.name, self.fields = name, dict(fields)
        d = z3.Datatype("Rec_" + name)
        d.declare("mk", ("has", z3.ArraySort(z3.StringSort(), z3.BoolSort())),
                  *[("f_" + k, ty.sort()) for k, ty in self.fields.items()])
        self.dt = d.create()

    def sort(self):
        return self.dt

    def acc(self, k):
        return getattr(self.dt, "f_" + k)

    def has(self, term, k):
        return z3.Select(self.dt.has(term), z3.StringVal(k))

    def empty(self):
        return self.dt.mk(z3.K(z3.StringSort(), z3.BoolVal(False)), *[_default_of(ty.sort()) for ty in self.fields.values()])

    def rebuild(self, m, has=None, vals=None):
        vals = vals or {}
        return z3.simplify(self.dt.mk(has if has is not None else self.dt.has(m),
                                      *[vals.get(k, self.acc(k)(m)) for k in self.fields]))

    def wrap(self, term, loc=None):
        return RecProxy(loc if loc is not None else Box(term), self)

    def unwrap(self, v):
        if isinstance(v, RecProxy) and v._ty is self:
            return v._loc.get()
        if isinstance(v, dict):
            p = RecProxy(Box(self.empty()), self)
            for k, x in v.items():
                p[k] = x
            return p._loc.get()
        raise OutOfReach(f"{type(v).__name__} stored where record {self.name} is declared")

    def concretize(self, model, term):
        v = model.eval(term, model_completion=True)
        out = {}
        for k, ty in self.fields.items():
            if z3.is_true(model.eval(self.has(v, k), model_completion=True)):
                out[k] = ty.concretize(model, self.acc(k)(v))
        return out


class RecProxy:
    def __init__(self, loc, ty):
        self._loc, self._ty = loc, ty

    @property
    def term(self):
        return self._loc.get()

    def _key(self, k):
        if not isinstance(k, str) or k not in self._ty.fields:
            raise OutOfReach(f"key {k!r} is not declared in record {self._ty.name}")
        return k

    def _val(self, k):
        return self._ty.fields[k].wrap(self._ty.acc(k)(self.term), RecFieldLoc(self._loc, self._ty, k))

    def get(self, k, default=None):
        k = self._key(k)
        fty = self._ty.fields[k]
        if default is not None and fty in (Int, Real, Bool, Str) and isinstance(default, (int, float, str)):
            # scalar value and scalar default: one merged term instead of a fork (as SymDict.get does)
            return fty.wrap(z3.If(self._ty.has(self.term, k), self._ty.acc(k)(self.term), fty.unwrap(default)))
        if not _ctx.cur().branch(self._ty.has(self.term, k), site="rec:" + k):
            return default
        return self._val(k)

    def __getitem__(self, k):
        k = self._key(k)
        if not _ctx.cur().branch(self._ty.has(self.term, k), site="rec:" + k):
            raise KeyError(k)
        return self._val(k)

    def __contains__(self, k):
        return _ctx.cur().branch(self._ty.has(self.term, self._key(k)), site="rec:" + k)

    def __setitem__(self, k, v):
        k = self._key(k)
        m = self.term
        self._loc.set(self._ty.rebuild(m, has=z3.Store(self._ty.dt.has(m), z3.StringVal(k), z3.BoolVal(True)),
                                       vals={k: self._ty.fields[k].unwrap(v)}))

    def update(self, other):
        if isinstance(other, dict):
            for k, v in other.items():
                self[k] = v
            return
        if isinstance(other, RecProxy) and other._ty is self._ty:
            m, o, ty = self.term, other.term, self._ty
            self._loc.set(ty.rebuild(m, has=z3.SetUnion(ty.dt.has(m), ty.dt.has(o)),
                                     vals={k: z3.If(ty.has(o, k), ty.acc(k)(o), ty.acc(k)(m)) for k in ty.fields}))
            return
        raise OutOfReach("record.update with an unmodelled argument")

    def __bool__(self):
        return _ctx.cur().branch(self._ty.dt.has(self.term) != z3.K(z3.StringSort(), z3.BoolVal(False)), site="rec:bool")

    def copy(self):
        return RecProxy(Box(self.term), self._ty)

    __hash__ = None


# one gossip update {'member': name, 'state': 'suspect'|'dead'|'alive', 'incarnation': n}
UPD = Record("update", {"member": Str, "state": Str, "incarnation": Int})
U = UPD.dt
UPDATES = Seq(UPD)
# metadata of the protocol's messages and timers
MSG = Record("swimmsg", {"source": Str, "destination": Str, "from": Str, "incarnation": Int, "updates": UPDATES,
                         "ack_for": Str, "indirect_for": Str, "probe_target": Str, "suspect": Str})
M = MSG.dt


class CtxProxy:
    """Event.context: only the 'metadata' entry is modelled ('id'/'created_at' are write-only here)"""

    def __init__(self, loc):
        self._loc = loc

    def _md(self, k):
        if k != "metadata":
            raise OutOfReach(f"event context key {k!r} is not modelled in specs/C13.py")
        return RecProxy(self._loc, MSG)

    def get(self, k, default=None):
        return self._md(k)

    __getitem__ = _md

    def setdefault(self, k, v=None):
        return v if k in ("id", "created_at") else self._md(k)

    def copy(self):
        return CtxProxy(Box(self._loc.get()))

    __hash__ = None


class _CtxTy(Ty):
    name = "EventContext"

    def sort(self):
        return MSG.sort()

    def wrap(self, term, loc=None):
        return CtxProxy(loc if loc is not None else Box(term))

    def unwrap(self, v):
        if isinstance(v, CtxProxy):
            return v._loc.get()
        if isinstance(v, dict) and set(v) <= {"id", "created_at", "metadata"}:
            return MSG.unwrap(v.get("metadata", {}))
        raise OutOfReach(f"{type(v).__name__} stored as event context")

    def concretize(self, model, term):
        return {"metadata": MSG.concretize(model, term)}


CTX = _CtxTy()
cls(Event, fields={"context": CTX})          # overrides the opaque Map(Str, Any) typing of specs/common.py (this check only)

from happysimulator.components.consensus.membership import MembershipProtocol, MemberInfo, MemberState  # noqa: E402
from happysimulator.components.network.network import Network  # noqa: E402

STATE = EnumTy(MemberState)
ALIVE, SUSPECT, DEAD = MemberState.ALIVE.value, MemberState.SUSPECT.value, MemberState.DEAD.value


def md(event, state=None):
    """raw MSG term of an event's metadata"""
    return field_term(event, "context", state)


def mhas(m, *keys):
    return mk_bool(z3.And(*[MSG.has(m, k) for k in keys]))


def mstr(m, k):
    """wrapped Str/Int field of a raw message term (no fork)"""
    return MSG.fields[k].wrap(MSG.acc(k)(m))


# ---- network: message creation (the body of Network.send is verified here as well)
cls(Network, fields={})


def built_msg(payload, source, destination):
    """the metadata Network.send builds: {} + source + destination + payload (raw term)"""
    p = RecProxy(Box(MSG.empty()), MSG)
    p["source"] = source.name
    p["destination"] = destination.name
    if payload is not None:
        p.update(payload)
    return p.term


SEND_ARGS = {"source": Ref(Entity), "destination": Ref(Entity), "event_type": Str, "payload": Opt(MSG), "daemon": Bool}
fn(Network, "send", args=SEND_ARGS, returns=Ref(Event), modifies=[], ensures=[
    ("carries-source-destination-and-payload", lambda s: mk_bool(md(s.result) == built_msg(s.payload, s.source, s.destination))),
    ("addressed-to-the-network-now", lambda s: same(s.result.target, s.self) & (ns(s.result.time) == now_ns(s.self))
        & (s.result.event_type == s.event_type) & iff(s.result.daemon, s.daemon) & Not(s.result._cancelled))])
SEND = (Network, "send")

# ---- members
cls(MemberInfo, fields={"name": Str, "entity": Ref(Entity), "state": STATE, "incarnation": Int,
                        "detector": Ref(PhiAccrualDetector), "state_change_time": Real},
    const=["name", "entity", "detector"],
    inv=[("incarnation-nonneg", lambda o: o.incarnation >= 0)])

MEMBERS = Map(Str, Ref(MemberInfo))
ACKS = Map(Str, Ref(Event))
cls(MembershipProtocol, fields={
    "_network": Ref(Network), "_probe_interval": Real, "_suspicion_timeout": Real, "_indirect_probe_count": Int,
    "_phi_threshold": Real, "_members": MEMBERS, "_incarnation": Int, "_pending_updates": UPDATES,
    "_probe_order": NAMES, "_probe_index": Int, "_pending_acks": ACKS, "_probes_sent": Int,
    "_indirect_probes_sent": Int, "_acks_received": Int, "_updates_disseminated": Int},
    # witnesses only: position (in the list being applied) of the gossip update that last set a member's state
    ghost={"g_cause": Map(Str, Int), "g_pos": Int,
           "g_alive": NAMES},       # the candidate list of the current _next_probe_target call
    const=["_network", "_probe_interval", "_suspicion_timeout", "_indirect_probe_count", "_phi_threshold"])


def st(info):
    """raw state of a member record as an int term wrapped (no fork): ALIVE=1 SUSPECT=2 DEAD=3"""
    return mk_num(field_term(info, "state"))


def member(o, k):
    """proxy of the MemberInfo stored under key k in the heap state of the view o (meaningful only for keys)"""
    kt = k.t if hasattr(k, "t") else z3.StringVal(k)
    return ObjProxy(z3.Select(MEMBERS.dt.val(field_term(o, "_members")), kt), MemberInfo, o._frozen)


def is_member(o, k):
    kt = k.t if hasattr(k, "t") else z3.StringVal(k)
    return mk_bool(z3.Select(MEMBERS.dt.dom(field_term(o, "_members")), kt))


def in_state(info, frozen):
    """the same member record viewed in another heap state"""
    return ObjProxy(info._ref, MemberInfo, frozen)


PROTO_INV = [
    ("members-keyed-by-their-name", lambda o: forall(Str, lambda k: implies(is_member(o, k), member(o, k).name == k), "k")),
    ("not-a-member-of-itself", lambda o: Not(is_member(o, o.name))),
    ("member-names-nonempty", lambda o: Not(is_member(o, ""))),         # configuration assumption (listed)
    ("one-simulation-clock", lambda o: same(o._network._clock, o._clock)),   # environment assumption (listed)
    ("timing-configuration-positive", lambda o: (o._probe_interval > 0) & (o._suspicion_timeout >= 0)),
    ("probe-index-nonneg", lambda o: o._probe_index >= 0),
    ("members-well-formed", lambda o: members_well_formed(o)),
]
cls(MembershipProtocol, inv=PROTO_INV)


def members_well_formed(o):
    return forall(Str, lambda k: implies(
        is_member(o, k), (member(o, k).incarnation >= 0) & (1 <= st(member(o, k))) & (st(member(o, k)) <= 3)), "k")


def members_rel(o0, rel):
    """rel(view in state o0, current view) for every member record of o0"""
    return forall(Str, lambda k: implies(is_member(o0, k), rel(member(o0, k), in_state(member(o0, k), None))), "k")


def upd_inc(u):
    """incarnation carried by a raw update term (0 when the key is absent, as the code reads it)"""
    return z3.If(UPD.has(u, "incarnation"), U.f_incarnation(u), z3.IntVal(0))


def names(u, name, state):
    """the raw update u is a `state` announcement about member `name`"""
    return z3.And(UPD.has(u, "member"), UPD.has(u, "state"), U.f_member(u) == Str.unwrap(name),
                  U.f_state(u) == z3.StringVal(state))


CAUSE = Map(Str, Int)


def caused(o, seq_t, name, state, inc0):
    """one of the updates seq_t (raw sequence term) applied so far announces `state` for `name` with an
    incarnation >= inc0; the witness is its position, the ghost value o.g_cause[name]"""
    g = field_term(o, "g_cause")
    kt = Str.unwrap(name)
    j = z3.Select(CAUSE.dt.val(g), kt)
    u = seq_t[j]
    return mk_bool(z3.And(z3.Select(CAUSE.dt.dom(g), kt), 0 <= j, j <= num(o.g_pos), j < z3.Length(seq_t),
                          names(u, name, state), upd_inc(u) >= num(inc0)))


# ---- M1: the per-member state machine, as a relation between two heap states of one member record
def step_ok(a, b):
    """a -> b is a legal history of one member record: incarnation never decreases, and a member reported
    DEAD is not reported ALIVE (or merely suspected) again without a strictly higher incarnation"""
    return (b.incarnation >= a.incarnation) & implies((st(a) == DEAD) & (st(b) != DEAD), b.incarnation > a.incarnation)


def all_members(s, rel):
    """rel(old view, new view) for every member record of s.self (the member table itself is unchanged)"""
    o0 = s.old(s.self)
    return forall(Str, lambda k: implies(is_member(o0, k), rel(member(o0, k), in_state(member(o0, k), None))), "k")


def untouched(a, b):
    return (st(a) == st(b)) & (a.incarnation == b.incarnation)


def same_table(s):
    return unchanged(s, s.self, "_members")


def upd_term(member_name, state, incarnation):
    p = RecProxy(Box(UPD.empty()), UPD)
    p["member"] = member_name
    p["state"] = state
    p["incarnation"] = incarnation
    return p.term


def queue_grew_by(s, u):
    return mk_bool(seq_term(s.self._pending_updates) == z3.Concat(seq_term(s.old(s.self)._pending_updates), z3.Unit(u)))


def queue_same(s):
    return mk_bool(seq_term(s.self._pending_updates) == seq_term(s.old(s.self)._pending_updates))


# ---- _suspect_member: the only place where a member becomes SUSPECT locally
fn(MembershipProtocol, "_suspect_member", args={"info": Ref(MemberInfo), "now_s": Real}, modifies=["_pending_updates"], ensures=[
    ("alive-becomes-suspect-others-stay", lambda s: st(s.info) == ite(st(s.old(s.info)) == ALIVE, SUSPECT, st(s.old(s.info)))),
    ("never-reported-alive-afterwards", lambda s: st(s.info) != ALIVE),
    ("incarnation-kept", lambda s: s.info.incarnation == s.old(s.info).incarnation),
    ("suspicion-gossiped-iff-new", lambda s: ite_b(st(s.old(s.info)) == ALIVE,
        queue_grew_by(s, upd_term(s.info.name, "suspect", s.info.incarnation)), queue_same(s))),
    ("table-untouched", same_table)])

fn(MembershipProtocol, "_drain_updates", returns=UPDATES, modifies=["_pending_updates", "_updates_disseminated"], ensures=[
    ("hands-out-everything-queued-once", lambda s: mk_bool(seq_term(s.result) == seq_term(s.old(s.self)._pending_updates))
        & (slen(s.self._pending_updates) == 0)),
    ("counted", lambda s: s.self._updates_disseminated == s.old(s.self)._updates_disseminated + slen(s.result)),
    ("members-untouched", lambda s: all_members(s, untouched) & same_table(s)),
    ("frame", lambda s: unchanged(s, s.self, *[f for f in PROTO_FIELDS if f not in ("_pending_updates", "_updates_disseminated")]))])
DRAIN = (MembershipProtocol, "_drain_updates")
PROTO_FIELDS = ["_network", "_probe_interval", "_suspicion_timeout", "_indirect_probe_count", "_phi_threshold", "_members",
                "_incarnation", "_pending_updates", "_probe_order", "_probe_index", "_pending_acks", "_probes_sent",
                "_indirect_probes_sent", "_acks_received", "_updates_disseminated", "name", "_clock"]


# ---- suspicion timeout: the only local SUSPECT -> DEAD transition
def _timeout_post(s):
    m = md(s.event)
    name = mstr(m, "suspect")
    o0 = s.old(s.self)
    named = mhas(m, "suspect") & is_member(o0, name) & (name != "")      # (an empty name is falsy in the code)
    return forall(Str, lambda k: implies(is_member(o0, k), ite_b(
        named & (k == name) & (st(member(o0, k)) == SUSPECT),
        (st(in_state(member(o0, k), None)) == DEAD) & (member(o0, k).incarnation == in_state(member(o0, k), None).incarnation),
        untouched(member(o0, k), in_state(member(o0, k), None)))), "k")


def _timeout_gossip(s):
    m = md(s.event)
    name = mstr(m, "suspect")
    o0 = s.old(s.self)
    died = mhas(m, "suspect") & is_member(o0, name) & (st(member(o0, name)) == SUSPECT)
    # (an empty name is falsy in the code: nothing happens)
    died = died & (name != "")
    return ite_b(died, queue_grew_by(s, upd_term(name, "dead", member(o0, name).incarnation)), queue_same(s))


fn(MembershipProtocol, "_handle_suspicion_timeout", args={"event": Ref(Event)}, ensures=[
    ("only-the-named-suspect-dies-and-only-if-still-suspect", _timeout_post),
    ("state-machine", lambda s: all_members(s, step_ok)),
    ("death-gossiped-iff-declared", _timeout_gossip),
    ("table-untouched", same_table)])


# ---- gossip: the only other way a member's state changes
def gossip_clauses(updates_of):
    """the gossip_facts between pre- and post-state of a call that applied the list updates_of(s) (raw term)"""
    return [(n, (lambda s, i=i: gossip_facts(s.old(s.self), s.self, updates_of(s))[i][1])) for i, n in enumerate(GOSSIP_NAMES)]


def raw_seq(x):
    """raw sequence term of a list of updates (the code's default for a message without updates is `[]`)"""
    return UPDATES.unwrap(x) if isinstance(x, list) else seq_term(x)


APPLY = fn(MembershipProtocol, "_apply_updates", args={"updates": UPDATES}, modifies="world",
           ensures=gossip_clauses(lambda s: raw_seq(s.updates)) + [
    ("nothing-else-touched", lambda s: unchanged(s, s.self))])
APPLY_UPDATES = (MembershipProtocol, "_apply_updates")


def _frame_of_apply_updates():
    """as a callee _apply_updates may write MemberInfo.state / .incarnation (and the ghost witnesses) of any
    member record and nothing else: its only writes are in loop 1, whose `modifies` list is checked"""
    touched = set(GOSSIP_MODIFIES)
    keep = []
    for ci in REG.classes.values():
        for f in list(ci.fields) + list(ci.ghost):
            if (ci.name, f) not in touched:
                keep.append((ci.name, f))
    return keep


# ---- the messages of a node: metadata read the way the handlers read it (raw terms, no fork)
def msg_from(s):
    """(present, name) of the 'from' entry of the handled message"""
    m = md(s.old(s.event))
    return mhas(m, "from"), mstr(m, "from")


def msg_updates(s):
    m = md(s.old(s.event))
    return z3.If(MSG.has(m, "updates"), M.f_updates(m), z3.Empty(UPDATES.sort()))


def now_s(o):
    return o.now.to_seconds()


def detector_of(info, frozen=None):
    return ObjProxy(field_term(info, "detector"), PhiAccrualDetector, frozen)


def vouched(s):
    """a message from member x is evidence that x is up: x is no longer merely suspected, its detector has
    seen a heartbeat stamped now (a member already declared DEAD stays DEAD: no refutation without incarnation)"""
    has, name = msg_from(s)
    o0 = s.old(s.self)
    known = has & (name != "") & is_member(o0, name)     # (member names are non-empty: '' is falsy in the code)
    x = in_state(member(o0, name), None)
    last = field_term(detector_of(x), "_last_heartbeat")
    od = Opt(Real).dt
    return implies(known, (st(x) != SUSPECT)
                   & mk_bool(z3.And(od.is_some(last), od.val(last) == num(now_s(s.self)))))


def ack_of(o, k):
    kt = k.t if hasattr(k, "t") else z3.StringVal(k)
    return ObjProxy(z3.Select(ACKS.dt.val(field_term(o, "_pending_acks")), kt), Event, o._frozen)


def awaiting(o, k):
    kt = k.t if hasattr(k, "t") else z3.StringVal(k)
    return mk_bool(z3.Select(ACKS.dt.dom(field_term(o, "_pending_acks")), kt))


def _ack_clears(s):
    """M2: an ack from x removes x's pending deadline and cancels that timer - and no other"""
    has, name = msg_from(s)
    o0 = s.old(s.self)
    hit = has & (name != "") & is_member(o0, name) & awaiting(o0, name)
    return forall(Str, lambda k: ite_b(hit & (k == name), Not(awaiting(s.self, k)) & in_event_state(ack_of(o0, k), None)._cancelled,
                                       iff(awaiting(s.self, k), awaiting(o0, k))
                                       & implies(awaiting(o0, k), same(ack_of(s.self, k), ack_of(o0, k)))), "k")


def _cancels_only(s):
    has, name = msg_from(s)
    o0 = s.old(s.self)
    hit = has & (name != "") & is_member(o0, name) & awaiting(o0, name)
    return forall(Ref(Event), lambda e: implies(Not(hit & same(e, ack_of(o0, name))),
                                                iff(e._cancelled, in_event_state(e, s._old)._cancelled)), "e")


def in_event_state(e, frozen):
    return ObjProxy(e._ref, Event, frozen)


fn(MembershipProtocol, "_handle_ack", args={"event": Ref(Event)}, uses=[APPLY_UPDATES, (PhiAccrualDetector, "heartbeat")],
   ensures=gossip_clauses(msg_updates) + [
    ("ack-vouches-for-its-sender", vouched),
    ("ack-clears-exactly-the-senders-deadline", _ack_clears),
    ("cancels-no-other-timer", _cancels_only),
    ("counted", lambda s: s.self._acks_received == s.old(s.self)._acks_received + 1),
    ("table-untouched", same_table)])

def _no_timer_touched(s):
    return unchanged(s, s.self, "_pending_acks") & forall(Ref(Event), lambda e: iff(e._cancelled, in_event_state(e, s._old)._cancelled), "e")


def _ping_reply(s):
    """a ping is answered by exactly one ack to its sender, carrying this node's name and the queued gossip
    (list of named parts; None when the ping carries no sender)"""
    has, name = msg_from(s)
    o0 = s.old(s.self)
    r = s.result
    if len(r) == 0:
        return [("unanswered-only-without-sender", Not(has))] + [(n, True) for n in PING_REPLY[1:]]
    if len(r) != 1:
        return [(n, False) for n in PING_REPLY]
    m = md(r[0])
    return [
        ("unanswered-only-without-sender", has),
        ("reply-is-an-ack-through-the-network-now", (r[0].event_type == "MembershipAck") & same(r[0].target, s.self._network)
            & (ns(r[0].time) == now_ns(s.self))),
        ("reply-names-this-node-and-the-pinger", mhas(m, "from", "ack_for", "source")
            & (mstr(m, "from") == s.self.name) & (mstr(m, "source") == s.self.name) & (mstr(m, "ack_for") == name)),
        ("reply-goes-to-the-pinging-member", mhas(m, "destination") & implies(
            is_member(o0, name), mstr(m, "destination") == in_state(member(o0, name), None).entity.name)),
        ("reply-carries-the-queued-gossip-once", mhas(m, "updates", "incarnation")
            & mk_bool(M.f_updates(m) == seq_term(o0._pending_updates)) & (slen(s.self._pending_updates) == 0)),
    ]


PING_REPLY = ["unanswered-only-without-sender", "reply-is-an-ack-through-the-network-now", "reply-names-this-node-and-the-pinger",
              "reply-goes-to-the-pinging-member", "reply-carries-the-queued-gossip-once"]


fn(MembershipProtocol, "_handle_ping", args={"event": Ref(Event)},
   uses=[APPLY_UPDATES, (PhiAccrualDetector, "heartbeat"), SEND, DRAIN],
   ensures=gossip_clauses(msg_updates) + [
    ("ping-vouches-for-its-sender", vouched),
] + [(n, (lambda s, i=i: _ping_reply(s)[i][1])) for i, n in enumerate(PING_REPLY)] + [
    ("no-deadline-or-timer-touched", _no_timer_touched),
    ("table-untouched", same_table)])

# ============================================================================ C. the probe cycle
# ---- random.shuffle on a list of names: an arbitrary permutation, in place (trusted, listed)
import random as _random  # noqa: E402
import happysimulator.components.consensus.membership as _membership_mod  # noqa: E402


class _RandomShim:
    """`random` as seen by membership.py: shuffle() of a symbolic list of names installs an arbitrary permutation
    (index bijection pi / its inverse); everything else, and every concrete call, is the real module"""

    def __getattr__(self, n):
        return getattr(_random, n)

    def shuffle(self, x):
        if not _ctx.active() or not isinstance(x, SymVec):
            return _random.shuffle(x)
        c = _ctx.cur()
        old, n = x.arr(), x._len()
        new = c.fresh("shuffled", old.sort())
        tag = str(c.fresh("perm", z3.IntSort()))
        pi = z3.Function(tag + "_to_old", z3.IntSort(), z3.IntSort())
        inv = z3.Function(tag + "_to_new", z3.IntSort(), z3.IntSort())

        def derived(t, f):
            if getattr(c, "inst_depth", 0) > 0 and not (z3.is_app(t) and t.decl().name() in (pi.name(), inv.name())):
                c.note_term(f(t))

        def fwd(jv):
            j = jv.t
            derived(j, pi)
            return implies(mk_bool(z3.And(0 <= j, j < n)), mk_bool(z3.And(
                0 <= pi(j), pi(j) < n, z3.Select(new, j) == z3.Select(old, pi(j)), inv(pi(j)) == j)))

        def bwd(iv):
            i = iv.t
            derived(i, inv)
            return implies(mk_bool(z3.And(0 <= i, i < n)), mk_bool(z3.And(
                0 <= inv(i), inv(i) < n, z3.Select(new, inv(i)) == z3.Select(old, i), pi(inv(i)) == i)))
        c.assume_value(forall(Int, fwd, "pj"))
        c.assume_value(forall(Int, bwd, "pi"))
        x._loc.set(NAMES.mk(new, n))


_membership_mod.random = _RandomShim()


def _opt_str(v):
    return v


# ---- M3: who is probed next
def _next_target_post(s):
    r = s.result
    if r is None:
        # nobody to probe: no name in the probe order is a member that is not DEAD
        po = s.old(s.self)._probe_order
        return vec_all(po, lambda kt: Not(probeable(s.self, kt)))
    return probeable(s.self, Str.unwrap(r))


def _round_robin(s):
    r = s.result
    if r is None:
        return unchanged(s, s.self, "_probe_index", "_probe_order")
    cand = s.self.g_alive
    n = slen(cand)
    i0 = s.old(s.self)._probe_index
    i1 = s.self._probe_index
    wrapped = i0 >= n
    return ((1 <= i1) & (i1 <= n) & (i1 == ite(wrapped, 1, i0 + 1))
            & mk_bool(z3.Select(cand.arr(), num(i1) - 1) == Str.unwrap(r))
            & implies(Not(wrapped), mk_bool(field_term(s.self, "_probe_order") == field_term(s.old(s.self), "_probe_order")))
            & vec_all(cand, lambda kt: probeable(s.self, kt)))


fn(MembershipProtocol, "_next_probe_target", returns=Opt(Str), modifies=["_probe_index", "_probe_order", "g_alive"], ensures=[
    ("probes-a-member-not-reported-dead--none-only-if-there-is-none", _next_target_post),
    ("probe-order-keeps-only-non-dead-members-when-reshuffled", lambda s: mk_bool(
        field_term(s.self, "_probe_order") == field_term(s.old(s.self), "_probe_order"))
        | vec_all(s.self._probe_order, lambda kt: probeable(s.self, kt))),
    ("cursor-advances-within-the-round", lambda s: (s.self._probe_index >= 0)
        & implies(Not(s.result is None), s.self._probe_index >= 1)),
    # round robin over the candidates (g_alive = the non-dead members of the probe order, in order): the candidate
    # at the cursor is probed and the cursor moves on by one; it wraps (new round, reshuffled) only past the end -
    # so between two wraps every candidate is probed exactly once
    ("probes-the-candidate-at-the-cursor-and-advances-by-one", _round_robin),
    ("members-untouched", lambda s: all_members(s, untouched) & same_table(s)),
    ("frame", lambda s: unchanged(s, s.self, *[f for f in PROTO_FIELDS if f not in ("_probe_index", "_probe_order")]))])
NEXT_TARGET = (MembershipProtocol, "_next_probe_target")


# ---- the missed-ack deadline (timer 'MembershipIndirectPing' armed by the probe tick)
def probe_target_of(s):
    m = md(s.old(s.event))
    return mhas(m, "probe_target"), mstr(m, "probe_target")


def _deadline_missed(s):
    has, t = probe_target_of(s)
    o0 = s.old(s.self)
    return has & is_member(o0, t) & awaiting(o0, t)


def _missed_ack_suspects(s):
    """the direct probe of t was not acknowledged by its deadline: t is no longer reported ALIVE.
    (Detection must not depend on phi: phi is 0 for a member that was never heard from.)"""
    has, t = probe_target_of(s)
    return implies(_deadline_missed(s), st(in_state(member(s.old(s.self), t), None)) != ALIVE)


def tick_step(a, b):
    """untouched, or ALIVE -> SUSPECT with the same incarnation"""
    return (a.incarnation == b.incarnation) & ((st(a) == st(b)) | ((st(a) == ALIVE) & (st(b) == SUSPECT)))


def _only_the_probed_member(s):
    has, t = probe_target_of(s)
    o0 = s.old(s.self)
    return forall(Str, lambda k: implies(is_member(o0, k), ite_b(
        _deadline_missed(s) & (k == t), tick_step(member(o0, k), in_state(member(o0, k), None)),
        untouched(member(o0, k), in_state(member(o0, k), None)))), "k")


def _timer_armed(s):
    """the suspicion timeout of t is armed: it is t's pending deadline, fires at now + suspicion_timeout at this
    node, names t, and replaces (cancels) the deadline that just expired"""
    has, t = probe_target_of(s)
    o0 = s.old(s.self)
    if isinstance(s.result, list):          # the early `return []`
        return (len(s.result) == 0) and Not(_deadline_missed(s))
    e = ack_of(s.self, t)
    m = md(e)
    return (_deadline_missed(s) & awaiting(s.self, t)
            & (e.event_type == "MembershipSuspicionTimeout") & same(e.target, s.self) & Not(e._cancelled)
            & (ns(e.time) == ns(s.self.now + s.self._suspicion_timeout))
            & mhas(m, "suspect") & (mstr(m, "suspect") == t)
            & in_event_state(ack_of(o0, t), None)._cancelled)


def _timer_returned(s):
    """the armed timer is handed to the scheduler (last returned event)"""
    has, t = probe_target_of(s)
    if isinstance(s.result, list):
        return True
    rt = seq_term(s.result)
    return mk_bool(z3.And(z3.Length(rt) >= 1, z3.SubSeq(rt, z3.Length(rt) - 1, 1) == z3.Unit(ack_of(s.self, t)._ref)))


def _other_deadlines_kept(s):
    has, t = probe_target_of(s)
    o0 = s.old(s.self)
    return forall(Str, lambda k: implies(Not(_deadline_missed(s) & (k == t)),
                                         iff(awaiting(s.self, k), awaiting(o0, k))
                                         & implies(awaiting(o0, k), same(ack_of(s.self, k), ack_of(o0, k)))), "k")


def pending_timers_exist(s):
    """heap typing, stated at entry: the timers stored in _pending_acks are objects of the pre-state (the engine
    bounds a reference by the allocation counter at the time it is READ, which is too late for a value read
    after the handler allocated a new event)"""
    a0 = _ctx.cur().heap.alloc
    vals = ACKS.dt.val(field_term(s.self, "_pending_acks"))
    return forall(Str, lambda k: mk_bool(z3.And(1 <= z3.Select(vals, k.t), z3.Select(vals, k.t) <= a0)), "k")


fn(MembershipProtocol, "_handle_indirect_ping", args={"event": Ref(Event)}, uses=[SEND, DRAIN],
   requires=[pending_timers_exist], ensures=[
    ("missed-ack-deadline-means-no-longer-reported-alive", _missed_ack_suspects),
    ("only-the-probed-member-changes--alive-to-suspect-at-most", _only_the_probed_member),
    ("suspicion-timeout-armed-iff-the-deadline-was-missed", _timer_armed),
    ("armed-timer-is-returned-for-scheduling", _timer_returned),
    ("other-deadlines-kept", _other_deadlines_kept),
    ("table-untouched", same_table)])


# ---- the probe tick
def past_threshold_handled(o0, o1, k, now):
    """member k was ALIVE with phi at or above the threshold at time now => it is SUSPECT in o1"""
    a, b = member(o0, k), member(o1, k)
    return implies((st(a) == ALIVE) & Not(mk_bool(avail_term(detector_of(a, o0._frozen), now))), st(b) == SUSPECT)


def _tick_detects(s):
    o0 = s.old(s.self)
    now = now_s(o0)
    return forall(Str, lambda k: implies(is_member(o0, k), implies(
        (st(member(o0, k)) == ALIVE) & Not(mk_bool(avail_term(detector_of(member(o0, k), o0._frozen), now))),
        st(in_state(member(o0, k), None)) != ALIVE)), "k")


def _tick_probe(s):
    """if anyone can be probed: a ping goes to a member t not reported DEAD and t's ack deadline is armed
    (timer at now + probe_interval/2 at this node, naming t); the next tick is always scheduled"""
    r = s.result
    o0 = s.old(s.self)
    nxt = r[-1]
    ok = ((nxt.event_type == "MembershipProbeTick") & same(nxt.target, s.self) & Not(nxt._cancelled)
          & (ns(nxt.time) == ns(s.self.now + s.self._probe_interval)))
    if len(r) == 1:
        return ok & unchanged(s, s.self, "_pending_acks", "_probes_sent")
    if len(r) != 3:
        return False
    ping, timer = r[0], r[1]
    mp, mt = md(ping), md(timer)
    t = mstr(mt, "probe_target")
    return (ok & mhas(mt, "probe_target") & probeable(s.self, Str.unwrap(t))
            & (ping.event_type == "MembershipPing") & same(ping.target, s.self._network)
            & mhas(mp, "from", "destination") & (mstr(mp, "from") == s.self.name)
            & (mstr(mp, "destination") == member(s.self, t).entity.name)
            & (timer.event_type == "MembershipIndirectPing") & same(timer.target, s.self) & Not(timer._cancelled)
            & (ns(timer.time) == ns(s.self.now + s.self._probe_interval * 0.5))
            & awaiting(s.self, t) & same(ack_of(s.self, t), timer)
            & (s.self._probes_sent == o0._probes_sent + 1))


fn(MembershipProtocol, "_handle_probe_tick", args={"event": Ref(Event)},
   uses=[SEND, DRAIN, NEXT_TARGET, (PhiAccrualDetector, "is_available")], requires=[pending_timers_exist], ensures=[
    ("phi-at-or-above-threshold-means-no-longer-reported-alive", _tick_detects),
    ("a-tick-only-turns-alive-into-suspect", lambda s: all_members(s, tick_step)),
    ("probes-one-member-arms-its-ack-deadline-and-schedules-the-next-tick", _tick_probe),
    ("table-untouched", same_table)])

# ---- building the table: establishes the invariants the handlers rely on
def _added(s):
    nm = s.entity.name
    o0 = s.old(s.self)
    if_self = implies(nm == s.self.name, unchanged(s, s.self))
    x = member(s.self, nm)
    d = detector_of(x)
    return if_self & implies(nm != s.self.name, is_member(s.self, nm) & (x.name == nm) & same(x.entity, s.entity)
                             & (st(x) == ALIVE) & (x.incarnation == 0)
                             # never heard from: phi stays 0 until the first heartbeat - detection of a member that is
                             # silent from the start rests on the missed-ack deadline alone
                             & mk_bool(Opt(Real).dt.is_none(field_term(d, "_last_heartbeat")))
                             & (d._threshold == s.self._phi_threshold)
                             & forall(Str, lambda k: implies(k != nm, iff(is_member(s.self, k), is_member(o0, k))
                                                             & implies(is_member(o0, k), same(member(s.self, k), member(o0, k)))), "k"))


def member_records_exist(s):
    """heap typing at entry (see pending_timers_exist): the records stored in _members are pre-state objects"""
    a0 = _ctx.cur().heap.alloc
    vals = MEMBERS.dt.val(field_term(s.self, "_members"))
    return forall(Str, lambda k: mk_bool(z3.And(1 <= z3.Select(vals, k.t), z3.Select(vals, k.t) <= a0)), "k")


fn(MembershipProtocol, "add_member", args={"entity": Ref(Entity)},
   requires=[lambda s: s.entity.name != "", member_records_exist], ensures=[
    ("new-member-starts-alive-unheard-with-incarnation-0--self-is-never-added", _added)])

# ============================================================================ D. from the per-handler contracts to the statement
def _history_lemma():
    """'a member reported DEAD is not reported ALIVE again without a higher incarnation', over ANY sequence of
    handler runs at one node: every handler contract above gives step_ok between its pre- and post-state
    (clause every-member-made-a-legal-step / state-machine / a-tick-only-turns-alive-into-suspect / only-the-
    probed-member-changes); step_ok composes, so it holds between any two points of a history."""
    S = [fresh(Int, f"st{i}") for i in range(3)]
    I = [fresh(Int, f"inc{i}") for i in range(3)]
    for x in S:
        assume((1 <= x) & (x <= 3))

    def ok(i, j):
        return (I[j] >= I[i]) & implies((S[i] == DEAD) & (S[j] != DEAD), I[j] > I[i])
    oblige("legal-steps-compose", implies(ok(0, 1) & ok(1, 2), ok(0, 2)))
    oblige("legal-steps-include-standing-still", implies((S[0] == S[1]) & (I[0] == I[1]), ok(0, 1)))
    # the statement itself, between any two points of a history related by step_ok
    oblige("dead-then-alive-needs-higher-incarnation", implies(ok(0, 2) & (S[0] == DEAD) & (S[2] == ALIVE), I[2] > I[0]))
    # the weaker relations proved for single handlers are legal steps
    oblige("tick-step-is-legal", implies((I[0] == I[1]) & ((S[0] == S[1]) | ((S[0] == ALIVE) & (S[1] == SUSPECT))), ok(0, 1)))
    oblige("timeout-step-is-legal", implies((I[0] == I[1]) & (S[0] == SUSPECT) & (S[1] == DEAD), ok(0, 1)))
    oblige("vouched-step-is-legal", implies((I[0] == I[1]) & (S[0] == SUSPECT) & (S[1] == ALIVE), ok(0, 1)))


lemma("member-history-is-a-chain-of-legal-steps", _history_lemma)


def _healthy_timing_lemma():
    """'network delivers every message within a bound well below the probe interval' made exact: with one-way
    delays d1 (ping) and d2 (ack) of at most D and 2*D < probe_interval/2, the ack is handled strictly before the
    ack deadline armed by the probe tick (contract of _handle_probe_tick: deadline = now + probe_interval/2), so
    _handle_ack removes and cancels that timer (ack-clears-exactly-the-senders-deadline) before it can fire: the
    missed-ack handler never runs for a live member, no suspicion timeout is ever armed for it (suspicion-timeout-
    armed-iff-the-deadline-was-missed), hence no local death (only-the-named-suspect-dies...), hence - by induction
    over the cluster with deaths-only-as-announced - no death at all.  This lemma is the arithmetic step."""
    t0, d1, d2, D = fresh(Int, "t0"), fresh(Int, "d1"), fresh(Int, "d2"), fresh(Int, "D")
    half = fresh(Int, "half_interval_ns")
    assume((0 <= d1) & (d1 <= D) & (0 <= d2) & (d2 <= D) & (2 * D < half))
    oblige("ack-is-handled-before-its-deadline", t0 + d1 + d2 < t0 + half)
    # and a relay of the deadline by a later probe of the same member only moves it further away
    t1 = fresh(Int, "t1")
    assume(t1 >= t0)
    oblige("a-later-probe-of-the-same-member-gets-its-own-full-window", t1 + d1 + d2 < t1 + half)


lemma("healthy-network-ack-beats-the-deadline", _healthy_timing_lemma)


def _detection_lemma():
    """'every other live member stops reporting it ALIVE within a bounded number of probe rounds': a probe of the
    silent member x at time t (contract of _handle_probe_tick) arms the deadline t + interval/2; nothing from x
    ever clears it (only _handle_ack for sender x does: ack-clears-exactly-the-senders-deadline), so the
    missed-ack handler runs with the deadline still pending and x is not ALIVE afterwards (missed-ack-deadline-
    means-no-longer-reported-alive); nothing turns x ALIVE again (vouched needs a message from x, gossip needs a
    higher incarnation).  Arithmetic step: probed by tick number r at the latest => not ALIVE by (r + 1/2) intervals."""
    t_start, interval, r = fresh(Int, "t_start"), fresh(Int, "interval_ns"), fresh(Int, "r")
    assume((interval > 0) & (r >= 1))
    probe_time = t_start + r * interval
    oblige("not-alive-half-an-interval-after-its-probe", probe_time + interval // 2 <= t_start + (r + 1) * interval)


lemma("silent-member-detected-half-an-interval-after-its-probe", _detection_lemma)

# ============================================================================ E. bounded stand-in for the cross-node composition
def _cluster_runs(seed, tier):
    """NOT a proof: real Simulation runs (fresh interpreter, plain CPython on the tree under check) of clusters of
    3..7 nodes on datacenter links - healthy runs (nobody is ever marked DEAD), a member silent from time 0 and a
    member cut off after warm-up (every live member stops reporting it ALIVE within 40 probe rounds; DEAD is never
    followed by ALIVE).  See triage/c13_cluster.py."""
    import json
    import os
    import subprocess
    import sys
    from pyvc.ctx import REPO
    script = os.path.join(os.path.dirname(os.path.dirname(os.path.abspath(__file__))), "triage", "c13_cluster.py")
    py = "/venv/bin/python" if os.path.exists("/venv/bin/python") else sys.executable
    p = subprocess.run([py, script, REPO, str(seed), tier], capture_output=True, text=True, timeout=900)
    if p.returncode != 0:
        raise RuntimeError("c13_cluster.py failed: " + p.stderr[-600:])
    return json.loads(p.stdout.strip().splitlines()[-1])


PROPERTY["bounded"] = [{"name": "cluster-simulation", "fn": _cluster_runs,
                        "bound": "6 (quick) / 40 (thorough) seeded cluster runs of 40 probe rounds: n in {3,4,5,7}, probe_interval "
                                 "in {0.2,0.5,1}, suspicion_timeout in {0.5,1,3,5}, phi_threshold in {1,4,8}; healthy / silent "
                                 "from time 0 / silent after warm-up"}]

# ============================================================================ (end) frames that need every class declared
APPLY.keeps = _frame_of_apply_updates()

"""C13 - membership: no false deaths on a healthy network, real failures are detected.

Part A: phi-accrual detector (sample window, phi as a function of the silence, "phi never decreases
        while no heartbeat arrives" proved relationally on two real calls).
Part B: per-member state machine of MembershipProtocol (who may set which state, incarnations).
Part C: the probe cycle (probe tick, ack, missed-ack deadline, suspicion timeout, probe order).
See DESIGN.md section 3-C13 for the clauses and what is not decided (cross-node timing).
"""
from pyvc.spec import *

from pyvc import ctx as _ctx  # noqa: E402
from pyvc.heap import Box, _default_of  # noqa: E402
from pyvc.types import Ty  # noqa: E402

F_MEM = "happysimulator/components/consensus/membership.py"
F_PHI = "happysimulator/components/consensus/phi_accrual_detector.py"

from specs.common import *  # noqa: E402,F401

from happysimulator.components.consensus.phi_accrual_detector import PhiAccrualDetector  # noqa: E402
from happysimulator.components.consensus import phi_accrual_detector as _phi_mod  # noqa: E402

PROPERTY = {
    "id": "C13",
    "level": "proof",
    "trusted": ["heap typing of the fields declared in specs/C13.py and specs/common.py",
                "math.erfc: strictly decreasing, positive; math.log10: strictly increasing on (0,inf) "
                "(uninterpreted functions with these facts, pyvc/extern.py)"],
    "assumptions": COMMON_ASSUMPTIONS + [
        "PhiAccrualDetector._mean/_std are deterministic, side-effect free functions of the sample window "
        "(_intervals) and _std() >= 0 (stub contracts: their sum() over a list of symbolic length is not modelled)",
        "detector configuration in its documented range: max_sample_size >= 1, min_std > 0",
        "phi is queried at times not earlier than the last heartbeat (heartbeat stamps and query times are readings "
        "of the one monotone simulation clock) - precondition of the relational phi-monotonicity check",
    ],
}

# ============================================================================ A. phi-accrual detector
SAMPLES = Seq(Real)
cls(PhiAccrualDetector, fields={"_threshold": Real, "_max_sample_size": Int, "_min_std": Real,
                                "_intervals": SAMPLES, "_last_heartbeat": Opt(Real), "_heartbeat_count": Int},
    const=["_threshold", "_max_sample_size", "_min_std"],
    inv=[("config-in-range", lambda o: (o._max_sample_size >= 1) & (o._min_std > 0)),
         ("window-bounded", lambda o: slen(o._intervals) <= o._max_sample_size),
         ("samples-positive", lambda o: forall(Int, lambda j: implies(
             (0 <= j) & (j < slen(o._intervals)), mk_bool(seq_term(o._intervals)[j.t] > 0)), "j")),
         ("count-nonneg", lambda o: o._heartbeat_count >= 0)])

MEAN_OF = z3.Function("c13_mean_of", SAMPLES.sort(), z3.RealSort())
STD_OF = z3.Function("c13_std_of", SAMPLES.sort(), z3.RealSort())
stub_of(PhiAccrualDetector, "_mean", returns=Real, modifies=[], ensures=[
    lambda s: mk_bool(num(s.result) == MEAN_OF(seq_term(s.self._intervals)))])
stub_of(PhiAccrualDetector, "_std", returns=Real, modifies=[], ensures=[
    lambda s: mk_bool(num(s.result) == STD_OF(seq_term(s.self._intervals))), lambda s: s.result >= 0])
STATS = [(PhiAccrualDetector, "_mean"), (PhiAccrualDetector, "_std")]


def _hb_window(s):
    """the sample window after heartbeat(t): a positive gap to the previous heartbeat is appended, the
    oldest sample leaves when the window is full; anything else leaves the window alone"""
    old = s.old(s.self)
    w0, w1 = seq_term(old._intervals), seq_term(s.self._intervals)
    last = old._last_heartbeat
    if last is None:
        return mk_bool(w1 == w0)
    gap = s.timestamp_s - last
    app = z3.Concat(w0, z3.Unit(num(gap)))
    full = z3.Length(w0) + 1 > num(s.self._max_sample_size)
    return mk_bool(z3.If(num(gap) > 0, w1 == z3.If(full, z3.Extract(app, 1, z3.Length(app) - 1), app), w1 == w0))


fn(PhiAccrualDetector, "heartbeat", args={"timestamp_s": Real}, ensures=[
    ("last-heartbeat-is-this-one", lambda s: (s.self._last_heartbeat is not None) and (s.self._last_heartbeat == s.timestamp_s)),
    ("counted-once", lambda s: s.self._heartbeat_count == s.old(s.self)._heartbeat_count + 1),
    ("window-slides-by-one-positive-gap", _hb_window)])


def phi_spec(o, now):
    """phi as the statement defines it: 0 without history or before the last heartbeat, otherwise
    -log10(P(silence > elapsed)) under a normal model of the gaps, with std floored at min_std (raw term)"""
    last = o._last_heartbeat
    w = seq_term(o._intervals)
    std = STD_OF(w)
    sd = z3.If(std >= num(o._min_std), std, num(o._min_std))
    import math
    erfc = z3.Function("math_erfc", z3.RealSort(), z3.RealSort())
    log10 = z3.Function("math_log10", z3.RealSort(), z3.RealSort())
    y = (num(now) - num(last) - MEAN_OF(w)) / sd
    p = num(0.5) * erfc(y / num(math.sqrt(2)))      # the float constants exactly as the code reads them
    return -log10(p)


def ite_b(c, a, b):
    if isinstance(c, bool):
        return a if c else b
    return implies(c, a) & implies(Not(c), b)


def _phi_is(o, r, now):
    """r is the phi value of detector state o at time now"""
    last = o._last_heartbeat
    if last is None:
        return r == 0
    if isinstance(r, float) and r == float("inf"):
        return False            # erfc is positive: the p <= 0 branch is dead
    quiet = (slen(o._intervals) < 1) | (now - last < 0)
    return ite_b(quiet, r == 0, mk_bool(num(r) == phi_spec(o, now)))


fn(PhiAccrualDetector, "phi", args={"now_s": Real}, uses=STATS, ensures=[
    ("phi-is-the-normal-tail-of-the-silence", lambda s: _phi_is(s.self, s.result, s.now_s)),
    ("pure", lambda s: unchanged(s, s.self))])


def _avail_post(s):
    last = s.self._last_heartbeat
    if last is None:
        return iff(s.result, 0 < s.self._threshold)
    quiet = (slen(s.self._intervals) < 1) | (s.now_s - last < 0)
    return ite_b(quiet, iff(s.result, 0 < s.self._threshold),
                 iff(s.result, mk_bool(phi_spec(s.self, s.now_s) < num(s.self._threshold))))


fn(PhiAccrualDetector, "is_available", args={"now_s": Real}, uses=STATS, ensures=[
    ("available-iff-phi-below-threshold", _avail_post),
    ("pure", lambda s: unchanged(s, s.self))])


# ---- "the phi-accrual suspicion level never decreases while no heartbeat arrives": two real calls of
#      phi on the same detector state (no heartbeat in between) at times t1 <= t2
def phi_at_two_times(det, t1, t2):
    return det.phi(t1), det.phi(t2)


def _phi_monotone(s):
    a, b = s.result
    return a <= b


fn("specs.C13", "phi_at_two_times", kind="function", args={"det": Ref(PhiAccrualDetector), "t1": Real, "t2": Real},
   requires=[lambda s: s.t1 <= s.t2,
             # heartbeat stamps and query times are readings of the one monotone simulation clock
             lambda s: True if s.det._last_heartbeat is None else s.det._last_heartbeat <= s.t1],
   uses=STATS, ensures=[
    ("phi-never-decreases-while-no-heartbeat-arrives", _phi_monotone),
    ("detector-untouched", lambda s: unchanged(s, s.det))])

"""C13 - membership: no false deaths on a healthy network, real failures are detected.

Part A: phi-accrual detector (sample window, phi as a function of the silence, "phi never decreases
        while no heartbeat arrives" proved relationally on two real calls).
Part B: per-member state machine of MembershipProtocol (who may set which state, incarnations).
Part C: the probe cycle (probe tick, ack, missed-ack deadline, suspicion timeout, probe order).
See DESIGN.md section 3-C13 for the clauses and what is not decided (cross-node timing).
"""
from pyvc.spec import *

from pyvc import ctx as _ctx  # noqa: E402
from pyvc.heap import Box, _default_of  # noqa: E402
from pyvc.types import Ty  # noqa: E402

F_MEM = "happysimulator/components/consensus/membership.py"
F_PHI = "happysimulator/components/consensus/phi_accrual_detector.py"

# ---------------------------------------------------------------------------- loop contracts
# (declared before the repo modules are imported; the helpers they call are defined further down)
MEMBER_STATE = [("MemberInfo", "state"), ("MemberInfo", "incarnation")]


class Later(Ty):
    """a type that is defined further down in this file (loop contracts must be declared first)"""

    def __init__(self, f):
        self.f = f

    name = property(lambda self: self.f().name)

    def sort(self):
        return self.f().sort()

    def wrap(self, term, loc=None):
        return self.f().wrap(term, loc)

    def unwrap(self, v):
        return self.f().unwrap(v)

    def assume_wf(self, term):
        return self.f().assume_wf(term)

    def concretize(self, model, term):
        return self.f().concretize(model, term)


# MembershipProtocol._apply_updates: for update in updates
# while the first L.i updates of a gossip list have been applied: every member record made a legal step, and
# the only deaths / new suspicions are the ones an applied update asked for
# (ghost witness g_cause[name] = the update that last set name's state: keeps the invariants free of `exists`)
for _pat in ("info.state = MemberState.SUSPECT", "info.state = MemberState.DEAD", "info.state = MemberState.ALIVE"):
    ghost(F_MEM, "MembershipProtocol._apply_updates", _pat, "self.g_cause[member_name] = update")


def gossip_facts(o0, o1, seq_t):
    """between the views o0 and o1 of a node, with seq_t the (raw) list of updates applied so far"""
    return [
        ("every-member-made-a-legal-step", members_rel(o0, step_ok)),
        ("deaths-only-as-announced-by-an-applied-update", members_rel(o0, lambda a, b: implies(
            (st(b) == DEAD) & (st(a) != DEAD), caused(o1, seq_t, a.name, "dead", a.incarnation)))),
        ("new-suspicions-only-of-alive-members-as-announced", members_rel(o0, lambda a, b: implies(
            (st(b) == SUSPECT) & (st(a) != SUSPECT), (st(a) == ALIVE) & caused(o1, seq_t, a.name, "suspect", a.incarnation)))),
        ("dead-members-only-revived-to-alive", members_rel(o0, lambda a, b: implies((st(a) == DEAD) & (st(b) != DEAD), st(b) == ALIVE))),
    ]


GOSSIP_NAMES = ["every-member-made-a-legal-step", "deaths-only-as-announced-by-an-applied-update",
                "new-suspicions-only-of-alive-members-as-announced", "dead-members-only-revived-to-alive"]
GOSSIP_INV = [(n, (lambda L, i=i: gossip_facts(L.old(L.self), L.self, seq_term(L.seq))[i][1]))
              for i, n in enumerate(GOSSIP_NAMES)] + [("members-well-formed", lambda L: members_well_formed(L.self))]
GOSSIP_MODIFIES = MEMBER_STATE + [("MembershipProtocol", "g_cause")]
loop(F_MEM, "MembershipProtocol._apply_updates", 1, modifies=GOSSIP_MODIFIES, elem=Later(lambda: UPD),
     types={"update": lambda: UPD}, inv=GOSSIP_INV)

from specs.common import *  # noqa: E402,F401

from happysimulator.components.consensus.phi_accrual_detector import PhiAccrualDetector  # noqa: E402
from happysimulator.components.consensus import phi_accrual_detector as _phi_mod  # noqa: E402

PROPERTY = {
    "id": "C13",
    "level": "proof",
    "trusted": ["heap typing of the fields declared in specs/C13.py and specs/common.py",
                "math.erfc: strictly decreasing, positive; math.log10: strictly increasing on (0,inf) "
                "(uninterpreted functions with these facts, pyvc/extern.py)"],
    "assumptions": COMMON_ASSUMPTIONS + [
        "PhiAccrualDetector._mean/_std are deterministic, side-effect free functions of the sample window "
        "(_intervals) and _std() >= 0 (stub contracts: their sum() over a list of symbolic length is not modelled)",
        "detector configuration in its documented range: max_sample_size >= 1, min_std > 0",
        "phi is queried at times not earlier than the last heartbeat (heartbeat stamps and query times are readings "
        "of the one monotone simulation clock) - precondition of the relational phi-monotonicity check",
    ],
}

# ============================================================================ A. phi-accrual detector
SAMPLES = Seq(Real)
cls(PhiAccrualDetector, fields={"_threshold": Real, "_max_sample_size": Int, "_min_std": Real,
                                "_intervals": SAMPLES, "_last_heartbeat": Opt(Real), "_heartbeat_count": Int},
    const=["_threshold", "_max_sample_size", "_min_std"],
    inv=[("config-in-range", lambda o: (o._max_sample_size >= 1) & (o._min_std > 0)),
         ("window-bounded", lambda o: slen(o._intervals) <= o._max_sample_size),
         ("samples-positive", lambda o: forall(Int, lambda j: implies(
             (0 <= j) & (j < slen(o._intervals)), mk_bool(seq_term(o._intervals)[j.t] > 0)), "j")),
         ("count-nonneg", lambda o: o._heartbeat_count >= 0)])

MEAN_OF = z3.Function("c13_mean_of", SAMPLES.sort(), z3.RealSort())
STD_OF = z3.Function("c13_std_of", SAMPLES.sort(), z3.RealSort())
stub_of(PhiAccrualDetector, "_mean", returns=Real, modifies=[], ensures=[
    lambda s: mk_bool(num(s.result) == MEAN_OF(seq_term(s.self._intervals)))])
stub_of(PhiAccrualDetector, "_std", returns=Real, modifies=[], ensures=[
    lambda s: mk_bool(num(s.result) == STD_OF(seq_term(s.self._intervals))), lambda s: s.result >= 0])
STATS = [(PhiAccrualDetector, "_mean"), (PhiAccrualDetector, "_std")]


def _hb_window(s):
    """the sample window after heartbeat(t): a positive gap to the previous heartbeat is appended, the
    oldest sample leaves when the window is full; anything else leaves the window alone"""
    old = s.old(s.self)
    w0, w1 = seq_term(old._intervals), seq_term(s.self._intervals)
    last = old._last_heartbeat
    if last is None:
        return mk_bool(w1 == w0)
    gap = s.timestamp_s - last
    app = z3.Concat(w0, z3.Unit(num(gap)))
    full = z3.Length(w0) + 1 > num(s.self._max_sample_size)
    return mk_bool(z3.If(num(gap) > 0, w1 == z3.If(full, z3.Extract(app, 1, z3.Length(app) - 1), app), w1 == w0))


fn(PhiAccrualDetector, "heartbeat", args={"timestamp_s": Real}, ensures=[
    ("last-heartbeat-is-this-one", lambda s: (s.self._last_heartbeat is not None) and (s.self._last_heartbeat == s.timestamp_s)),
    ("counted-once", lambda s: s.self._heartbeat_count == s.old(s.self)._heartbeat_count + 1),
    ("window-slides-by-one-positive-gap", _hb_window)])


def phi_spec(o, now):
    """phi as the statement defines it: 0 without history or before the last heartbeat, otherwise
    -log10(P(silence > elapsed)) under a normal model of the gaps, with std floored at min_std (raw term)"""
    last = o._last_heartbeat
    w = seq_term(o._intervals)
    std = STD_OF(w)
    sd = z3.If(std >= num(o._min_std), std, num(o._min_std))
    import math
    erfc = z3.Function("math_erfc", z3.RealSort(), z3.RealSort())
    log10 = z3.Function("math_log10", z3.RealSort(), z3.RealSort())
    y = (num(now) - num(last) - MEAN_OF(w)) / sd
    p = num(0.5) * erfc(y / num(math.sqrt(2)))      # the float constants exactly as the code reads them
    return -log10(p)


def ite_b(c, a, b):
    if isinstance(c, bool):
        return a if c else b
    return implies(c, a) & implies(Not(c), b)


def _phi_is(o, r, now):
    """r is the phi value of detector state o at time now"""
    last = o._last_heartbeat
    if last is None:
        return r == 0
    if isinstance(r, float) and r == float("inf"):
        return False            # erfc is positive: the p <= 0 branch is dead
    quiet = (slen(o._intervals) < 1) | (now - last < 0)
    return ite_b(quiet, r == 0, mk_bool(num(r) == phi_spec(o, now)))


fn(PhiAccrualDetector, "phi", args={"now_s": Real}, uses=STATS, ensures=[
    ("phi-is-the-normal-tail-of-the-silence", lambda s: _phi_is(s.self, s.result, s.now_s)),
    ("pure", lambda s: unchanged(s, s.self))])


def _avail_post(s):
    last = s.self._last_heartbeat
    if last is None:
        return iff(s.result, 0 < s.self._threshold)
    quiet = (slen(s.self._intervals) < 1) | (s.now_s - last < 0)
    return ite_b(quiet, iff(s.result, 0 < s.self._threshold),
                 iff(s.result, mk_bool(phi_spec(s.self, s.now_s) < num(s.self._threshold))))


fn(PhiAccrualDetector, "is_available", args={"now_s": Real}, uses=STATS, ensures=[
    ("available-iff-phi-below-threshold", _avail_post),
    ("pure", lambda s: unchanged(s, s.self))])


# ---- "the phi-accrual suspicion level never decreases while no heartbeat arrives": two real calls of
#      phi on the same detector state (no heartbeat in between) at times t1 <= t2
def phi_at_two_times(det, t1, t2):
    return det.phi(t1), det.phi(t2)


def _phi_monotone(s):
    a, b = s.result
    return a <= b


fn("specs.C13", "phi_at_two_times", kind="function", args={"det": Ref(PhiAccrualDetector), "t1": Real, "t2": Real},
   requires=[lambda s: s.t1 <= s.t2,
             # heartbeat stamps and query times are readings of the one monotone simulation clock
             lambda s: True if s.det._last_heartbeat is None else s.det._last_heartbeat <= s.t1],
   uses=STATS, ensures=[
    ("phi-never-decreases-while-no-heartbeat-arrives", _phi_monotone),
    ("detector-untouched", lambda s: unchanged(s, s.det))])


# ============================================================================ B. typing of the protocol
# (types local to this property, after specs/C11.py: a Python Enum stored in a field; the metadata
# dict of an event and the gossip update dicts as records with literal keys and a presence set)
class EnumTy(Ty):
    def __init__(self, enum):
        self.enum, self.members = enum, list(enum)
        self.name = f"Enum({enum.__name__})"

    def sort(self):
        return z3.IntSort()

    def _rng(self, term):
        return z3.Or(*[term == m.value for m in self.members])

    def wrap(self, term, loc=None):
        term = z3.simplify(term)
        if z3.is_int_value(term):
            return self.enum(term.as_long())
        c = _ctx.cur()
        c.assume(self._rng(term))
        return self.members[c.choose([term == m.value for m in self.members], site="enum:" + self.name)]

    def unwrap(self, v):
        if isinstance(v, self.enum):
            return z3.IntVal(v.value)
        raise OutOfReach(f"{type(v).__name__} stored where {self.name} is declared")

    def assume_wf(self, term):
        _ctx.cur().assume(self._rng(term))

    def concretize(self, model, term):
        v = model.eval(term, model_completion=True).as_long()
        return next((m.name for m in self.members if m.value == v), v)


class RecFieldLoc:
    def __init__(self, parent, rty, k):
        self.parent, self.rty, self.k = parent, rty, k

    def get(self):
        return self.rty.acc(self.k)(self.parent.get())

    def set(self, t):
        self.parent.set(self.rty.rebuild(self.parent.get(), vals={self.k: t}))


class Record(Ty):
    """dict with literal string keys of fixed value types: presence set + one typed slot per key"""

    def __init__(self, name, fields):
        self.name, self.fields = name, dict(fields)
        d = z3.Datatype("Rec_" + name)
        d.declare("mk", ("has", z3.ArraySort(z3.StringSort(), z3.BoolSort())),
                  *[("f_" + k, ty.sort()) for k, ty in self.fields.items()])
        self.dt = d.create()

    def sort(self):
        return self.dt

    def acc(self, k):
        return getattr(self.dt, "f_" + k)

    def has(self, term, k):
        return z3.Select(self.dt.has(term), z3.StringVal(k))

    def empty(self):
        return self.dt.mk(z3.K(z3.StringSort(), z3.BoolVal(False)), *[_default_of(ty.sort()) for ty in self.fields.values()])

    def rebuild(self, m, has=None, vals=None):
        vals = vals or {}
        return z3.simplify(self.dt.mk(has if has is not None else self.dt.has(m),
                                      *[vals.get(k, self.acc(k)(m)) for k in self.fields]))

    def wrap(self, term, loc=None):
        return RecProxy(loc if loc is not None else Box(term), self)

    def unwrap(self, v):
        if isinstance(v, RecProxy) and v._ty is self:
            return v._loc.get()
        if isinstance(v, dict):
            p = RecProxy(Box(self.empty()), self)
            for k, x in v.items():
                p[k] = x
            return p._loc.get()
        raise OutOfReach(f"{type(v).__name__} stored where record {self.name} is declared")

    def concretize(self, model, term):
        v = model.eval(term, model_completion=True)
        out = {}
        for k, ty in self.fields.items():
            if z3.is_true(model.eval(self.has(v, k), model_completion=True)):
                out[k] = ty.concretize(model, self.acc(k)(v))
        return out


class RecProxy:
    def __init__(self, loc, ty):
        self._loc, self._ty = loc, ty

    @property
    def term(self):
        return self._loc.get()

    def _key(self, k):
        if not isinstance(k, str) or k not in self._ty.fields:
            raise OutOfReach(f"key {k!r} is not declared in record {self._ty.name}")
        return k

    def _val(self, k):
        return self._ty.fields[k].wrap(self._ty.acc(k)(self.term), RecFieldLoc(self._loc, self._ty, k))

    def get(self, k, default=None):
        k = self._key(k)
        if not _ctx.cur().branch(self._ty.has(self.term, k), site="rec:" + k):
            return default
        return self._val(k)

    def __getitem__(self, k):
        k = self._key(k)
        if not _ctx.cur().branch(self._ty.has(self.term, k), site="rec:" + k):
            raise KeyError(k)
        return self._val(k)

    def __contains__(self, k):
        return _ctx.cur().branch(self._ty.has(self.term, self._key(k)), site="rec:" + k)

    def __setitem__(self, k, v):
        k = self._key(k)
        m = self.term
        self._loc.set(self._ty.rebuild(m, has=z3.Store(self._ty.dt.has(m), z3.StringVal(k), z3.BoolVal(True)),
                                       vals={k: self._ty.fields[k].unwrap(v)}))

    def update(self, other):
        if isinstance(other, dict):
            for k, v in other.items():
                self[k] = v
            return
        if isinstance(other, RecProxy) and other._ty is self._ty:
            m, o, ty = self.term, other.term, self._ty
            self._loc.set(ty.rebuild(m, has=z3.SetUnion(ty.dt.has(m), ty.dt.has(o)),
                                     vals={k: z3.If(ty.has(o, k), ty.acc(k)(o), ty.acc(k)(m)) for k in ty.fields}))
            return
        raise OutOfReach("record.update with an unmodelled argument")

    def __bool__(self):
        return _ctx.cur().branch(self._ty.dt.has(self.term) != z3.K(z3.StringSort(), z3.BoolVal(False)), site="rec:bool")

    def copy(self):
        return RecProxy(Box(self.term), self._ty)

    __hash__ = None


# one gossip update {'member': name, 'state': 'suspect'|'dead'|'alive', 'incarnation': n}
UPD = Record("update", {"member": Str, "state": Str, "incarnation": Int})
U = UPD.dt
UPDATES = Seq(UPD)
# metadata of the protocol's messages and timers
MSG = Record("swimmsg", {"source": Str, "destination": Str, "from": Str, "incarnation": Int, "updates": UPDATES,
                         "ack_for": Str, "indirect_for": Str, "probe_target": Str, "suspect": Str})
M = MSG.dt


class CtxProxy:
    """Event.context: only the 'metadata' entry is modelled ('id'/'created_at' are write-only here)"""

    def __init__(self, loc):
        self._loc = loc

    def _md(self, k):
        if k != "metadata":
            raise OutOfReach(f"event context key {k!r} is not modelled in specs/C13.py")
        return RecProxy(self._loc, MSG)

    def get(self, k, default=None):
        return self._md(k)

    __getitem__ = _md

    def setdefault(self, k, v=None):
        return v if k in ("id", "created_at") else self._md(k)

    def copy(self):
        return CtxProxy(Box(self._loc.get()))

    __hash__ = None


class _CtxTy(Ty):
    name = "EventContext"

    def sort(self):
        return MSG.sort()

    def wrap(self, term, loc=None):
        return CtxProxy(loc if loc is not None else Box(term))

    def unwrap(self, v):
        if isinstance(v, CtxProxy):
            return v._loc.get()
        if isinstance(v, dict) and set(v) <= {"id", "created_at", "metadata"}:
            return MSG.unwrap(v.get("metadata", {}))
        raise OutOfReach(f"{type(v).__name__} stored as event context")

    def concretize(self, model, term):
        return {"metadata": MSG.concretize(model, term)}


CTX = _CtxTy()
cls(Event, fields={"context": CTX})          # overrides the opaque Map(Str, Any) typing of specs/common.py (this check only)

from happysimulator.components.consensus.membership import MembershipProtocol, MemberInfo, MemberState  # noqa: E402
from happysimulator.components.network.network import Network  # noqa: E402

STATE = EnumTy(MemberState)
ALIVE, SUSPECT, DEAD = MemberState.ALIVE.value, MemberState.SUSPECT.value, MemberState.DEAD.value


def md(event, state=None):
    """raw MSG term of an event's metadata"""
    return field_term(event, "context", state)


def mhas(m, *keys):
    return mk_bool(z3.And(*[MSG.has(m, k) for k in keys]))


def mstr(m, k):
    """wrapped Str/Int field of a raw message term (no fork)"""
    return MSG.fields[k].wrap(MSG.acc(k)(m))


# ---- network: message creation (the body of Network.send is verified here as well)
cls(Network, fields={})


def built_msg(payload, source, destination):
    """the metadata Network.send builds: {} + source + destination + payload (raw term)"""
    p = RecProxy(Box(MSG.empty()), MSG)
    p["source"] = source.name
    p["destination"] = destination.name
    if payload is not None:
        p.update(payload)
    return p.term


SEND_ARGS = {"source": Ref(Entity), "destination": Ref(Entity), "event_type": Str, "payload": Opt(MSG), "daemon": Bool}
fn(Network, "send", args=SEND_ARGS, returns=Ref(Event), modifies=[], ensures=[
    ("carries-source-destination-and-payload", lambda s: mk_bool(md(s.result) == built_msg(s.payload, s.source, s.destination))),
    ("addressed-to-the-network-now", lambda s: same(s.result.target, s.self) & (ns(s.result.time) == now_ns(s.self))
        & (s.result.event_type == s.event_type) & iff(s.result.daemon, s.daemon) & Not(s.result._cancelled))])
SEND = (Network, "send")

# ---- members
cls(MemberInfo, fields={"name": Str, "entity": Ref(Entity), "state": STATE, "incarnation": Int,
                        "detector": Ref(PhiAccrualDetector), "state_change_time": Real},
    const=["name", "entity", "detector"],
    inv=[("incarnation-nonneg", lambda o: o.incarnation >= 0)])

MEMBERS = Map(Str, Ref(MemberInfo))
ACKS = Map(Str, Ref(Event))
cls(MembershipProtocol, fields={
    "_network": Ref(Network), "_probe_interval": Real, "_suspicion_timeout": Real, "_indirect_probe_count": Int,
    "_phi_threshold": Real, "_members": MEMBERS, "_incarnation": Int, "_pending_updates": UPDATES,
    "_probe_order": Seq(Str), "_probe_index": Int, "_pending_acks": ACKS, "_probes_sent": Int,
    "_indirect_probes_sent": Int, "_acks_received": Int, "_updates_disseminated": Int},
    ghost={"g_cause": Map(Str, UPD)},       # the gossip update that last set a member's state (witness only)
    const=["_network", "_probe_interval", "_suspicion_timeout", "_indirect_probe_count", "_phi_threshold"])


def st(info):
    """raw state of a member record as an int term wrapped (no fork): ALIVE=1 SUSPECT=2 DEAD=3"""
    return mk_num(field_term(info, "state"))


def member(o, k):
    """proxy of the MemberInfo stored under key k in the heap state of the view o (meaningful only for keys)"""
    kt = k.t if hasattr(k, "t") else z3.StringVal(k)
    return ObjProxy(z3.Select(MEMBERS.dt.val(field_term(o, "_members")), kt), MemberInfo, o._frozen)


def is_member(o, k):
    kt = k.t if hasattr(k, "t") else z3.StringVal(k)
    return mk_bool(z3.Select(MEMBERS.dt.dom(field_term(o, "_members")), kt))


def in_state(info, frozen):
    """the same member record viewed in another heap state"""
    return ObjProxy(info._ref, MemberInfo, frozen)


PROTO_INV = [
    ("members-keyed-by-their-name", lambda o: forall(Str, lambda k: implies(is_member(o, k), member(o, k).name == k), "k")),
    ("not-a-member-of-itself", lambda o: Not(is_member(o, o.name))),
    ("timing-configuration-positive", lambda o: (o._probe_interval > 0) & (o._suspicion_timeout >= 0)),
    ("probe-index-nonneg", lambda o: o._probe_index >= 0),
    ("members-well-formed", lambda o: members_well_formed(o)),
]
cls(MembershipProtocol, inv=PROTO_INV)


def members_well_formed(o):
    return forall(Str, lambda k: implies(
        is_member(o, k), (member(o, k).incarnation >= 0) & (1 <= st(member(o, k))) & (st(member(o, k)) <= 3)), "k")


def members_rel(o0, rel):
    """rel(view in state o0, current view) for every member record of o0"""
    return forall(Str, lambda k: implies(is_member(o0, k), rel(member(o0, k), in_state(member(o0, k), None))), "k")


def upd_inc(u):
    """incarnation carried by a raw update term (0 when the key is absent, as the code reads it)"""
    return z3.If(UPD.has(u, "incarnation"), U.f_incarnation(u), z3.IntVal(0))


def names(u, name, state):
    """the raw update u is a `state` announcement about member `name`"""
    return z3.And(UPD.has(u, "member"), UPD.has(u, "state"), U.f_member(u) == Str.unwrap(name),
                  U.f_state(u) == z3.StringVal(state))


CAUSE = Map(Str, UPD)


def caused(o, seq_t, name, state, inc0):
    """one of the updates seq_t (raw sequence term) announces `state` for `name` with an incarnation >= inc0;
    the witness is the ghost record o.g_cause[name]"""
    g = field_term(o, "g_cause")
    kt = Str.unwrap(name)
    u = z3.Select(CAUSE.dt.val(g), kt)
    return mk_bool(z3.And(z3.Select(CAUSE.dt.dom(g), kt), names(u, name, state), upd_inc(u) >= num(inc0),
                          z3.Contains(seq_t, z3.Unit(u))))


# ---- M1: the per-member state machine, as a relation between two heap states of one member record
def step_ok(a, b):
    """a -> b is a legal history of one member record: incarnation never decreases, and a member reported
    DEAD is not reported ALIVE (or merely suspected) again without a strictly higher incarnation"""
    return (b.incarnation >= a.incarnation) & implies((st(a) == DEAD) & (st(b) != DEAD), b.incarnation > a.incarnation)


def all_members(s, rel):
    """rel(old view, new view) for every member record of s.self (the member table itself is unchanged)"""
    o0 = s.old(s.self)
    return forall(Str, lambda k: implies(is_member(o0, k), rel(member(o0, k), in_state(member(o0, k), None))), "k")


def untouched(a, b):
    return (st(a) == st(b)) & (a.incarnation == b.incarnation)


def same_table(s):
    return unchanged(s, s.self, "_members")


def upd_term(member_name, state, incarnation):
    p = RecProxy(Box(UPD.empty()), UPD)
    p["member"] = member_name
    p["state"] = state
    p["incarnation"] = incarnation
    return p.term


def queue_grew_by(s, u):
    return mk_bool(seq_term(s.self._pending_updates) == z3.Concat(seq_term(s.old(s.self)._pending_updates), z3.Unit(u)))


def queue_same(s):
    return mk_bool(seq_term(s.self._pending_updates) == seq_term(s.old(s.self)._pending_updates))


# ---- _suspect_member: the only place where a member becomes SUSPECT locally
fn(MembershipProtocol, "_suspect_member", args={"info": Ref(MemberInfo), "now_s": Real}, modifies=["_pending_updates"], ensures=[
    ("alive-becomes-suspect-others-stay", lambda s: st(s.info) == ite(st(s.old(s.info)) == ALIVE, SUSPECT, st(s.old(s.info)))),
    ("never-reported-alive-afterwards", lambda s: st(s.info) != ALIVE),
    ("incarnation-kept", lambda s: s.info.incarnation == s.old(s.info).incarnation),
    ("suspicion-gossiped-iff-new", lambda s: ite_b(st(s.old(s.info)) == ALIVE,
        queue_grew_by(s, upd_term(s.info.name, "suspect", s.info.incarnation)), queue_same(s))),
    ("table-untouched", same_table)])

fn(MembershipProtocol, "_drain_updates", returns=UPDATES, modifies=["_pending_updates", "_updates_disseminated"], ensures=[
    ("hands-out-everything-queued-once", lambda s: mk_bool(seq_term(s.result) == seq_term(s.old(s.self)._pending_updates))
        & (slen(s.self._pending_updates) == 0)),
    ("counted", lambda s: s.self._updates_disseminated == s.old(s.self)._updates_disseminated + slen(s.result)),
    ("members-untouched", lambda s: all_members(s, untouched) & same_table(s))])
DRAIN = (MembershipProtocol, "_drain_updates")


# ---- suspicion timeout: the only local SUSPECT -> DEAD transition
def _timeout_post(s):
    m = md(s.event)
    name = mstr(m, "suspect")
    o0 = s.old(s.self)
    named = mhas(m, "suspect") & is_member(o0, name) & (name != "")      # (an empty name is falsy in the code)
    return forall(Str, lambda k: implies(is_member(o0, k), ite_b(
        named & (k == name) & (st(member(o0, k)) == SUSPECT),
        (st(in_state(member(o0, k), None)) == DEAD) & (member(o0, k).incarnation == in_state(member(o0, k), None).incarnation),
        untouched(member(o0, k), in_state(member(o0, k), None)))), "k")


def _timeout_gossip(s):
    m = md(s.event)
    name = mstr(m, "suspect")
    o0 = s.old(s.self)
    died = mhas(m, "suspect") & is_member(o0, name) & (st(member(o0, name)) == SUSPECT)
    # (an empty name is falsy in the code: nothing happens)
    died = died & (name != "")
    return ite_b(died, queue_grew_by(s, upd_term(name, "dead", member(o0, name).incarnation)), queue_same(s))


fn(MembershipProtocol, "_handle_suspicion_timeout", args={"event": Ref(Event)}, ensures=[
    ("only-the-named-suspect-dies-and-only-if-still-suspect", _timeout_post),
    ("state-machine", lambda s: all_members(s, step_ok)),
    ("death-gossiped-iff-declared", _timeout_gossip),
    ("table-untouched", same_table)])


# ---- gossip: the only other way a member's state changes
def gossip_clauses(updates_of):
    """the gossip_facts between pre- and post-state of a call that applied the list updates_of(s) (raw term)"""
    return [(n, (lambda s, i=i: gossip_facts(s.old(s.self), s.self, updates_of(s))[i][1])) for i, n in enumerate(GOSSIP_NAMES)]


fn(MembershipProtocol, "_apply_updates", args={"updates": UPDATES},
   ensures=gossip_clauses(lambda s: seq_term(s.updates)) + [
    ("nothing-else-touched", lambda s: unchanged(s, s.self))])

"""C08 - queueing pipelines never lose, duplicate, misorder or strand work.

Part A: queue policies against their abstract view (FIFO / LIFO / stable priority).
Part B: concurrency models (0 <= active <= limit, acquire/release).
Part C: Queue and QueueDriver handlers against the QueuePolicy interface contract.
See DESIGN.md section 3-C08 for the clauses and what is not decided.
"""
from pyvc.spec import *

# (no loop contracts needed so far)
from specs.common import *  # noqa: E402,F401

from happysimulator.components.queue_policy import (QueuePolicy, FIFOQueue, LIFOQueue, PriorityQueue,  # noqa: E402
                                                     _PriorityEntry)
from happysimulator.components.server.concurrency import (FixedConcurrency, DynamicConcurrency,  # noqa: E402
                                                           WeightedConcurrency)
from happysimulator.components.queue import Queue, QueuePollEvent, QueueNotifyEvent, QueueDeliverEvent  # noqa: E402
from happysimulator.components.queue_driver import QueueDriver  # noqa: E402

PROPERTY = {
    "id": "C08",
    "level": "proof",
    "trusted": ["heapq contract: heappush adds one occurrence; heappop removes and returns an element with no "
                "remaining element below it; h[0] is such an element (pyvc/bag.py)",
                "heap typing of the fields declared in specs/C08.py and specs/common.py"],
    "assumptions": COMMON_ASSUMPTIONS + [
        "queue capacities are +inf or integral (a fractional float capacity c admits floor(c)+1 items: "
        "`len >= capacity` is the only test) - configuration assumption",
        "user-supplied priority key functions are arbitrary but side-effect free",
        "pipeline-level invariants over in-flight engine events (I-work, I-reserve of DESIGN 3-C08) are not yet "
        "under contract; this check covers the per-policy, per-model and per-handler clauses",
    ],
}


def cap_ok(o):
    """capacity is +inf or a non-negative integer (typed IntInf: see the assumption above)"""
    c = o._capacity
    if isinstance(c, float):        # inf
        return True
    return c >= 0


def within(n, cap):
    """n <= cap where cap may be +inf"""
    if isinstance(cap, float):
        return True
    return n <= cap


# ============================================================================ A. policies
ITEM = Any
for K in (FIFOQueue, LIFOQueue):
    cls(K, fields={"_capacity": IntInf, "_queue": Seq(ITEM)}, const=["_capacity"],
        inv=[("capacity-shape", cap_ok),
             ("never-above-capacity", lambda o: within(slen(o._queue), o._capacity))])


def _push_contract(K):
    fn(K, "push", args={"item": ITEM}, ensures=[
        ("accepted-iff-room", lambda s: iff(s.result, Not(within_full(s.old(s.self))))),
        ("accepted-appends", lambda s: implies(s.result, mk_bool(
            seq_term(s.self._queue) == z3.Concat(seq_term(s.old(s.self)._queue), z3.Unit(s.item.t))))),
        ("rejected-unchanged", lambda s: implies(Not(s.result), mk_bool(
            seq_term(s.self._queue) == seq_term(s.old(s.self)._queue)))),
        ("capacity-unchanged", lambda s: unchanged(s, s.self, "_capacity"))])


def to_b(x):
    return x if not isinstance(x, bool) else mk_bool(z3.BoolVal(x))


def within_full(o):
    """len(queue) >= capacity (the policy's own fullness test)"""
    c = o._capacity
    if isinstance(c, float):
        return False
    return slen(o._queue) >= c


_push_contract(FIFOQueue)
_push_contract(LIFOQueue)

fn(FIFOQueue, "pop", ensures=[
    ("empty-gives-none", lambda s: implies(slen(s.old(s.self)._queue) == 0, s.result is None)),
    ("returns-oldest", lambda s: implies(slen(s.old(s.self)._queue) > 0, (s.result is not None) and mk_bool(
        seq_term(s.old(s.self)._queue) == z3.Concat(z3.Unit(s.result.t), seq_term(s.self._queue))))),
    ("empty-unchanged", lambda s: implies(slen(s.old(s.self)._queue) == 0, unchanged(s, s.self)))])

fn(LIFOQueue, "pop", ensures=[
    ("empty-gives-none", lambda s: implies(slen(s.old(s.self)._queue) == 0, s.result is None)),
    ("returns-newest", lambda s: implies(slen(s.old(s.self)._queue) > 0, (s.result is not None) and mk_bool(
        seq_term(s.old(s.self)._queue) == z3.Concat(seq_term(s.self._queue), z3.Unit(s.result.t))))),
    ("empty-unchanged", lambda s: implies(slen(s.old(s.self)._queue) == 0, unchanged(s, s.self)))])

fn(FIFOQueue, "peek", ensures=[
    ("head-or-none", lambda s: (s.result is None) if _is_zero(slen(s.self._queue)) else True),
    ("is-head", lambda s: implies(slen(s.self._queue) > 0, (s.result is not None) and mk_bool(
        seq_term(s.self._queue)[0] == s.result.t))),
    ("pure", lambda s: unchanged(s, s.self))])

fn(LIFOQueue, "peek", ensures=[
    ("is-last", lambda s: implies(slen(s.self._queue) > 0, (s.result is not None) and mk_bool(
        seq_term(s.self._queue)[z3.Length(seq_term(s.self._queue)) - 1] == s.result.t))),
    ("pure", lambda s: unchanged(s, s.self))])


def _is_zero(n):
    return isinstance(n, int) and n == 0


for K in (FIFOQueue, LIFOQueue):
    fn(K, "is_empty", ensures=[("iff-len0", lambda s: iff(s.result, slen(s.self._queue) == 0)),
                               ("pure", lambda s: unchanged(s, s.self))])
    fn(K, "__len__", ensures=[("is-len", lambda s: s.result == slen(s.self._queue)),
                              ("pure", lambda s: unchanged(s, s.self))])

# ---- priority queue: multiset view ordered by (priority, insert_order) ---------------------
PE = valueclass("PriorityEntry", [_PriorityEntry], [("priority", Real), ("insert_order", Int), ("item", ITEM)])


def pe_lt(a, b):
    d = PE.dt
    return z3.Or(d.priority(a) < d.priority(b),
                 z3.And(d.priority(a) == d.priority(b), d.insert_order(a) < d.insert_order(b)))


PHEAP = Bag(PE, pe_lt)
cls(PriorityQueue, fields={"_capacity": IntInf, "_key": Fn(Real, "prio_key"), "_heap": PHEAP, "_insert_counter": Int},
    const=["_capacity", "_key"],
    inv=[("capacity-shape", cap_ok),
         ("never-above-capacity", lambda o: within(slen(o._heap), o._capacity)),
         ("orders-below-counter", lambda o: mk_bool(_orders_below(o)))])


def _orders_below(o):
    h = o._heap.term
    x = z3.Const("pe_x", PE.sort())
    cnt = PHEAP.dt.cnt(h)
    return z3.ForAll([x], z3.Implies(z3.Select(cnt, x) > 0, PE.dt.insert_order(x) < num(o._insert_counter)))


fn(_PriorityEntry, "__lt__", self_ty=PE, args={"other": PE}, inv=False, ensures=[
    ("is-the-heap-order", lambda s: iff(s.result, mk_bool(pe_lt(PE.unwrap(s.self), PE.unwrap(s.other)))))])


def _cnt(o, state_obj=None):
    return PHEAP.dt.cnt(o._heap.term)


fn(PriorityQueue, "push", args={"item": ITEM}, ensures=[
    ("accepted-iff-room", lambda s: iff(s.result, Not(_pq_full(s.old(s.self))))),
    ("size", lambda s: slen(s.self._heap) == slen(s.old(s.self)._heap) + ite(s.result, 1, 0)),
    ("rejected-unchanged", lambda s: implies(Not(s.result), mk_bool(s.self._heap.term == s.old(s.self)._heap.term))),
    ("accepted-adds-one-entry-for-item", lambda s: implies(s.result, mk_bool(_added_one(s)))),
    ("counter", lambda s: s.self._insert_counter == s.old(s.self)._insert_counter + ite(s.result, 1, 0))])


def _pq_full(o):
    c = o._capacity
    if isinstance(c, float):
        return False
    return slen(o._heap) >= c


def _added_one(s):
    """exists priority p: cnt' == cnt[entry(p, old counter, item) += 1]"""
    old, new = _cnt(s.old(s.self)), _cnt(s.self)
    p = z3.Real("added_p")
    e = PE.dt.mk(z3.IntVal(0), p, num(s.old(s.self)._insert_counter), s.item.t)
    return z3.Exists([p], new == z3.Store(old, e, z3.Select(old, e) + 1))


fn(PriorityQueue, "pop", ensures=[
    ("empty-gives-none", lambda s: implies(slen(s.old(s.self)._heap) == 0, s.result is None)),
    # m = the entry heappop removed (ghost witness): it was in the bag, carries the returned item,
    # no entry of the bag is below it (so among equal priorities the earliest inserted: stable),
    # and exactly that occurrence is gone
    ("nonempty-pops-an-entry", lambda s: implies(slen(s.old(s.self)._heap) > 0, popped_any() and s.result is not None)),
    ("returns-item-of-removed-entry", lambda s: True if not popped_any() else (s.result is not None) and mk_bool(
        z3.And(z3.Select(_cnt(s.old(s.self)), last_popped()) > 0, PE.dt.item(last_popped()) == s.result.t))),
    ("removed-entry-is-minimal", lambda s: _none_below(s)),
    ("exactly-one-occurrence-removed", lambda s: True if not popped_any() else mk_bool(
        _cnt(s.self) == z3.Store(_cnt(s.old(s.self)), last_popped(), z3.Select(_cnt(s.old(s.self)), last_popped()) - 1))),
    ("counter-unchanged", lambda s: unchanged(s, s.self, "_insert_counter"))])


def _none_below(s):
    if not popped_any():
        return True
    old = _cnt(s.old(s.self))
    m = last_popped()
    return forall(Raw(PE.sort()), lambda x: mk_bool(z3.Implies(z3.Select(old, x) > 0, z3.Not(pe_lt(x, m)))), "x")


fn(PriorityQueue, "is_empty", ensures=[("iff-len0", lambda s: iff(s.result, slen(s.self._heap) == 0)),
                                       ("pure", lambda s: unchanged(s, s.self))])
fn(PriorityQueue, "__len__", ensures=[("is-len", lambda s: s.result == slen(s.self._heap)),
                                      ("pure", lambda s: unchanged(s, s.self))])

# ============================================================================ B. concurrency models
cls(FixedConcurrency, fields={"_max_concurrent": Int, "_active": Int}, const=["_max_concurrent"],
    inv=[("bounds", lambda o: (0 <= o._active) & (o._active <= o._max_concurrent)), ("limit", lambda o: o._max_concurrent >= 1)])
cls(DynamicConcurrency, fields={"_current_limit": Int, "_min_limit": Int, "_max_limit": Opt(Int), "_active": Int},
    const=["_min_limit", "_max_limit"],
    inv=[("active-nonneg", lambda o: o._active >= 0), ("limit-min", lambda o: (o._min_limit >= 1) & (o._current_limit >= o._min_limit)),
         ("limit-max", lambda o: True if o._max_limit is None else (o._current_limit <= o._max_limit) & (o._max_limit >= o._min_limit))])
cls(WeightedConcurrency, fields={"_total_capacity": Int, "_used_capacity": Int}, const=["_total_capacity"],
    inv=[("bounds", lambda o: (0 <= o._used_capacity) & (o._used_capacity <= o._total_capacity)),
         ("cap", lambda o: o._total_capacity >= 1)])

ctor(FixedConcurrency, args={"max_concurrent": Int},
     ensures=[("idle", lambda s: (s.self._active == 0) & (s.self._max_concurrent == s.max_concurrent))],
     raises={ValueError: [("only-bad-limit", lambda s: s.max_concurrent < 1)]})
fn(FixedConcurrency, "acquire", args={"weight": Int}, ensures=[
    ("result", lambda s: iff(s.result, s.old(s.self)._active < s.self._max_concurrent)),
    ("effect", lambda s: s.self._active == s.old(s.self)._active + ite(s.result, 1, 0))])
fn(FixedConcurrency, "release", args={"weight": Int}, ensures=[
    ("effect", lambda s: s.self._active == ite(s.old(s.self)._active >= 1, s.old(s.self)._active - 1, 0))])
fn(FixedConcurrency, "has_capacity", args={"weight": Int}, ensures=[
    ("result", lambda s: iff(s.result, s.self._active < s.self._max_concurrent)), ("pure", lambda s: unchanged(s, s.self))])

fn(DynamicConcurrency, "acquire", args={"weight": Int}, ensures=[
    ("result", lambda s: iff(s.result, s.old(s.self)._active < s.self._current_limit)),
    ("effect", lambda s: s.self._active == s.old(s.self)._active + ite(s.result, 1, 0)),
    ("admitted-within-limit", lambda s: implies(s.result, s.self._active <= s.self._current_limit))])
fn(DynamicConcurrency, "release", args={"weight": Int}, ensures=[
    ("effect", lambda s: s.self._active == ite(s.old(s.self)._active >= 1, s.old(s.self)._active - 1, 0))])
fn(DynamicConcurrency, "has_capacity", args={"weight": Int}, ensures=[
    ("result", lambda s: iff(s.result, s.self._active < s.self._current_limit)), ("pure", lambda s: unchanged(s, s.self))])
fn(DynamicConcurrency, "set_limit", args={"new_limit": Int}, ensures=[
    ("clamped", lambda s: (s.self._current_limit >= s.self._min_limit)
        & (True if s.self._max_limit is None else s.self._current_limit <= s.self._max_limit)),
    ("exact-when-in-range", lambda s: implies(
        (s.new_limit >= s.self._min_limit) & (True if s.self._max_limit is None else s.new_limit <= s.self._max_limit),
        s.self._current_limit == s.new_limit)),
    ("active-untouched", lambda s: unchanged(s, s.self, "_active"))])

ctor(WeightedConcurrency, args={"total_capacity": Int},
     ensures=[("idle", lambda s: (s.self._used_capacity == 0) & (s.self._total_capacity == s.total_capacity))],
     raises={ValueError: [("only-bad-capacity", lambda s: s.total_capacity < 1)]})
fn(WeightedConcurrency, "acquire", args={"weight": Int},
   ensures=[("result", lambda s: iff(s.result, s.old(s.self)._used_capacity + s.weight <= s.self._total_capacity)),
            ("effect", lambda s: s.self._used_capacity == s.old(s.self)._used_capacity + ite(s.result, s.weight, 0))],
   raises={ValueError: [("only-bad-weight", lambda s: s.weight < 1), ("frame", lambda s: unchanged(s, s.self))]})
fn(WeightedConcurrency, "release", args={"weight": Int},
   ensures=[("never-negative", lambda s: s.self._used_capacity >= 0),
            ("effect", lambda s: s.self._used_capacity == ite(s.old(s.self)._used_capacity - s.weight >= 0,
                                                              s.old(s.self)._used_capacity - s.weight, 0))],
   raises={ValueError: [("only-bad-weight", lambda s: s.weight < 1), ("frame", lambda s: unchanged(s, s.self))]})
fn(WeightedConcurrency, "has_capacity", args={"weight": Int},
   ensures=[("result", lambda s: iff(s.result, s.self._used_capacity + s.weight <= s.self._total_capacity)),
            ("pure", lambda s: unchanged(s, s.self))])

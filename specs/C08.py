"""C08 - queueing pipelines never lose, duplicate, misorder or strand work.

Part A: queue policies against their abstract view (FIFO / LIFO / stable priority).
Part B: concurrency models (0 <= active <= limit, acquire/release).
Part C: Queue and QueueDriver handlers against the QueuePolicy interface contract.
See DESIGN.md section 3-C08 for the clauses and what is not decided.
"""
from pyvc.spec import *

# (no loop contracts needed so far)
from specs.common import *  # noqa: E402,F401

from happysimulator.components.queue_policy import (QueuePolicy, FIFOQueue, LIFOQueue, PriorityQueue,  # noqa: E402
                                                     _PriorityEntry)
from happysimulator.components.server.concurrency import (FixedConcurrency, DynamicConcurrency,  # noqa: E402
                                                           WeightedConcurrency)
from happysimulator.components.queue import Queue, QueuePollEvent, QueueNotifyEvent, QueueDeliverEvent  # noqa: E402
from happysimulator.components.queue_driver import QueueDriver  # noqa: E402

PROPERTY = {
    "id": "C08",
    "level": "proof",
    "trusted": ["heapq contract: heappush adds one occurrence; heappop removes and returns an element with no "
                "remaining element below it; h[0] is such an element (pyvc/bag.py)",
                "heap typing of the fields declared in specs/C08.py and specs/common.py"],
    "assumptions": COMMON_ASSUMPTIONS + [
        "queue capacities are +inf or integral (a fractional float capacity c admits floor(c)+1 items: "
        "`len >= capacity` is the only test) - configuration assumption",
        "user-supplied priority key functions are arbitrary but side-effect free",
        "pipeline-level invariants over in-flight engine events (I-work, I-reserve of DESIGN 3-C08) are not "
        "under contract; this check covers the per-policy, per-model and per-handler clauses, and the bounded "
        "stand-in `burst-work-conservation` runs real pipelines on a grid of bursts (open known finding there)",
    ],
}


def cap_ok(o):
    """capacity is +inf or a non-negative integer (typed IntInf: see the assumption above)"""
    c = o._capacity
    if isinstance(c, float):        # inf
        return True
    return c >= 0


def within(n, cap):
    """n <= cap where cap may be +inf"""
    if isinstance(cap, float):
        return True
    return n <= cap


# ============================================================================ A. policies
ITEM = Any
for K in (FIFOQueue, LIFOQueue):
    cls(K, fields={"_capacity": IntInf, "_queue": Seq(ITEM)}, const=["_capacity"],
        inv=[("capacity-shape", cap_ok),
             ("never-above-capacity", lambda o: within(slen(o._queue), o._capacity))])


def _push_contract(K):
    fn(K, "push", args={"item": ITEM}, ensures=[
        ("accepted-iff-room", lambda s: iff(s.result, Not(within_full(s.old(s.self))))),
        ("accepted-appends", lambda s: implies(s.result, mk_bool(
            seq_term(s.self._queue) == z3.Concat(seq_term(s.old(s.self)._queue), z3.Unit(s.item.t))))),
        ("rejected-unchanged", lambda s: implies(Not(s.result), mk_bool(
            seq_term(s.self._queue) == seq_term(s.old(s.self)._queue)))),
        ("capacity-unchanged", lambda s: unchanged(s, s.self, "_capacity"))])


def to_b(x):
    return x if not isinstance(x, bool) else mk_bool(z3.BoolVal(x))


def within_full(o):
    """len(queue) >= capacity (the policy's own fullness test)"""
    c = o._capacity
    if isinstance(c, float):
        return False
    return slen(o._queue) >= c


_push_contract(FIFOQueue)
_push_contract(LIFOQueue)

fn(FIFOQueue, "pop", ensures=[
    ("empty-gives-none", lambda s: implies(slen(s.old(s.self)._queue) == 0, s.result is None)),
    ("returns-oldest", lambda s: implies(slen(s.old(s.self)._queue) > 0, (s.result is not None) and mk_bool(
        seq_term(s.old(s.self)._queue) == z3.Concat(z3.Unit(s.result.t), seq_term(s.self._queue))))),
    ("empty-unchanged", lambda s: implies(slen(s.old(s.self)._queue) == 0, unchanged(s, s.self)))])

fn(LIFOQueue, "pop", ensures=[
    ("empty-gives-none", lambda s: implies(slen(s.old(s.self)._queue) == 0, s.result is None)),
    ("returns-newest", lambda s: implies(slen(s.old(s.self)._queue) > 0, (s.result is not None) and mk_bool(
        seq_term(s.old(s.self)._queue) == z3.Concat(seq_term(s.self._queue), z3.Unit(s.result.t))))),
    ("empty-unchanged", lambda s: implies(slen(s.old(s.self)._queue) == 0, unchanged(s, s.self)))])

fn(FIFOQueue, "peek", ensures=[
    ("head-or-none", lambda s: (s.result is None) if _is_zero(slen(s.self._queue)) else True),
    ("is-head", lambda s: implies(slen(s.self._queue) > 0, (s.result is not None) and mk_bool(
        seq_term(s.self._queue)[0] == s.result.t))),
    ("pure", lambda s: unchanged(s, s.self))])

fn(LIFOQueue, "peek", ensures=[
    ("is-last", lambda s: implies(slen(s.self._queue) > 0, (s.result is not None) and mk_bool(
        seq_term(s.self._queue)[z3.Length(seq_term(s.self._queue)) - 1] == s.result.t))),
    ("pure", lambda s: unchanged(s, s.self))])


def _is_zero(n):
    return isinstance(n, int) and n == 0


for K in (FIFOQueue, LIFOQueue):
    fn(K, "is_empty", ensures=[("iff-len0", lambda s: iff(s.result, slen(s.self._queue) == 0)),
                               ("pure", lambda s: unchanged(s, s.self))])
    fn(K, "__len__", ensures=[("is-len", lambda s: s.result == slen(s.self._queue)),
                              ("pure", lambda s: unchanged(s, s.self))])

# ---- priority queue: multiset view ordered by (priority, insert_order) ---------------------
PE = valueclass("PriorityEntry", [_PriorityEntry], [("priority", Real), ("insert_order", Int), ("item", ITEM)])


def pe_lt(a, b):
    d = PE.dt
    return z3.Or(d.priority(a) < d.priority(b),
                 z3.And(d.priority(a) == d.priority(b), d.insert_order(a) < d.insert_order(b)))


PHEAP = Bag(PE, pe_lt)
cls(PriorityQueue, fields={"_capacity": IntInf, "_key": Fn(Real, "prio_key"), "_heap": PHEAP, "_insert_counter": Int},
    const=["_capacity", "_key"],
    inv=[("capacity-shape", cap_ok),
         ("never-above-capacity", lambda o: within(slen(o._heap), o._capacity)),
         ("orders-below-counter", lambda o: mk_bool(_orders_below(o)))])


def _orders_below(o):
    h = o._heap.term
    x = z3.Const("pe_x", PE.sort())
    cnt = PHEAP.dt.cnt(h)
    return z3.ForAll([x], z3.Implies(z3.Select(cnt, x) > 0, PE.dt.insert_order(x) < num(o._insert_counter)))


fn(_PriorityEntry, "__lt__", self_ty=PE, args={"other": PE}, inv=False, ensures=[
    ("is-the-heap-order", lambda s: iff(s.result, mk_bool(pe_lt(PE.unwrap(s.self), PE.unwrap(s.other)))))])


def _cnt(o, state_obj=None):
    return PHEAP.dt.cnt(o._heap.term)


fn(PriorityQueue, "push", args={"item": ITEM}, ensures=[
    ("accepted-iff-room", lambda s: iff(s.result, Not(_pq_full(s.old(s.self))))),
    ("size", lambda s: slen(s.self._heap) == slen(s.old(s.self)._heap) + ite(s.result, 1, 0)),
    ("rejected-unchanged", lambda s: implies(Not(s.result), mk_bool(s.self._heap.term == s.old(s.self)._heap.term))),
    ("accepted-adds-one-entry-for-item", lambda s: implies(s.result, mk_bool(_added_one(s)))),
    ("counter", lambda s: s.self._insert_counter == s.old(s.self)._insert_counter + ite(s.result, 1, 0))])


def _pq_full(o):
    c = o._capacity
    if isinstance(c, float):
        return False
    return slen(o._heap) >= c


def _added_one(s):
    """exists priority p: cnt' == cnt[entry(p, old counter, item) += 1]"""
    old, new = _cnt(s.old(s.self)), _cnt(s.self)
    p = z3.Real("added_p")
    e = PE.dt.mk(z3.IntVal(0), p, num(s.old(s.self)._insert_counter), s.item.t)
    return z3.Exists([p], new == z3.Store(old, e, z3.Select(old, e) + 1))


fn(PriorityQueue, "pop", ensures=[
    ("empty-gives-none", lambda s: implies(slen(s.old(s.self)._heap) == 0, s.result is None)),
    # m = the entry heappop removed (ghost witness): it was in the bag, carries the returned item,
    # no entry of the bag is below it (so among equal priorities the earliest inserted: stable),
    # and exactly that occurrence is gone
    ("nonempty-pops-an-entry", lambda s: implies(slen(s.old(s.self)._heap) > 0, popped_any() and s.result is not None)),
    ("returns-item-of-removed-entry", lambda s: True if not popped_any() else (s.result is not None) and mk_bool(
        z3.And(z3.Select(_cnt(s.old(s.self)), last_popped()) > 0, PE.dt.item(last_popped()) == s.result.t))),
    ("removed-entry-is-minimal", lambda s: _none_below(s)),
    ("exactly-one-occurrence-removed", lambda s: True if not popped_any() else mk_bool(
        _cnt(s.self) == z3.Store(_cnt(s.old(s.self)), last_popped(), z3.Select(_cnt(s.old(s.self)), last_popped()) - 1))),
    ("counter-unchanged", lambda s: unchanged(s, s.self, "_insert_counter"))])


def _none_below(s):
    if not popped_any():
        return True
    old = _cnt(s.old(s.self))
    m = last_popped()
    return forall(Raw(PE.sort()), lambda x: mk_bool(z3.Implies(z3.Select(old, x) > 0, z3.Not(pe_lt(x, m)))), "x")


fn(PriorityQueue, "is_empty", ensures=[("iff-len0", lambda s: iff(s.result, slen(s.self._heap) == 0)),
                                       ("pure", lambda s: unchanged(s, s.self))])
fn(PriorityQueue, "__len__", ensures=[("is-len", lambda s: s.result == slen(s.self._heap)),
                                      ("pure", lambda s: unchanged(s, s.self))])

# ============================================================================ B. concurrency models
cls(FixedConcurrency, fields={"_max_concurrent": Int, "_active": Int}, const=["_max_concurrent"],
    inv=[("bounds", lambda o: (0 <= o._active) & (o._active <= o._max_concurrent)), ("limit", lambda o: o._max_concurrent >= 1)])
cls(DynamicConcurrency, fields={"_current_limit": Int, "_min_limit": Int, "_max_limit": Opt(Int), "_active": Int},
    const=["_min_limit", "_max_limit"],
    inv=[("active-nonneg", lambda o: o._active >= 0), ("limit-min", lambda o: (o._min_limit >= 1) & (o._current_limit >= o._min_limit)),
         ("limit-max", lambda o: True if o._max_limit is None else (o._current_limit <= o._max_limit) & (o._max_limit >= o._min_limit))])
cls(WeightedConcurrency, fields={"_total_capacity": Int, "_used_capacity": Int}, const=["_total_capacity"],
    inv=[("bounds", lambda o: (0 <= o._used_capacity) & (o._used_capacity <= o._total_capacity)),
         ("cap", lambda o: o._total_capacity >= 1)])

ctor(FixedConcurrency, args={"max_concurrent": Int},
     ensures=[("idle", lambda s: (s.self._active == 0) & (s.self._max_concurrent == s.max_concurrent))],
     raises={ValueError: [("only-bad-limit", lambda s: s.max_concurrent < 1)]})
fn(FixedConcurrency, "acquire", args={"weight": Int}, ensures=[
    ("result", lambda s: iff(s.result, s.old(s.self)._active < s.self._max_concurrent)),
    ("effect", lambda s: s.self._active == s.old(s.self)._active + ite(s.result, 1, 0))])
fn(FixedConcurrency, "release", args={"weight": Int}, ensures=[
    ("effect", lambda s: s.self._active == ite(s.old(s.self)._active >= 1, s.old(s.self)._active - 1, 0))])
fn(FixedConcurrency, "has_capacity", args={"weight": Int}, ensures=[
    ("result", lambda s: iff(s.result, s.self._active < s.self._max_concurrent)), ("pure", lambda s: unchanged(s, s.self))])

fn(DynamicConcurrency, "acquire", args={"weight": Int}, ensures=[
    ("result", lambda s: iff(s.result, s.old(s.self)._active < s.self._current_limit)),
    ("effect", lambda s: s.self._active == s.old(s.self)._active + ite(s.result, 1, 0)),
    ("admitted-within-limit", lambda s: implies(s.result, s.self._active <= s.self._current_limit))])
fn(DynamicConcurrency, "release", args={"weight": Int}, ensures=[
    ("effect", lambda s: s.self._active == ite(s.old(s.self)._active >= 1, s.old(s.self)._active - 1, 0))])
fn(DynamicConcurrency, "has_capacity", args={"weight": Int}, ensures=[
    ("result", lambda s: iff(s.result, s.self._active < s.self._current_limit)), ("pure", lambda s: unchanged(s, s.self))])
fn(DynamicConcurrency, "set_limit", args={"new_limit": Int}, ensures=[
    ("clamped", lambda s: (s.self._current_limit >= s.self._min_limit)
        & (True if s.self._max_limit is None else s.self._current_limit <= s.self._max_limit)),
    ("exact-when-in-range", lambda s: implies(
        (s.new_limit >= s.self._min_limit) & (True if s.self._max_limit is None else s.new_limit <= s.self._max_limit),
        s.self._current_limit == s.new_limit)),
    ("active-untouched", lambda s: unchanged(s, s.self, "_active"))])

ctor(WeightedConcurrency, args={"total_capacity": Int},
     ensures=[("idle", lambda s: (s.self._used_capacity == 0) & (s.self._total_capacity == s.total_capacity))],
     raises={ValueError: [("only-bad-capacity", lambda s: s.total_capacity < 1)]})
fn(WeightedConcurrency, "acquire", args={"weight": Int},
   ensures=[("result", lambda s: iff(s.result, s.old(s.self)._used_capacity + s.weight <= s.self._total_capacity)),
            ("effect", lambda s: s.self._used_capacity == s.old(s.self)._used_capacity + ite(s.result, s.weight, 0))],
   raises={ValueError: [("only-bad-weight", lambda s: s.weight < 1), ("frame", lambda s: unchanged(s, s.self))]})
fn(WeightedConcurrency, "release", args={"weight": Int},
   ensures=[("never-negative", lambda s: s.self._used_capacity >= 0),
            ("effect", lambda s: s.self._used_capacity == ite(s.old(s.self)._used_capacity - s.weight >= 0,
                                                              s.old(s.self)._used_capacity - s.weight, 0))],
   raises={ValueError: [("only-bad-weight", lambda s: s.weight < 1), ("frame", lambda s: unchanged(s, s.self))]})
fn(WeightedConcurrency, "has_capacity", args={"weight": Int},
   ensures=[("result", lambda s: iff(s.result, s.self._used_capacity + s.weight <= s.self._total_capacity)),
            ("pure", lambda s: unchanged(s, s.self))])

# ============================================================================ C. Queue / QueueDriver / Server
from happysimulator.components.queued_resource import QueuedResource, _QueuedResourceWorkerAdapter  # noqa: E402
from happysimulator.components.server.server import Server  # noqa: E402
from happysimulator.distributions.latency_distribution import LatencyDistribution  # noqa: E402

cls(QueuePollEvent, fields={"requestor": OptRef(Entity)})
cls(QueueNotifyEvent, fields={"queue_entity": OptRef(Entity)})
EVENT_KINDS = [Event, QueuePollEvent, QueueNotifyEvent, QueueDeliverEvent]
cls(QueueDeliverEvent, fields={"payload": OptRef(Event, variants=[Event]), "queue_entity": OptRef(Entity)})
ANY_EVENT = Ref(Event, variants=EVENT_KINDS)

# ---- the QueuePolicy interface contract (every implementation of part A refines it) ---------
# ghost view: g_items = held items in the order `pop` will return them is policy specific; the
# interface only exposes size, capacity and membership.
cls(QueuePolicy, ghost={"g_size": Int, "g_cap": IntInf},
    inv=[("size-in-range", lambda o: (o.g_size >= 0) & within(o.g_size, o.g_cap))])
stub_of(QueuePolicy, "is_empty", returns=Bool, modifies=[], ensures=[lambda s: iff(s.result, s.self.g_size == 0)])
stub_of(QueuePolicy, "__len__", returns=Int, modifies=[], ensures=[lambda s: s.result == s.self.g_size])
stub_of(QueuePolicy, "capacity", returns=IntInf, modifies=[], ensures=[
    lambda s: (isinstance(s.result, float) and isinstance(s.self.g_cap, float))
    or (not isinstance(s.result, float) and not isinstance(s.self.g_cap, float) and s.result == s.self.g_cap)])
stub_of(QueuePolicy, "push", returns=Bool, modifies=["g_size"], ensures=[
    lambda s: iff(s.result, Not(_full(s.old(s.self)))),
    lambda s: s.self.g_size == s.old(s.self).g_size + ite(s.result, 1, 0)])
stub_of(QueuePolicy, "pop", returns=OptRef(Event, variants=[Event]), modifies=["g_size"], ensures=[
    lambda s: iff(s.result is None, s.old(s.self).g_size == 0),
    lambda s: s.self.g_size == s.old(s.self).g_size - (0 if s.result is None else 1)])
POLICY_IFACE = [(QueuePolicy, n) for n in ("is_empty", "__len__", "capacity", "push", "pop")]


def _full(o):
    c = o.g_cap
    if isinstance(c, float):
        return False
    return o.g_size >= c


cls(Queue, fields={"egress": Ref(Entity), "policy": Ref(QueuePolicy), "stats_dropped": Int, "stats_accepted": Int},
    inv=[("counters-nonneg", lambda o: (o.stats_dropped >= 0) & (o.stats_accepted >= 0))])


def _one_notify(s):
    r = s.result
    if len(r) != 1:
        return False
    e = r[0]
    return (isinstance(e, QueueNotifyEvent) and (ns(e.time) == now_ns(s.self)) & same(e.target, s.self.egress)
            & same(e.queue_entity, s.self) & Not(e._cancelled))


fn(Queue, "_handle_enqueue", args={"event": ANY_EVENT}, uses=POLICY_IFACE,
   focus=lambda s: [s.self.policy], ensures=[
    ("offered-once-accepted-or-dropped", lambda s:
        s.self.stats_accepted + s.self.stats_dropped == s.old(s.self).stats_accepted + s.old(s.self).stats_dropped + 1),
    ("dropped-iff-full", lambda s: iff(s.self.stats_dropped == s.old(s.self).stats_dropped + 1, _full(s.old(s.self.policy)))),
    ("held-grows-iff-accepted", lambda s: s.self.policy.g_size - s.old(s.self.policy).g_size
        == s.self.stats_accepted - s.old(s.self).stats_accepted),
    ("notify-iff-accepted-into-empty", lambda s: _one_notify(s) if len(s.result) else
        Not((s.old(s.self.policy).g_size == 0) & Not(_full(s.old(s.self.policy))))),
    ("notify-only-when-was-empty", lambda s: implies(len(s.result) != 0, s.old(s.self.policy).g_size == 0)),
])


def _one_deliver(s):
    r = s.result
    if len(r) != 1:
        return False
    e = r[0]
    return (isinstance(e, QueueDeliverEvent) and (ns(e.time) == now_ns(s.self)) & same(e.target, s.event.requestor)
            & same(e.queue_entity, s.self) & (e.payload is not None))


fn(Queue, "_handle_poll", args={"event": Ref(QueuePollEvent)}, uses=POLICY_IFACE,
   requires=[lambda s: s.event.requestor is not None],
   focus=lambda s: [s.self.policy], ensures=[
    ("empty-gives-nothing", lambda s: implies(s.old(s.self.policy).g_size == 0, len(s.result) == 0)),
    ("nonempty-delivers-exactly-one", lambda s: implies(s.old(s.self.policy).g_size > 0, _one_deliver(s))),
    ("pops-at-most-one", lambda s: s.self.policy.g_size == s.old(s.self.policy).g_size - len(s.result)),
    ("counters-untouched", lambda s: unchanged(s, s.self, "stats_accepted", "stats_dropped"))])

# ---- driver ---------------------------------------------------------------------------------
cls(QueueDriver, fields={"queue": Ref(Entity), "target": Ref(Entity)})
stub_of(Entity, "has_capacity", returns=Bool, modifies=[], ensures=[])


def _one_poll(s, time_ns):
    r = s.result
    if not isinstance(r, list) or len(r) != 1:
        return False
    e = r[0]
    return (isinstance(e, QueuePollEvent) and (ns(e.time) == time_ns) & same(e.target, s.self.queue)
            & same(e.requestor, s.self))


fn(QueueDriver, "_handle_notify", args={"_": Ref(QueueNotifyEvent)}, uses=[(Entity, "has_capacity")], ensures=[
    ("at-most-one-poll-at-now", lambda s: True if len(s.result) == 0 else _one_poll(s, now_ns(s.self)))])


def _work_payload_post(s):
    r = s.result
    if len(r) != 1:
        return False
    e = r[0]
    ok = same(e, s.payload) & (ns(e.time) == now_ns(s.self)) & same(e.target, s.self.target)
    ok = ok & (slen(e.on_complete) == slen(s.old(s.payload).on_complete) + 1)
    return ok


fn(QueueDriver, "_handle_work_payload", args={"payload": Ref(Event)}, uses=[(Entity, "has_capacity")], ensures=[
    # the *original* payload event is re-emitted (same object, hence same creation index: see DESIGN 3-C08
    # on why I-reserve for unit weights rests on this), retargeted, stamped now, with one more hook
    ("re-emits-the-payload-itself", _work_payload_post),
    ("payload-identity-kept", lambda s: (s.payload._sort_index == s.old(s.payload)._sort_index)
        & (s.payload._id == s.old(s.payload)._id) & iff(s.payload._cancelled, s.old(s.payload)._cancelled))])

fn(QueueDriver, "_handle_delivery", args={"event": Ref(QueueDeliverEvent)}, uses=[(Entity, "has_capacity")], ensures=[
    ("empty-delivery-ignored", lambda s: implies(s.event.payload is None, len(s.result) == 0)),
    ("payload-forwarded-once", lambda s: True if s.event.payload is None else
        (len(s.result) == 1) and same(s.result[0], s.event.payload))])

# ---- server: one atomic segment before the service delay, one after --------------------------
cls(LatencyDistribution, fields={"_mean_latency": Real})
stub_of(LatencyDistribution, "get_latency", returns=DURATION, modifies=[], ensures=[lambda s: s.result.nanoseconds >= 0])
from happysimulator.components.server.concurrency import ConcurrencyModel  # noqa: E402
cls(Server, fields={"_concurrency_model": Ref(WeightedConcurrency), "_service_time": Ref(LatencyDistribution),
                    "_downstream": OptRef(Entity), "_requests_completed": Int, "_requests_rejected": Int,
                    "_total_service_time": Real, "_service_times": Seq(Real)},
    inv=[("counters-nonneg", lambda o: (o._requests_completed >= 0) & (o._requests_rejected >= 0))],
    guarantee=[("counters-monotone", lambda old, new: (new._requests_completed >= old._requests_completed)
                & (new._requests_rejected >= old._requests_rejected))])


def _server_result(s):
    r = s.result
    ds = s.self._downstream
    if ds is None:
        return r is None
    if r is None:       # rejected path
        return True
    e = r[0]
    return (len(r) == 1) and (ns(e.time) == now_ns(s.self)) & same(e.target, ds) & (e.event_type == s.event.event_type)


def _weight(e):
    """the request weight exactly as Server.handle_queued_event reads it"""
    m = e.context.get("metadata", None)
    if m is None:
        return 1
    return m.get("weight", 1)


fn(Server, "handle_queued_event", args={"event": Ref(Event)},
   requires=[("request-weight-positive", lambda s: _weight(s.event) >= 1)],
   uses=[(LatencyDistribution, "get_latency")],
   focus=lambda s: [s.self._concurrency_model],
   yields=Yields(
       at_yield=[("delay-nonnegative", lambda s, y: y >= 0),
                 ("slot-taken-before-service", lambda s, y:
                  s.self._concurrency_model._used_capacity >= s.old(s.self._concurrency_model)._used_capacity + 1)],
       stable=[("Entity", "_clock"), ("Server", "_concurrency_model"), ("Server", "_service_time"), ("Server", "_downstream"),
               ("Event", "event_type"), ("Event", "context")],
       rely=[lambda s, b, y: ns(s.self._clock._current_time) >= ns(b.pre(s.self._clock)._current_time)]),
   ensures=[
    ("completed-or-rejected-once", lambda s:
        (s.self._requests_completed - s.pre(s.self)._requests_completed)
        + (s.self._requests_rejected - s.pre(s.self)._requests_rejected) == 1),
    ("slot-released-exactly-at-completion", lambda s: implies(
        s.self._requests_completed == s.pre(s.self)._requests_completed + 1,
        s.self._concurrency_model._used_capacity == ite(
            # the weight as read at entry: forward() later adds a "metadata" key to the shared context
            s.pre(s.self._concurrency_model)._used_capacity - _weight(s.old(s.event)) >= 0,
            s.pre(s.self._concurrency_model)._used_capacity - _weight(s.old(s.event)), 0))),
    ("rejected-takes-no-slot", lambda s: implies(
        s.self._requests_rejected == s.pre(s.self)._requests_rejected + 1,
        s.self._concurrency_model._used_capacity == s.pre(s.self._concurrency_model)._used_capacity)),
    ("forwards-exactly-once-downstream-at-completion-time", _server_result)])


# ---- bounded stand-in (labelled bounded, never counted as proved) for the pipeline-level clause "no simulated time
# passes while an item waits and the worker has free capacity for it": it needs the in-flight control events of
# queue -> driver -> worker (I-work of DESIGN 3-C08), which no single function owns.
def _burst_grid(seed, tier):
    return run_native_script("triage/c08_burst.py", tier)


PROPERTY["bounded"] = [{"name": "burst-work-conservation",
                        "bound": "bursts of k in {1,2,3,5} (thorough: up to 13) requests at one instant x concurrency in {1,2,3} "
                                 "(thorough: up to 7) x hop patterns, constant service time",
                        "fn": _burst_grid}]

"""C08 - queueing pipelines never lose, duplicate, misorder or strand work.

Part A: queue policies against their abstract view (FIFO / LIFO / stable priority).
Part B: concurrency models (0 <= active <= limit, acquire/release).
Part C: Queue and QueueDriver handlers against the QueuePolicy interface contract.
Part D: the policies of components/queue_policies/ (AdaptiveLIFO, RED, Deadline/EDF, Fair) - capacity, conservation
        over the policy's own counters, order; WeightedFair / CoDel / heap-list scans: bounded stand-in only.
Part E: Queue.handle_event, QueuedResource.handle_event and the worker adapter (offered once; handed over once).
Part F: industrial variants: ShiftedServer (three clauses wait for fixes/C08_shifted-server-*.diff, see the source
        tests SHIFT_*_REPAIRED), BalkingQueue.
Part G: industrial variants that buffer work: BatchProcessor (timeout-armed invariant: no stranded partial batch),
        ConveyorBelt, GateController, PooledCycleResource, InspectionStation, RenegingQueuedResource; two clauses wait for
        fixes/C08_batch-processor-full-batch-first.diff / fixes/C08_pooled-cycle-handoff-reserves-unit.diff (source tests
        BP_FULL_FIRST_REPAIRED, PC_HANDOFF_REPAIRED); bounded stand-in `industrial-buffers` (triage/c08_industrial.py).
See DESIGN.md section 3-C08 for the clauses and what is not decided.
"""
from pyvc.spec import *

# ---- loop contracts (must precede the first happysimulator import; the helpers they call are defined in part D) ----
F_DLQ = "happysimulator/components/queue_policies/deadline_queue.py"
# DeadlineQueue.pop: `while self._heap:` pops entries until a live one is found.  So far only expired entries were
# removed, each counted in _expired; nothing was dequeued yet.
loop(F_DLQ, "DeadlineQueue.pop", 1, modifies=[("DeadlineQueue", "_heap"), ("DeadlineQueue", "_expired")],
     types={"entry": lambda: DE},
     inv=[("only-expired-removed", lambda L: _dl_only_expired_removed(L.old(L.self), L.self, L.now)),
          ("each-removed-counted", lambda L: L.self._expired - L.old(L.self)._expired
           == slen(L.old(L.self)._heap) - slen(L.self._heap)),
          ("expired-monotone", lambda L: L.self._expired >= L.old(L.self)._expired),
          ("no-clock-nothing-expires", lambda L: True if L.now is not None
           else (L.self._expired == L.old(L.self)._expired) & (slen(L.self._heap) == slen(L.old(L.self)._heap)))])
# BatchProcessor._process_batch (part G): `result = [Event(...) for item in batch]` after the service delay, desugared to
# a loop (loader rule 7): one output per item of the batch, in batch order, for the downstream, stamped now
F_BP = "happysimulator/components/industrial/batch_processor.py"
_EV_FIELDS = [("Event", f) for f in ("time", "event_type", "daemon", "target", "on_complete", "_sort_index", "_id",
                                     "_cancelled", "context")]
_BP_LOOP = loop(F_BP, "BatchProcessor._process_batch", "comp1", modifies=_EV_FIELDS,
                types={"result": lambda: Seq(Ref(Event))},
                inv=[("one-output-per-item-so-far", lambda L: slen(L.result) == L.i),
                     ("outputs-so-far-carry-their-items-downstream-now", lambda L: _outputs_for(
                         L.self, L.self.downstream, _evseq(L.result), _evseq(L.seq), L.i, typed_src=True))])
# (no fresh_only frame here: its lambda arrays make z3 take a minute per REFUTED loop obligation.  The loop cut forgets
#  the Event fields of every event instead, and the one fact about an older event that is needed afterwards - the armed
#  timeout stays live - is carried through the loop as an invariant)
_BP_LOOP.inv.append(("armed-timeout-untouched", lambda L: _bp_timeout_live(L.self)))
# GateController._do_open (part G): `while self._queue:` releases everything that queued while the gate was closed - so far
# the first k queued items left, in queue order, each counted and forwarded once; the rest still waits in order
F_GATE = "happysimulator/components/industrial/gate_controller.py"
loop(F_GATE, "GateController._do_open", 1,
     modifies=[("GateController", "_queue"), ("GateController", "_passed_through")] + _EV_FIELDS,
     types={"results": lambda: Seq(Ref(Event)), "queued": lambda: Ref(Event)},
     inv=[("released-plus-waiting-is-what-waited", lambda L: slen(L.results) + slen(L.self._queue)
           == slen(L.old(L.self)._queue)),
          ("the-rest-still-waits-in-order", lambda L: mk_bool(_evseq(L.self._queue) == z3.Extract(
              _evseq(L.old(L.self)._queue), num(slen(L.results)), num(slen(L.self._queue))))),
          ("each-released-item-counted-once", lambda L: L.self._passed_through
           == L.old(L.self)._passed_through + slen(L.results)),
          ("released-in-queue-order-downstream-now", lambda L: _outputs_for(
              L.self, L.self.downstream, _evseq(L.results), _evseq(L.old(L.self)._queue), slen(L.results), typed_src=True))])
# PooledCycleResource (part G), only on the tree repaired by fixes/C08_pooled-cycle-handoff-reserves-unit.diff: the id of
# the hand-over event just created is not the id of an earlier hand-over (event ids are unique: C03 owns that clause)
F_PC = "happysimulator/components/industrial/pooled_cycle.py"
from pyvc import ctx as _ctx0  # noqa: E402
if "_handoffs" in open(_ctx0.REPO + "/" + F_PC).read():
    ghost(F_PC, "PooledCycleResource._start_cycle", "self._handoffs.add(handoff._id)",
          "import specs.C08 as _S; _S.assume_unique_event_id(self, handoff)", where="before")
from specs.common import *  # noqa: E402,F401

from happysimulator.components.queue_policy import (QueuePolicy, FIFOQueue, LIFOQueue, PriorityQueue,  # noqa: E402
                                                     _PriorityEntry)
from happysimulator.components.server.concurrency import (FixedConcurrency, DynamicConcurrency,  # noqa: E402
                                                           WeightedConcurrency)
from happysimulator.components.queue import Queue, QueuePollEvent, QueueNotifyEvent, QueueDeliverEvent  # noqa: E402
from happysimulator.components.queue_driver import QueueDriver  # noqa: E402

PROPERTY = {
    "id": "C08",
    "level": "proof",
    "trusted": ["heapq contract: heappush adds one occurrence; heappop removes and returns an element with no "
                "remaining element below it; h[0] is such an element (pyvc/bag.py)",
                "heap typing of the fields declared in specs/C08.py and specs/common.py"],
    "assumptions": COMMON_ASSUMPTIONS + [
        "queue capacities are +inf or integral (a fractional float capacity c admits floor(c)+1 items: "
        "`len >= capacity` is the only test) - configuration assumption",
        "user-supplied priority key functions are arbitrary but side-effect free",
        "pipeline-level invariants over in-flight engine events (I-work, I-reserve of DESIGN 3-C08) are not "
        "under contract; this check covers the per-policy, per-model and per-handler clauses, and the bounded "
        "stand-in `burst-work-conservation` runs real pipelines on a grid of bursts (open known finding there)",
        "part D: user-supplied get_deadline / get_flow_id / clock_func callables are arbitrary but side-effect free; "
        "deadlines and policy clock readings are finite instants",
        "part D: REDQueue's random.random() is an arbitrary real in [0, 1) (drop DECISIONS of RED / CoDel are not "
        "under contract, only their bookkeeping)",
        "part D: OrderedDict of flows is modelled by position stamps (pyvc/omap.py typing: stamps of present keys "
        "distinct and below the next stamp); FairQueue._total_items == sum of the flow lengths, WeightedFairQueue, "
        "CoDelQueue and the heap-list scans DeadlineQueue.peek/purge_expired/count_expired are covered only by the "
        "bounded stand-in `policy-model-differential`",
        "part E: the wiring queue.egress -> driver -> worker adapter -> resource set up by QueuedResource.__init__ is "
        "assumed as class invariant (the constructor stores _clock = None, outside the common typing; the wiring is "
        "checked natively by the bounded stand-in `queued-resource-pipeline`); QueuedResource.handle_queued_event / "
        "has_capacity of subclasses are arbitrary code; an entity that was never crashed is modelled as _crashed == False",
        "part F: ShiftSchedule.capacity_at / next_transition_after are used through their interface only "
        "(next_transition_after returns None or a time strictly after its argument); while a ShiftedServer job is in "
        "service the unit it added to _active is still counted when it resumes (other jobs add / remove only their own)",
    ],
}


def cap_ok(o):
    """capacity is +inf or a non-negative integer (typed IntInf: see the assumption above)"""
    c = o._capacity
    if isinstance(c, float):        # inf
        return True
    return c >= 0


def within(n, cap):
    """n <= cap where cap may be +inf"""
    if isinstance(cap, float):
        return True
    return n <= cap


# ============================================================================ A. policies
ITEM = Any
for K in (FIFOQueue, LIFOQueue):
    cls(K, fields={"_capacity": IntInf, "_queue": Seq(ITEM)}, const=["_capacity"],
        inv=[("capacity-shape", cap_ok),
             ("never-above-capacity", lambda o: within(slen(o._queue), o._capacity))])


def _push_contract(K):
    fn(K, "push", args={"item": ITEM}, ensures=[
        ("accepted-iff-room", lambda s: iff(s.result, Not(within_full(s.old(s.self))))),
        ("accepted-appends", lambda s: implies(s.result, mk_bool(
            seq_term(s.self._queue) == z3.Concat(seq_term(s.old(s.self)._queue), z3.Unit(s.item.t))))),
        ("rejected-unchanged", lambda s: implies(Not(s.result), mk_bool(
            seq_term(s.self._queue) == seq_term(s.old(s.self)._queue)))),
        ("capacity-unchanged", lambda s: unchanged(s, s.self, "_capacity"))])


def to_b(x):
    return x if not isinstance(x, bool) else mk_bool(z3.BoolVal(x))


def within_full(o):
    """len(queue) >= capacity (the policy's own fullness test)"""
    c = o._capacity
    if isinstance(c, float):
        return False
    return slen(o._queue) >= c


_push_contract(FIFOQueue)
_push_contract(LIFOQueue)

fn(FIFOQueue, "pop", ensures=[
    ("empty-gives-none", lambda s: implies(slen(s.old(s.self)._queue) == 0, s.result is None)),
    ("returns-oldest", lambda s: implies(slen(s.old(s.self)._queue) > 0, (s.result is not None) and mk_bool(
        seq_term(s.old(s.self)._queue) == z3.Concat(z3.Unit(s.result.t), seq_term(s.self._queue))))),
    ("empty-unchanged", lambda s: implies(slen(s.old(s.self)._queue) == 0, unchanged(s, s.self)))])

fn(LIFOQueue, "pop", ensures=[
    ("empty-gives-none", lambda s: implies(slen(s.old(s.self)._queue) == 0, s.result is None)),
    ("returns-newest", lambda s: implies(slen(s.old(s.self)._queue) > 0, (s.result is not None) and mk_bool(
        seq_term(s.old(s.self)._queue) == z3.Concat(seq_term(s.self._queue), z3.Unit(s.result.t))))),
    ("empty-unchanged", lambda s: implies(slen(s.old(s.self)._queue) == 0, unchanged(s, s.self)))])

fn(FIFOQueue, "peek", ensures=[
    ("head-or-none", lambda s: (s.result is None) if _is_zero(slen(s.self._queue)) else True),
    ("is-head", lambda s: implies(slen(s.self._queue) > 0, (s.result is not None) and mk_bool(
        seq_term(s.self._queue)[0] == s.result.t))),
    ("pure", lambda s: unchanged(s, s.self))])

fn(LIFOQueue, "peek", ensures=[
    ("is-last", lambda s: implies(slen(s.self._queue) > 0, (s.result is not None) and mk_bool(
        seq_term(s.self._queue)[z3.Length(seq_term(s.self._queue)) - 1] == s.result.t))),
    ("pure", lambda s: unchanged(s, s.self))])


def _is_zero(n):
    return isinstance(n, int) and n == 0


for K in (FIFOQueue, LIFOQueue):
    fn(K, "is_empty", ensures=[("iff-len0", lambda s: iff(s.result, slen(s.self._queue) == 0)),
                               ("pure", lambda s: unchanged(s, s.self))])
    fn(K, "__len__", ensures=[("is-len", lambda s: s.result == slen(s.self._queue)),
                              ("pure", lambda s: unchanged(s, s.self))])

# ---- priority queue: multiset view ordered by (priority, insert_order) ---------------------
PE = valueclass("PriorityEntry", [_PriorityEntry], [("priority", Real), ("insert_order", Int), ("item", ITEM)])


def pe_lt(a, b):
    d = PE.dt
    return z3.Or(d.priority(a) < d.priority(b),
                 z3.And(d.priority(a) == d.priority(b), d.insert_order(a) < d.insert_order(b)))


PHEAP = Bag(PE, pe_lt)
cls(PriorityQueue, fields={"_capacity": IntInf, "_key": Fn(Real, "prio_key"), "_heap": PHEAP, "_insert_counter": Int},
    const=["_capacity", "_key"],
    inv=[("capacity-shape", cap_ok),
         ("never-above-capacity", lambda o: within(slen(o._heap), o._capacity)),
         ("orders-below-counter", lambda o: mk_bool(_orders_below(o)))])


def _orders_below(o):
    h = o._heap.term
    x = z3.Const("pe_x", PE.sort())
    cnt = PHEAP.dt.cnt(h)
    return z3.ForAll([x], z3.Implies(z3.Select(cnt, x) > 0, PE.dt.insert_order(x) < num(o._insert_counter)))


fn(_PriorityEntry, "__lt__", self_ty=PE, args={"other": PE}, inv=False, ensures=[
    ("is-the-heap-order", lambda s: iff(s.result, mk_bool(pe_lt(PE.unwrap(s.self), PE.unwrap(s.other)))))])


def _cnt(o, state_obj=None):
    return PHEAP.dt.cnt(o._heap.term)


fn(PriorityQueue, "push", args={"item": ITEM}, ensures=[
    ("accepted-iff-room", lambda s: iff(s.result, Not(_pq_full(s.old(s.self))))),
    ("size", lambda s: slen(s.self._heap) == slen(s.old(s.self)._heap) + ite(s.result, 1, 0)),
    ("rejected-unchanged", lambda s: implies(Not(s.result), mk_bool(s.self._heap.term == s.old(s.self)._heap.term))),
    ("accepted-adds-one-entry-for-item", lambda s: implies(s.result, mk_bool(_added_one(s)))),
    ("counter", lambda s: s.self._insert_counter == s.old(s.self)._insert_counter + ite(s.result, 1, 0))])


def _pq_full(o):
    c = o._capacity
    if isinstance(c, float):
        return False
    return slen(o._heap) >= c


def _added_one(s):
    """exists priority p: cnt' == cnt[entry(p, old counter, item) += 1]"""
    old, new = _cnt(s.old(s.self)), _cnt(s.self)
    p = z3.Real("added_p")
    e = PE.dt.mk(z3.IntVal(0), p, num(s.old(s.self)._insert_counter), s.item.t)
    return z3.Exists([p], new == z3.Store(old, e, z3.Select(old, e) + 1))


fn(PriorityQueue, "pop", ensures=[
    ("empty-gives-none", lambda s: implies(slen(s.old(s.self)._heap) == 0, s.result is None)),
    # m = the entry heappop removed (ghost witness): it was in the bag, carries the returned item,
    # no entry of the bag is below it (so among equal priorities the earliest inserted: stable),
    # and exactly that occurrence is gone
    ("nonempty-pops-an-entry", lambda s: implies(slen(s.old(s.self)._heap) > 0, popped_any() and s.result is not None)),
    ("returns-item-of-removed-entry", lambda s: True if not popped_any() else (s.result is not None) and mk_bool(
        z3.And(z3.Select(_cnt(s.old(s.self)), last_popped()) > 0, PE.dt.item(last_popped()) == s.result.t))),
    ("removed-entry-is-minimal", lambda s: _none_below(s)),
    ("exactly-one-occurrence-removed", lambda s: True if not popped_any() else mk_bool(
        _cnt(s.self) == z3.Store(_cnt(s.old(s.self)), last_popped(), z3.Select(_cnt(s.old(s.self)), last_popped()) - 1))),
    ("counter-unchanged", lambda s: unchanged(s, s.self, "_insert_counter"))])


def _none_below(s):
    if not popped_any():
        return True
    old = _cnt(s.old(s.self))
    m = last_popped()
    return forall(Raw(PE.sort()), lambda x: mk_bool(z3.Implies(z3.Select(old, x) > 0, z3.Not(pe_lt(x, m)))), "x")


fn(PriorityQueue, "is_empty", ensures=[("iff-len0", lambda s: iff(s.result, slen(s.self._heap) == 0)),
                                       ("pure", lambda s: unchanged(s, s.self))])
fn(PriorityQueue, "__len__", ensures=[("is-len", lambda s: s.result == slen(s.self._heap)),
                                      ("pure", lambda s: unchanged(s, s.self))])

# ============================================================================ B. concurrency models
cls(FixedConcurrency, fields={"_max_concurrent": Int, "_active": Int}, const=["_max_concurrent"],
    inv=[("bounds", lambda o: (0 <= o._active) & (o._active <= o._max_concurrent)), ("limit", lambda o: o._max_concurrent >= 1)])
cls(DynamicConcurrency, fields={"_current_limit": Int, "_min_limit": Int, "_max_limit": Opt(Int), "_active": Int},
    const=["_min_limit", "_max_limit"],
    inv=[("active-nonneg", lambda o: o._active >= 0), ("limit-min", lambda o: (o._min_limit >= 1) & (o._current_limit >= o._min_limit)),
         ("limit-max", lambda o: True if o._max_limit is None else (o._current_limit <= o._max_limit) & (o._max_limit >= o._min_limit))])
cls(WeightedConcurrency, fields={"_total_capacity": Int, "_used_capacity": Int}, const=["_total_capacity"],
    inv=[("bounds", lambda o: (0 <= o._used_capacity) & (o._used_capacity <= o._total_capacity)),
         ("cap", lambda o: o._total_capacity >= 1)])

ctor(FixedConcurrency, args={"max_concurrent": Int},
     ensures=[("idle", lambda s: (s.self._active == 0) & (s.self._max_concurrent == s.max_concurrent))],
     raises={ValueError: [("only-bad-limit", lambda s: s.max_concurrent < 1)]})
fn(FixedConcurrency, "acquire", args={"weight": Int}, ensures=[
    ("result", lambda s: iff(s.result, s.old(s.self)._active < s.self._max_concurrent)),
    ("effect", lambda s: s.self._active == s.old(s.self)._active + ite(s.result, 1, 0))])
fn(FixedConcurrency, "release", args={"weight": Int}, ensures=[
    ("effect", lambda s: s.self._active == ite(s.old(s.self)._active >= 1, s.old(s.self)._active - 1, 0))])
fn(FixedConcurrency, "has_capacity", args={"weight": Int}, ensures=[
    ("result", lambda s: iff(s.result, s.self._active < s.self._max_concurrent)), ("pure", lambda s: unchanged(s, s.self))])

fn(DynamicConcurrency, "acquire", args={"weight": Int}, ensures=[
    ("result", lambda s: iff(s.result, s.old(s.self)._active < s.self._current_limit)),
    ("effect", lambda s: s.self._active == s.old(s.self)._active + ite(s.result, 1, 0)),
    ("admitted-within-limit", lambda s: implies(s.result, s.self._active <= s.self._current_limit))])
fn(DynamicConcurrency, "release", args={"weight": Int}, ensures=[
    ("effect", lambda s: s.self._active == ite(s.old(s.self)._active >= 1, s.old(s.self)._active - 1, 0))])
fn(DynamicConcurrency, "has_capacity", args={"weight": Int}, ensures=[
    ("result", lambda s: iff(s.result, s.self._active < s.self._current_limit)), ("pure", lambda s: unchanged(s, s.self))])
fn(DynamicConcurrency, "set_limit", args={"new_limit": Int}, ensures=[
    ("clamped", lambda s: (s.self._current_limit >= s.self._min_limit)
        & (True if s.self._max_limit is None else s.self._current_limit <= s.self._max_limit)),
    ("exact-when-in-range", lambda s: implies(
        (s.new_limit >= s.self._min_limit) & (True if s.self._max_limit is None else s.new_limit <= s.self._max_limit),
        s.self._current_limit == s.new_limit)),
    ("active-untouched", lambda s: unchanged(s, s.self, "_active"))])

ctor(WeightedConcurrency, args={"total_capacity": Int},
     ensures=[("idle", lambda s: (s.self._used_capacity == 0) & (s.self._total_capacity == s.total_capacity))],
     raises={ValueError: [("only-bad-capacity", lambda s: s.total_capacity < 1)]})
fn(WeightedConcurrency, "acquire", args={"weight": Int},
   ensures=[("result", lambda s: iff(s.result, s.old(s.self)._used_capacity + s.weight <= s.self._total_capacity)),
            ("effect", lambda s: s.self._used_capacity == s.old(s.self)._used_capacity + ite(s.result, s.weight, 0))],
   raises={ValueError: [("only-bad-weight", lambda s: s.weight < 1), ("frame", lambda s: unchanged(s, s.self))]})
fn(WeightedConcurrency, "release", args={"weight": Int},
   ensures=[("never-negative", lambda s: s.self._used_capacity >= 0),
            ("effect", lambda s: s.self._used_capacity == ite(s.old(s.self)._used_capacity - s.weight >= 0,
                                                              s.old(s.self)._used_capacity - s.weight, 0))],
   raises={ValueError: [("only-bad-weight", lambda s: s.weight < 1), ("frame", lambda s: unchanged(s, s.self))]})
fn(WeightedConcurrency, "has_capacity", args={"weight": Int},
   ensures=[("result", lambda s: iff(s.result, s.self._used_capacity + s.weight <= s.self._total_capacity)),
            ("pure", lambda s: unchanged(s, s.self))])

# ============================================================================ C. Queue / QueueDriver / Server
from happysimulator.components.queued_resource import QueuedResource, _QueuedResourceWorkerAdapter  # noqa: E402
from happysimulator.components.server.server import Server  # noqa: E402
from happysimulator.distributions.latency_distribution import LatencyDistribution  # noqa: E402

cls(QueuePollEvent, fields={"requestor": OptRef(Entity)})
cls(QueueNotifyEvent, fields={"queue_entity": OptRef(Entity)})
EVENT_KINDS = [Event, QueuePollEvent, QueueNotifyEvent, QueueDeliverEvent]
cls(QueueDeliverEvent, fields={"payload": OptRef(Event, variants=[Event]), "queue_entity": OptRef(Entity)})
ANY_EVENT = Ref(Event, variants=EVENT_KINDS)

# ---- the QueuePolicy interface contract (every implementation of part A refines it) ---------
# ghost view: g_items = held items in the order `pop` will return them is policy specific; the
# interface only exposes size, capacity and membership.
cls(QueuePolicy, ghost={"g_size": Int, "g_cap": IntInf},
    inv=[("size-in-range", lambda o: (o.g_size >= 0) & within(o.g_size, o.g_cap))])
stub_of(QueuePolicy, "is_empty", returns=Bool, modifies=[], ensures=[lambda s: iff(s.result, s.self.g_size == 0)])
stub_of(QueuePolicy, "__len__", returns=Int, modifies=[], ensures=[lambda s: s.result == s.self.g_size])
stub_of(QueuePolicy, "capacity", returns=IntInf, modifies=[], ensures=[
    lambda s: (isinstance(s.result, float) and isinstance(s.self.g_cap, float))
    or (not isinstance(s.result, float) and not isinstance(s.self.g_cap, float) and s.result == s.self.g_cap)])
stub_of(QueuePolicy, "push", returns=Bool, modifies=["g_size"], ensures=[
    lambda s: iff(s.result, Not(_full(s.old(s.self)))),
    lambda s: s.self.g_size == s.old(s.self).g_size + ite(s.result, 1, 0)])
stub_of(QueuePolicy, "pop", returns=OptRef(Event, variants=[Event]), modifies=["g_size"], ensures=[
    lambda s: iff(s.result is None, s.old(s.self).g_size == 0),
    lambda s: s.self.g_size == s.old(s.self).g_size - (0 if s.result is None else 1)])
POLICY_IFACE = [(QueuePolicy, n) for n in ("is_empty", "__len__", "capacity", "push", "pop")]


def _full(o):
    c = o.g_cap
    if isinstance(c, float):
        return False
    return o.g_size >= c


cls(Queue, fields={"egress": Ref(Entity), "policy": Ref(QueuePolicy), "stats_dropped": Int, "stats_accepted": Int},
    inv=[("counters-nonneg", lambda o: (o.stats_dropped >= 0) & (o.stats_accepted >= 0))])


def _one_notify(s):
    r = s.result
    if len(r) != 1:
        return False
    e = r[0]
    return (isinstance(e, QueueNotifyEvent) and (ns(e.time) == now_ns(s.self)) & same(e.target, s.self.egress)
            & same(e.queue_entity, s.self) & Not(e._cancelled))


fn(Queue, "_handle_enqueue", args={"event": ANY_EVENT}, uses=POLICY_IFACE,
   focus=lambda s: [s.self.policy], ensures=[
    ("offered-once-accepted-or-dropped", lambda s:
        s.self.stats_accepted + s.self.stats_dropped == s.old(s.self).stats_accepted + s.old(s.self).stats_dropped + 1),
    ("dropped-iff-full", lambda s: iff(s.self.stats_dropped == s.old(s.self).stats_dropped + 1, _full(s.old(s.self.policy)))),
    ("held-grows-iff-accepted", lambda s: s.self.policy.g_size - s.old(s.self.policy).g_size
        == s.self.stats_accepted - s.old(s.self).stats_accepted),
    ("notify-iff-accepted-into-empty", lambda s: _one_notify(s) if len(s.result) else
        Not((s.old(s.self.policy).g_size == 0) & Not(_full(s.old(s.self.policy))))),
    ("notify-only-when-was-empty", lambda s: implies(len(s.result) != 0, s.old(s.self.policy).g_size == 0)),
])


def _one_deliver(s):
    r = s.result
    if len(r) != 1:
        return False
    e = r[0]
    return (isinstance(e, QueueDeliverEvent) and (ns(e.time) == now_ns(s.self)) & same(e.target, s.event.requestor)
            & same(e.queue_entity, s.self) & (e.payload is not None))


fn(Queue, "_handle_poll", args={"event": Ref(QueuePollEvent)}, uses=POLICY_IFACE,
   requires=[lambda s: s.event.requestor is not None],
   focus=lambda s: [s.self.policy], ensures=[
    ("empty-gives-nothing", lambda s: implies(s.old(s.self.policy).g_size == 0, len(s.result) == 0)),
    ("nonempty-delivers-exactly-one", lambda s: implies(s.old(s.self.policy).g_size > 0, _one_deliver(s))),
    ("pops-at-most-one", lambda s: s.self.policy.g_size == s.old(s.self.policy).g_size - len(s.result)),
    ("counters-untouched", lambda s: unchanged(s, s.self, "stats_accepted", "stats_dropped"))])

# ---- driver ---------------------------------------------------------------------------------
cls(QueueDriver, fields={"queue": Ref(Entity), "target": Ref(Entity)})
stub_of(Entity, "has_capacity", returns=Bool, modifies=[], ensures=[])


def _one_poll(s, time_ns):
    r = s.result
    if not isinstance(r, list) or len(r) != 1:
        return False
    e = r[0]
    return (isinstance(e, QueuePollEvent) and (ns(e.time) == time_ns) & same(e.target, s.self.queue)
            & same(e.requestor, s.self))


fn(QueueDriver, "_handle_notify", args={"_": Ref(QueueNotifyEvent)}, uses=[(Entity, "has_capacity")], ensures=[
    ("at-most-one-poll-at-now", lambda s: True if len(s.result) == 0 else _one_poll(s, now_ns(s.self)))])


def _work_payload_post(s):
    r = s.result
    if len(r) != 1:
        return False
    e = r[0]
    ok = same(e, s.payload) & (ns(e.time) == now_ns(s.self)) & same(e.target, s.self.target)
    ok = ok & (slen(e.on_complete) == slen(s.old(s.payload).on_complete) + 1)
    return ok


fn(QueueDriver, "_handle_work_payload", args={"payload": Ref(Event)}, uses=[(Entity, "has_capacity")], ensures=[
    # the *original* payload event is re-emitted (same object, hence same creation index: see DESIGN 3-C08
    # on why I-reserve for unit weights rests on this), retargeted, stamped now, with one more hook
    ("re-emits-the-payload-itself", _work_payload_post),
    ("payload-identity-kept", lambda s: (s.payload._sort_index == s.old(s.payload)._sort_index)
        & (s.payload._id == s.old(s.payload)._id) & iff(s.payload._cancelled, s.old(s.payload)._cancelled))])

fn(QueueDriver, "_handle_delivery", args={"event": Ref(QueueDeliverEvent)}, uses=[(Entity, "has_capacity")], ensures=[
    ("empty-delivery-ignored", lambda s: implies(s.event.payload is None, len(s.result) == 0)),
    ("payload-forwarded-once", lambda s: True if s.event.payload is None else
        (len(s.result) == 1) and same(s.result[0], s.event.payload))])

# ---- server: one atomic segment before the service delay, one after --------------------------
cls(LatencyDistribution, fields={"_mean_latency": Real})
stub_of(LatencyDistribution, "get_latency", returns=DURATION, modifies=[], ensures=[lambda s: s.result.nanoseconds >= 0])
from happysimulator.components.server.concurrency import ConcurrencyModel  # noqa: E402
cls(Server, fields={"_concurrency_model": Ref(WeightedConcurrency), "_service_time": Ref(LatencyDistribution),
                    "_downstream": OptRef(Entity), "_requests_completed": Int, "_requests_rejected": Int,
                    "_total_service_time": Real, "_service_times": Seq(Real)},
    inv=[("counters-nonneg", lambda o: (o._requests_completed >= 0) & (o._requests_rejected >= 0))],
    guarantee=[("counters-monotone", lambda old, new: (new._requests_completed >= old._requests_completed)
                & (new._requests_rejected >= old._requests_rejected))])


def _server_result(s):
    r = s.result
    ds = s.self._downstream
    if ds is None:
        return r is None
    if r is None:       # rejected path
        return True
    e = r[0]
    return (len(r) == 1) and (ns(e.time) == now_ns(s.self)) & same(e.target, ds) & (e.event_type == s.event.event_type)


def _weight(e):
    """the request weight exactly as Server.handle_queued_event reads it"""
    m = e.context.get("metadata", None)
    if m is None:
        return 1
    return m.get("weight", 1)


fn(Server, "handle_queued_event", args={"event": Ref(Event)},
   requires=[("request-weight-positive", lambda s: _weight(s.event) >= 1)],
   uses=[(LatencyDistribution, "get_latency")],
   focus=lambda s: [s.self._concurrency_model],
   yields=Yields(
       at_yield=[("delay-nonnegative", lambda s, y: y >= 0),
                 ("slot-taken-before-service", lambda s, y:
                  s.self._concurrency_model._used_capacity >= s.old(s.self._concurrency_model)._used_capacity + 1)],
       stable=[("Entity", "_clock"), ("Server", "_concurrency_model"), ("Server", "_service_time"), ("Server", "_downstream"),
               ("Event", "event_type"), ("Event", "context")],
       rely=[lambda s, b, y: ns(s.self._clock._current_time) >= ns(b.pre(s.self._clock)._current_time)]),
   ensures=[
    ("completed-or-rejected-once", lambda s:
        (s.self._requests_completed - s.pre(s.self)._requests_completed)
        + (s.self._requests_rejected - s.pre(s.self)._requests_rejected) == 1),
    ("slot-released-exactly-at-completion", lambda s: implies(
        s.self._requests_completed == s.pre(s.self)._requests_completed + 1,
        s.self._concurrency_model._used_capacity == ite(
            # the weight as read at entry: forward() later adds a "metadata" key to the shared context
            s.pre(s.self._concurrency_model)._used_capacity - _weight(s.old(s.event)) >= 0,
            s.pre(s.self._concurrency_model)._used_capacity - _weight(s.old(s.event)), 0))),
    ("rejected-takes-no-slot", lambda s: implies(
        s.self._requests_rejected == s.pre(s.self)._requests_rejected + 1,
        s.self._concurrency_model._used_capacity == s.pre(s.self._concurrency_model)._used_capacity)),
    ("forwards-exactly-once-downstream-at-completion-time", _server_result)])


# ---- bounded stand-in (labelled bounded, never counted as proved) for the pipeline-level clause "no simulated time
# passes while an item waits and the worker has free capacity for it": it needs the in-flight control events of
# queue -> driver -> worker (I-work of DESIGN 3-C08), which no single function owns.
def _burst_grid(seed, tier):
    return run_native_script("triage/c08_burst.py", tier)


PROPERTY["bounded"] = [{"name": "burst-work-conservation",
                        "bound": "bursts of k in {1,2,3,5} (thorough: up to 13) requests at one instant x concurrency in {1,2,3} "
                                 "(thorough: up to 7) x hop patterns, constant service time",
                        "fn": _burst_grid}]


# ---- bounded stand-in for the policy clauses the deductive part D does not reach (iteration over heap lists in
# DeadlineQueue.peek/purge_expired/count_expired, the sum of flow lengths of FairQueue, WeightedFairQueue, CoDelQueue)
def _policy_models(seed, tier):
    return run_native_script("triage/c08_policies.py", tier)


PROPERTY["bounded"].append({"name": "policy-model-differential",
                            "bound": "30 (thorough: 400) seeded random push/pop/peek/purge/clock sequences of 80 (200) steps per "
                                     "policy (Deadline, Fair, WeightedFair, AdaptiveLIFO, RED, CoDel) against reference models; "
                                     "capacities in {inf,1,2,3,5,8}, 4 flows, weights 0..4",
                            "fn": _policy_models})


# ---- bounded stand-in for QueuedResource pipelines: constructor wiring (assumed as class invariant in part E), the
# partition dropped / waiting / in service / completed-once over whole runs, and ShiftedServer scenarios (part F)
def _pipelines(seed, tier):
    return run_native_script("triage/c08_pipeline.py", tier)


PROPERTY["bounded"].append({"name": "queued-resource-pipeline",
                            "bound": "25 (thorough: 300) seeded runs: 3..12 requests at pairwise distinct instants x concurrency "
                                     "1..3 x FIFO waiting room in {inf,1,2,4} x constant service time, complete and cut runs; "
                                     "5 ShiftedServer scenarios (those that need the C08 repairs run once the repairs are in)",
                            "fn": _pipelines})


# ============================================================================ D. remaining queue policies
# Every policy of components/queue_policies/: capacity, conservation `enqueued = dequeued + dropped + held` as a class
# invariant over the policy's own counters, every offered item accepted or rejected-and-counted exactly once, and the
# order clause where the policy defines one.  Drop DECISIONS of RED / CoDel are float heuristics (A-float; the random
# draw of RED is an arbitrary real in [0,1)): only their bookkeeping is under contract.
from happysimulator.components.queue_policies import adaptive_lifo as _alifo_mod  # noqa: E402
from happysimulator.components.queue_policies.adaptive_lifo import AdaptiveLIFO  # noqa: E402


def _seq_eq(a, b):
    return mk_bool(a == b)


def _app(seq, item):
    """seq ++ [item] as a raw z3 sequence term"""
    return z3.Concat(seq, z3.Unit(item.t))


def _qseq(o):
    return seq_term(o._queue)


# ---- AdaptiveLIFO: FIFO below the congestion threshold, LIFO at or above it ---------------------------------------
cls(AdaptiveLIFO, fields={"_congestion_threshold": Int, "_capacity": IntInf, "_queue": Seq(ITEM), "_was_congested": Bool,
                          "_enqueued": Int, "_dequeued_fifo": Int, "_dequeued_lifo": Int, "_capacity_rejected": Int,
                          "_mode_switches": Int},
    const=["_congestion_threshold", "_capacity"],
    inv=[("capacity-shape", cap_ok), ("threshold-positive", lambda o: o._congestion_threshold >= 1),
         ("never-above-capacity", lambda o: within(slen(o._queue), o._capacity)),
         ("conservation", lambda o: o._enqueued == o._dequeued_fifo + o._dequeued_lifo + slen(o._queue)),
         ("counters-nonneg", lambda o: (o._dequeued_fifo >= 0) & (o._dequeued_lifo >= 0) & (o._capacity_rejected >= 0))])

# (constructors of policies: inv=False because the ghost interface view of QueuePolicy is not theirs to establish; the
#  clauses below state the initial values, from which every invariant of the class follows)
ctor(AdaptiveLIFO, args={"congestion_threshold": Int, "capacity": Opt(Int)}, inv=False,
     ensures=[("empty", lambda s: (slen(s.self._queue) == 0) & (s.self._enqueued == 0) & (s.self._capacity_rejected == 0)
               & (s.self._dequeued_fifo == 0) & (s.self._dequeued_lifo == 0)
               & (s.self._congestion_threshold == s.congestion_threshold)),
              ("capacity-as-given", lambda s: isinstance(s.self._capacity, float) if s.capacity is None
               else (not isinstance(s.self._capacity, float)) and s.self._capacity == s.capacity)],
     raises={ValueError: [("only-bad-config", lambda s: (s.congestion_threshold < 1)
                           | (False if s.capacity is None else s.capacity < 1))]})

fn(AdaptiveLIFO, "push", args={"item": ITEM}, ensures=[
    ("accepted-iff-room", lambda s: iff(s.result, Not(within_full(s.old(s.self))))),
    ("accepted-appends", lambda s: implies(s.result, _seq_eq(_qseq(s.self), _app(_qseq(s.old(s.self)), s.item)))),
    ("rejected-unchanged", lambda s: implies(Not(s.result), _seq_eq(_qseq(s.self), _qseq(s.old(s.self))))),
    ("accepted-or-rejected-and-counted-once", lambda s:
        (s.self._enqueued == s.old(s.self)._enqueued + ite(s.result, 1, 0))
        & (s.self._capacity_rejected == s.old(s.self)._capacity_rejected + ite(s.result, 0, 1))),
    ("dequeue-counters-untouched", lambda s: unchanged(s, s.self, "_dequeued_fifo", "_dequeued_lifo"))])


def _alifo_congested(o):
    return slen(o._queue) >= o._congestion_threshold


fn(AdaptiveLIFO, "pop", ensures=[
    ("empty-gives-none", lambda s: implies(slen(s.old(s.self)._queue) == 0, (s.result is None) and unchanged(s, s.self))),
    ("nonempty-gives-item", lambda s: implies(slen(s.old(s.self)._queue) > 0, s.result is not None)),
    ("congested-returns-newest", lambda s: True if s.result is None else implies(
        _alifo_congested(s.old(s.self)),
        _seq_eq(_qseq(s.old(s.self)), _app(_qseq(s.self), s.result)))),
    ("uncongested-returns-oldest", lambda s: True if s.result is None else implies(
        Not(_alifo_congested(s.old(s.self))),
        _seq_eq(_qseq(s.old(s.self)), z3.Concat(z3.Unit(s.result.t), _qseq(s.self))))),
    ("dequeued-counted-once", lambda s: (s.self._dequeued_fifo + s.self._dequeued_lifo
        == s.old(s.self)._dequeued_fifo + s.old(s.self)._dequeued_lifo + (0 if s.result is None else 1))
        & (s.self._dequeued_fifo >= s.old(s.self)._dequeued_fifo) & (s.self._dequeued_lifo >= s.old(s.self)._dequeued_lifo)),
    ("offer-counters-untouched", lambda s: unchanged(s, s.self, "_enqueued", "_capacity_rejected"))])

fn(AdaptiveLIFO, "peek", ensures=[
    ("none-iff-empty", lambda s: iff(s.result is None, slen(s.self._queue) == 0)),
    ("is-what-pop-returns", lambda s: True if s.result is None else mk_bool(
        z3.If(to_z3_bool(to_b(_alifo_congested(s.self))), _qseq(s.self)[z3.Length(_qseq(s.self)) - 1], _qseq(s.self)[0])
        == s.result.t)),
    ("pure", lambda s: unchanged(s, s.self))])
fn(AdaptiveLIFO, "is_empty", ensures=[("iff-len0", lambda s: iff(s.result, slen(s.self._queue) == 0)),
                                      ("pure", lambda s: unchanged(s, s.self))])
fn(AdaptiveLIFO, "__len__", ensures=[("is-len", lambda s: s.result == slen(s.self._queue)),
                                     ("pure", lambda s: unchanged(s, s.self))])

# ---- REDQueue: FIFO with probabilistic early drop ------------------------------------------------------------------
from happysimulator.components.queue_policies import red as _red_mod  # noqa: E402
from happysimulator.components.queue_policies.red import REDQueue  # noqa: E402


class _AnyDraw:
    """stand-in for the `random` module inside red.py while a task runs: random() is an arbitrary real in [0, 1)"""

    @staticmethod
    def random():
        r = fresh(Real, "draw")
        assume((r >= 0) & (r < 1))
        return r


def _draw_env(mod):
    saved = []

    def setup(s):
        saved.append(mod.__dict__["random"])
        mod.__dict__["random"] = _AnyDraw
        return []

    def teardown(s):
        while saved:
            mod.__dict__["random"] = saved.pop()
    return {"setup": setup, "teardown": teardown}


cls(REDQueue, fields={"_min_threshold": Int, "_max_threshold": Int, "_max_probability": Real, "_weight": Real,
                      "_capacity": Int, "_queue": Seq(ITEM), "_avg_queue": Real, "_count_since_last_drop": Int,
                      "_enqueued": Int, "_dequeued": Int, "_dropped_probabilistic": Int, "_dropped_forced": Int,
                      "_capacity_rejected": Int},
    const=["_min_threshold", "_max_threshold", "_max_probability", "_weight", "_capacity"],
    inv=[("config", lambda o: (o._min_threshold >= 0) & (o._max_threshold > o._min_threshold) & (o._capacity >= o._max_threshold)
          & (o._max_probability > 0) & (o._max_probability <= 1) & (o._weight > 0) & (o._weight < 1)),
         ("never-above-capacity", lambda o: slen(o._queue) <= o._capacity),
         ("conservation", lambda o: o._enqueued == o._dequeued + slen(o._queue)),
         ("average-nonneg", lambda o: o._avg_queue >= 0),
         ("counters-nonneg", lambda o: (o._dequeued >= 0) & (o._dropped_probabilistic >= 0) & (o._dropped_forced >= 0)
          & (o._capacity_rejected >= 0) & (o._count_since_last_drop >= 0))])


def _red_offered(o):
    return o._enqueued + o._dropped_probabilistic + o._dropped_forced + o._capacity_rejected


def _red_full(o):
    return slen(o._queue) >= o._capacity


fn(REDQueue, "push", args={"item": ITEM}, **_draw_env(_red_mod), ensures=[
    ("offered-once-accepted-or-counted", lambda s: (_red_offered(s.self) == _red_offered(s.old(s.self)) + 1)
        & (s.self._enqueued == s.old(s.self)._enqueued + ite(s.result, 1, 0))
        & (s.self._dropped_probabilistic >= s.old(s.self)._dropped_probabilistic)
        & (s.self._dropped_forced >= s.old(s.self)._dropped_forced)
        & (s.self._capacity_rejected >= s.old(s.self)._capacity_rejected)),
    ("full-rejects-and-counts", lambda s: implies(_red_full(s.old(s.self)),
        Not(s.result) & (s.self._capacity_rejected == s.old(s.self)._capacity_rejected + 1))),
    ("accepted-appends", lambda s: implies(s.result, _seq_eq(_qseq(s.self), _app(_qseq(s.old(s.self)), s.item)))),
    ("rejected-unchanged", lambda s: implies(Not(s.result), _seq_eq(_qseq(s.self), _qseq(s.old(s.self))))),
    ("average-is-ewma-of-length", lambda s: s.self._avg_queue == (1 - s.self._weight) * s.old(s.self)._avg_queue
        + s.self._weight * slen(s.old(s.self)._queue)),
    ("no-early-drop-below-min-threshold", lambda s: implies(
        Not(_red_full(s.old(s.self))) & (s.self._avg_queue < s.self._min_threshold), s.result)),
    ("forced-drop-at-max-threshold", lambda s: implies(
        Not(_red_full(s.old(s.self))) & (s.self._avg_queue >= s.self._max_threshold),
        Not(s.result) & (s.self._dropped_forced == s.old(s.self)._dropped_forced + 1))),
    ("dequeued-untouched", lambda s: unchanged(s, s.self, "_dequeued"))])

fn(REDQueue, "pop", ensures=[
    ("empty-gives-none", lambda s: implies(slen(s.old(s.self)._queue) == 0, (s.result is None) and unchanged(s, s.self))),
    ("returns-oldest", lambda s: implies(slen(s.old(s.self)._queue) > 0, (s.result is not None) and _seq_eq(
        _qseq(s.old(s.self)), z3.Concat(z3.Unit(s.result.t), _qseq(s.self))))),
    ("dequeued-counted-once", lambda s: s.self._dequeued == s.old(s.self)._dequeued + (0 if s.result is None else 1)),
    ("offer-counters-untouched", lambda s: unchanged(s, s.self, "_enqueued", "_dropped_probabilistic", "_dropped_forced",
                                                     "_capacity_rejected", "_avg_queue", "_count_since_last_drop"))])
fn(REDQueue, "peek", ensures=[
    ("none-iff-empty", lambda s: iff(s.result is None, slen(s.self._queue) == 0)),
    ("is-head", lambda s: True if s.result is None else mk_bool(_qseq(s.self)[0] == s.result.t)),
    ("pure", lambda s: unchanged(s, s.self))])
fn(REDQueue, "is_empty", ensures=[("iff-len0", lambda s: iff(s.result, slen(s.self._queue) == 0)),
                                  ("pure", lambda s: unchanged(s, s.self))])
fn(REDQueue, "__len__", ensures=[("is-len", lambda s: s.result == slen(s.self._queue)),
                                 ("pure", lambda s: unchanged(s, s.self))])

# ---- DeadlineQueue: earliest deadline first among the entries that have not expired; expired ones counted -----------
from happysimulator.components.queue_policies.deadline_queue import DeadlineQueue, _DeadlineEntry  # noqa: E402
from pyvc import ctx as _pyvc_ctx  # noqa: E402

DE = valueclass("DeadlineEntry", [_DeadlineEntry],
                [("deadline_ns", Int), ("insert_order", Int), ("item", ITEM), ("deadline", TIME)])


def de_lt(a, b):
    d = DE.dt
    return z3.Or(d.deadline_ns(a) < d.deadline_ns(b),
                 z3.And(d.deadline_ns(a) == d.deadline_ns(b), d.insert_order(a) < d.insert_order(b)))


DHEAP = Bag(DE, de_lt)
CLOCKFN = Fn(TIME, "policy_clock")
cls(DeadlineQueue, fields={"_get_deadline": Fn(TIME, "get_deadline"), "_capacity": IntInf, "_clock_func": Opt(CLOCKFN),
                           "_heap": DHEAP, "_insert_counter": Int, "_enqueued": Int, "_dequeued": Int, "_expired": Int,
                           "_capacity_rejected": Int},
    const=["_get_deadline", "_capacity"],
    inv=[("capacity-shape", cap_ok),
         ("never-above-capacity", lambda o: within(slen(o._heap), o._capacity)),
         ("conservation", lambda o: o._enqueued == o._dequeued + o._expired + slen(o._heap)),
         ("counters-nonneg", lambda o: (o._dequeued >= 0) & (o._expired >= 0) & (o._capacity_rejected >= 0)),
         ("entries-well-formed", lambda o: _dl_entries_wf(o))])


def _dcnt(o):
    return DHEAP.dt.cnt(o._heap.term)


def _de_expired(x, now):
    """the policy's own expiry test on a raw entry term: entry.deadline < now (no clock: nothing expires)"""
    if now is None:
        return z3.BoolVal(False)
    return TIME.dt.nanoseconds(DE.dt.deadline(x)) < num(now.nanoseconds)


def _dl_entries_wf(o):
    """every held entry orders by its own deadline and was numbered before the counter"""
    cnt, n = _dcnt(o), num(o._insert_counter)
    return forall(Raw(DE.sort()), lambda x: mk_bool(z3.Implies(z3.Select(cnt, x) > 0, z3.And(
        TIME.dt.nanoseconds(DE.dt.deadline(x)) == DE.dt.deadline_ns(x), DE.dt.insert_order(x) < n))), "dwf")


def _dl_only_expired_removed(old, new, now):
    """pointwise: nothing was added; whatever is missing had expired"""
    c0, c1 = _dcnt(old), _dcnt(new)
    return forall(Raw(DE.sort()), lambda x: mk_bool(z3.And(
        z3.Select(c1, x) <= z3.Select(c0, x), z3.Select(c1, x) >= 0,
        z3.Implies(z3.Select(c1, x) != z3.Select(c0, x), _de_expired(x, now)))), "dx")


def _fn_rets(fn_field_term):
    """results of the calls of the unknown callable stored in a field, in call order (ghost call log)"""
    calls = _pyvc_ctx.cur().ghost_args.get("fn_calls", [])
    return [r for (t, a, k, r) in calls if t.eq(fn_field_term)]


def _dl_now(s):
    """the clock reading the call under check took (None without a clock)"""
    o = s.old(s.self)
    if o._clock_func is None:
        return None
    rets = _fn_rets(o._clock_func._pyvc_fn_term)
    if len(rets) != 1:
        raise SpecError("DeadlineQueue: expected exactly one clock reading on this path")
    return rets[0]


fn(_DeadlineEntry, "__lt__", self_ty=DE, args={"other": DE}, inv=False, ensures=[
    ("is-the-heap-order", lambda s: iff(s.result, mk_bool(de_lt(DE.unwrap(s.self), DE.unwrap(s.other)))))])


def _dl_full(o):
    c = o._capacity
    if isinstance(c, float):
        return False
    return slen(o._heap) >= c


def _dl_added(s):
    """the bag gained exactly one entry (deadline d, old counter, item) where d is what get_deadline returned"""
    ds = _fn_rets(s.self._get_deadline._pyvc_fn_term)
    if len(ds) != 1:
        return False
    d = TIME.unwrap(ds[0])
    e = DE.dt.mk(z3.IntVal(0), TIME.dt.nanoseconds(d), num(s.old(s.self)._insert_counter), s.item.t, d)
    old, new = _dcnt(s.old(s.self)), _dcnt(s.self)
    return mk_bool(new == z3.Store(old, e, z3.Select(old, e) + 1))


fn(DeadlineQueue, "push", args={"item": ITEM}, ensures=[
    ("accepted-iff-room", lambda s: iff(s.result, Not(_dl_full(s.old(s.self))))),
    ("rejected-unchanged-and-counted", lambda s: implies(Not(s.result), mk_bool(s.self._heap.term == s.old(s.self)._heap.term)
        & (s.self._capacity_rejected == s.old(s.self)._capacity_rejected + 1)
        & unchanged(s, s.self, "_enqueued", "_insert_counter"))),
    ("accepted-adds-one-entry-for-item", lambda s: _dl_added(s) if _truthy(s.result) else True),
    ("accepted-counted-once", lambda s: implies(s.result, (s.self._enqueued == s.old(s.self)._enqueued + 1)
        & (s.self._insert_counter == s.old(s.self)._insert_counter + 1)
        & unchanged(s, s.self, "_capacity_rejected"))),
    ("size", lambda s: slen(s.self._heap) == slen(s.old(s.self)._heap) + ite(s.result, 1, 0)),
    ("dequeue-counters-untouched", lambda s: unchanged(s, s.self, "_dequeued", "_expired"))])


def _truthy(b):
    """Python-level truth of a result that is concrete on every path of this function"""
    if isinstance(b, bool):
        return b
    t = z3.simplify(to_z3_bool(b))
    if z3.is_true(t):
        return True
    if z3.is_false(t):
        return False
    raise SpecError("result is not concrete on this path")


def _dl_pop_post(s):
    """EDF among live entries: the returned item belongs to an entry m of the old bag that has not expired and no live
    entry of the old bag is below m (equal deadlines: earliest inserted); exactly that occurrence and only expired
    entries are gone"""
    now = _dl_now(s)
    c0, c1 = _dcnt(s.old(s.self)), _dcnt(s.self)
    if s.result is None:
        return (slen(s.self._heap) == 0) & forall(Raw(DE.sort()), lambda x: mk_bool(
            z3.Implies(z3.Select(c0, x) > 0, _de_expired(x, now))), "x")
    if not popped_any():
        return False
    m = last_popped()
    return (mk_bool(z3.And(z3.Select(c0, m) > 0, DE.dt.item(m) == s.result.t, z3.Not(_de_expired(m, now))))
            & forall(Raw(DE.sort()), lambda x: mk_bool(z3.Implies(
                z3.And(z3.Select(c0, x) > 0, z3.Not(_de_expired(x, now))), z3.Not(de_lt(x, m)))), "x")
            & forall(Raw(DE.sort()), lambda x: mk_bool(z3.Implies(
                z3.Not(_de_expired(x, now)), z3.Select(c1, x) == z3.Select(c0, x) - z3.If(x == m, 1, 0))), "y")
            & forall(Raw(DE.sort()), lambda x: mk_bool(z3.Select(c1, x) <= z3.Select(c0, x)), "z"))


fn(DeadlineQueue, "pop", ensures=[
    ("earliest-live-deadline-first", _dl_pop_post),
    ("dequeued-counted-once", lambda s: s.self._dequeued == s.old(s.self)._dequeued + (0 if s.result is None else 1)),
    ("every-other-removed-entry-counted-expired", lambda s: s.self._expired - s.old(s.self)._expired
        == slen(s.old(s.self)._heap) - slen(s.self._heap) - (0 if s.result is None else 1)),
    ("no-clock-nothing-expires", lambda s: True if s.old(s.self)._clock_func is not None
        else unchanged(s, s.self, "_expired")),
    ("offer-counters-untouched", lambda s: unchanged(s, s.self, "_enqueued", "_capacity_rejected", "_insert_counter"))])

fn(DeadlineQueue, "is_empty", ensures=[("iff-len0", lambda s: iff(s.result, slen(s.self._heap) == 0)),
                                       ("pure", lambda s: unchanged(s, s.self))])
fn(DeadlineQueue, "__len__", ensures=[("is-len", lambda s: s.result == slen(s.self._heap)),
                                      ("pure", lambda s: unchanged(s, s.self))])

# ---- FairQueue: round robin over flows (OrderedDict of deques, modelled by pyvc/omap.py: position stamps) -----------
from happysimulator.components.queue_policies.fair_queue import FairQueue  # noqa: E402
from pyvc.omap import OMap  # noqa: E402

FLOWS = OMap(Str, Seq(ITEM))
cls(FairQueue, fields={"_get_flow_id": Fn(Str, "flow_id"), "_max_flows": Opt(Int), "_per_flow_capacity": IntInf,
                       "_flows": FLOWS, "_total_items": Int, "_enqueued": Int, "_dequeued": Int,
                       "_rejected_flow_capacity": Int, "_rejected_max_flows": Int, "_flows_created": Int,
                       "_flows_removed": Int},
    const=["_get_flow_id", "_max_flows", "_per_flow_capacity"],
    inv=[("config", lambda o: (True if o._max_flows is None else o._max_flows >= 1)
          and (True if isinstance(o._per_flow_capacity, float) else o._per_flow_capacity >= 1)),
         # (that _total_items is the SUM of the flow lengths - hence >= 0 and zero only without flows - is a fact about
         #  a sum over a symbolic map; it is checked by the bounded stand-in `policy-model-differential`, not here)
         ("conservation", lambda o: o._enqueued == o._dequeued + o._total_items),
         ("never-more-flows-than-allowed", lambda o: True if o._max_flows is None else slen(o._flows) <= o._max_flows),
         # no empty flow is kept (so the head flow always has an item) and no flow exceeds its share of the capacity
         ("each-flow-nonempty-and-within-its-capacity", lambda o: forall(Str, lambda k: implies(
             _fl_has(o, k), (_fl_len(o, k) >= 1) & within(_fl_len(o, k), o._per_flow_capacity)), "k")),
         ("flow-accounting", lambda o: (o._flows_created == o._flows_removed + slen(o._flows)) & (o._flows_removed >= 0)),
         ("counters-nonneg", lambda o: (o._dequeued >= 0) & (o._rejected_flow_capacity >= 0) & (o._rejected_max_flows >= 0))])


def _kt(k):
    return Str.unwrap(k)


def _fl_has(o, k):
    return mk_bool(z3.Select(FLOWS.dt.dom(o._flows.term), _kt(k)))


def _fl_seq(o, k):
    """raw sequence term of flow k (meaningful only where _fl_has)"""
    return z3.Select(FLOWS.dt.val(o._flows.term), _kt(k))


def _fl_len(o, k):
    return mk_num(z3.Length(_fl_seq(o, k)))


def _fl_pos(o, k):
    return mk_num(z3.Select(FLOWS.dt.pos(o._flows.term), _kt(k)))


def _fl_same_flow(a, b, k):
    """flow k is the same in both states: presence, content and place in the round"""
    return iff(_fl_has(a, k), _fl_has(b, k)) & implies(_fl_has(a, k), mk_bool(_fl_seq(a, k) == _fl_seq(b, k))
                                                       & (_fl_pos(a, k) == _fl_pos(b, k)))


def _fq_flow_of_item(s):
    """the flow id the user function returned for the pushed item (ghost call log)"""
    r = _fn_rets(s.self._get_flow_id._pyvc_fn_term)
    if len(r) != 1:
        raise SpecError("FairQueue.push: expected exactly one call of get_flow_id")
    return r[0]


def _fq_push_accept(s):
    """accepted exactly when the item's flow exists with room, or can be created"""
    o, f = s.old(s.self), _fq_flow_of_item(s)
    at_max = False if o._max_flows is None else slen(o._flows) >= o._max_flows
    room = Not(within_full_n(_fl_len(o, f), o._per_flow_capacity))
    return iff(s.result, ite_b(_fl_has(o, f), room, Not(at_max)))


def within_full_n(n, cap):
    if isinstance(cap, float):
        return False
    return n >= cap


def ite_b(c, a, b):
    return mk_bool(z3.If(to_z3_bool(to_b(c)), to_z3_bool(to_b(a)), to_z3_bool(to_b(b))))


def _fq_push_effect(s):
    o, n, f = s.old(s.self), s.self, _fq_flow_of_item(s)
    others = forall(Str, lambda k: implies(mk_bool(_kt(k) != _kt(f)), _fl_same_flow(o, n, k)), "k")
    if not _truthy(s.result):
        return others & _fl_same_flow(o, n, f) & (slen(n._flows) == slen(o._flows))
    old_seq = z3.If(to_z3_bool(_fl_has(o, f)), _fl_seq(o, f), z3.Empty(z3.SeqSort(ITEM.sort())))
    appended = _fl_has(n, f) & mk_bool(_fl_seq(n, f) == z3.Concat(old_seq, z3.Unit(s.item.t)))
    # an existing flow keeps its turn; a new flow joins at the back of the round
    place = implies(_fl_has(o, f), _fl_pos(n, f) == _fl_pos(o, f)) & forall(Str, lambda k: implies(
        Not(_fl_has(o, f)) & _fl_has(o, k), _fl_pos(n, k) < _fl_pos(n, f)), "j")
    return others & appended & place


fn(FairQueue, "push", args={"item": ITEM}, ensures=[
    ("accepted-iff-flow-has-room-or-can-be-created", _fq_push_accept),
    ("appends-to-its-flow-only", _fq_push_effect),
    ("accepted-or-rejected-and-counted-once", lambda s:
        (s.self._enqueued == s.old(s.self)._enqueued + ite(s.result, 1, 0))
        & (s.self._total_items == s.old(s.self)._total_items + ite(s.result, 1, 0))
        & (s.self._rejected_flow_capacity + s.self._rejected_max_flows
           == s.old(s.self)._rejected_flow_capacity + s.old(s.self)._rejected_max_flows + ite(s.result, 0, 1))
        & (s.self._rejected_flow_capacity >= s.old(s.self)._rejected_flow_capacity)
        & (s.self._rejected_max_flows >= s.old(s.self)._rejected_max_flows)),
    ("dequeued-untouched", lambda s: unchanged(s, s.self, "_dequeued"))])


def _fq_pop_post(s):
    o, n = s.old(s.self), s.self
    if s.result is None:
        return (slen(o._flows) == 0) & unchanged(s, s.self)
    # w: the flow whose turn it is = least position stamp of the pre-state
    w = Str.wrap(o._flows._extreme(True))
    head = mk_bool(_fl_seq(o, w)[0] == s.result.t)
    rest = z3.Extract(_fl_seq(o, w), 1, z3.Length(_fl_seq(o, w)) - 1)
    served = ite_b(_fl_len(o, w) == 1, Not(_fl_has(n, w)),
                   _fl_has(n, w) & mk_bool(_fl_seq(n, w) == rest))
    to_back = forall(Str, lambda k: implies(_fl_has(n, w) & _fl_has(n, k) & mk_bool(_kt(k) != _kt(w)),
                                            _fl_pos(n, k) < _fl_pos(n, w)), "j")
    others = forall(Str, lambda k: implies(mk_bool(_kt(k) != _kt(w)), _fl_same_flow(o, n, k)), "k")
    return (slen(o._flows) > 0) & head & served & to_back & others


fn(FairQueue, "pop", ensures=[
    ("round-robin-head-of-the-flow-whose-turn-it-is", _fq_pop_post),
    ("dequeued-counted-once", lambda s: (s.self._dequeued == s.old(s.self)._dequeued + (0 if s.result is None else 1))
        & (s.self._total_items == s.old(s.self)._total_items - (0 if s.result is None else 1))),
    ("offer-counters-untouched", lambda s: unchanged(s, s.self, "_enqueued", "_rejected_flow_capacity", "_rejected_max_flows"))])


def _fq_peek_post(s):
    o = s.self
    if s.result is None:
        return slen(o._flows) == 0
    w = Str.wrap(o._flows._extreme(True))
    return mk_bool(_fl_seq(o, w)[0] == s.result.t)


fn(FairQueue, "peek", ensures=[("is-what-pop-returns", _fq_peek_post), ("pure", lambda s: unchanged(s, s.self))])
fn(FairQueue, "is_empty", ensures=[("iff-no-items", lambda s: iff(s.result, s.self._total_items == 0)),
                                   ("pure", lambda s: unchanged(s, s.self))])
fn(FairQueue, "__len__", ensures=[("is-total", lambda s: s.result == s.self._total_items),
                                  ("pure", lambda s: unchanged(s, s.self))])


# ============================================================================ E. QueuedResource and its worker adapter
# (QueuedResource.__init__ runs Entity.__init__, which stores _clock = None: outside the common typing "entities are
#  attached"; the wiring queue -> driver -> worker -> resource it establishes is checked natively by the bounded
#  stand-in `queued-resource-pipeline`, and is the class invariant assumed here)
cls(Entity, fields={"_crashed": Bool})
cls(QueuedResource, fields={"_queue": Ref(Queue), "_worker": Ref(_QueuedResourceWorkerAdapter), "_driver": Ref(QueueDriver)},
    const=["_queue", "_worker", "_driver"],
    inv=[("wired-queue-driver-worker-resource", lambda o: same(o._queue.egress, o._driver) & same(o._driver.queue, o._queue)
          & same(o._driver.target, o._worker) & same(o._worker._resource, o))])
cls(_QueuedResourceWorkerAdapter, fields={"_resource": Ref(QueuedResource)}, const=["_resource"])

fn(Queue, "handle_event", args={"event": ANY_EVENT}, uses=POLICY_IFACE,
   requires=[lambda s: True if not isinstance(s.event, QueuePollEvent) else s.event.requestor is not None],
   focus=lambda s: [s.self.policy], ensures=[
    ("a-poll-hands-over-at-most-one-item", lambda s: True if not isinstance(s.event, QueuePollEvent) else
        (s.self.policy.g_size == s.old(s.self.policy).g_size - len(s.result))
        & (len(s.result) == ite(s.old(s.self.policy).g_size > 0, 1, 0))
        & unchanged(s, s.self, "stats_accepted", "stats_dropped")),
    ("anything-else-is-offered-once-accepted-or-dropped", lambda s: True if isinstance(s.event, QueuePollEvent) else
        (s.self.stats_accepted + s.self.stats_dropped == s.old(s.self).stats_accepted + s.old(s.self).stats_dropped + 1)
        & (s.self.stats_accepted >= s.old(s.self).stats_accepted) & (s.self.stats_dropped >= s.old(s.self).stats_dropped)
        & (s.self.policy.g_size - s.old(s.self.policy).g_size == s.self.stats_accepted - s.old(s.self).stats_accepted)
        & iff(s.self.stats_dropped == s.old(s.self).stats_dropped + 1, _full(s.old(s.self.policy))))])


def _qr_notify_to_own_driver(s):
    r = s.result
    if len(r) == 0:
        return True
    e = r[0]
    return (len(r) == 1) and (isinstance(e, QueueNotifyEvent) and same(e.target, s.self._driver)
                              & same(e.queue_entity, s.self._queue) & (ns(e.time) == now_ns(s.self._queue)))


fn(QueuedResource, "handle_event", args={"event": Ref(Event, variants=[Event])}, uses=POLICY_IFACE,
   focus=lambda s: [s.self._queue, s.self._queue.policy], ensures=[
    # every event offered to the resource goes to ITS queue and is accepted or dropped-and-counted exactly once
    ("offered-once-accepted-or-dropped-and-counted", lambda s:
        (s.self._queue.stats_accepted + s.self._queue.stats_dropped
         == s.old(s.self._queue).stats_accepted + s.old(s.self._queue).stats_dropped + 1)
        & (s.self._queue.stats_accepted >= s.old(s.self._queue).stats_accepted)
        & (s.self._queue.stats_dropped >= s.old(s.self._queue).stats_dropped)),
    ("held-grows-iff-accepted", lambda s: s.self._queue.policy.g_size - s.old(s.self._queue.policy).g_size
        == s.self._queue.stats_accepted - s.old(s.self._queue).stats_accepted),
    ("dropped-only-when-full", lambda s: iff(s.self._queue.stats_dropped == s.old(s.self._queue).stats_dropped + 1,
                                              _full(s.old(s.self._queue.policy)))),
    ("wakes-its-own-driver-iff-accepted-into-empty", lambda s: _qr_notify_to_own_driver(s) and iff(
        len(s.result) == 1, (s.old(s.self._queue.policy).g_size == 0) & Not(_full(s.old(s.self._queue.policy)))))])

# the worker adapter: the resource's handler (arbitrary code of the subclass) runs exactly once per delivered event, on
# that very event, and its result is what the engine gets; a crashed resource runs nothing (C06 owns that clause)
_HQE = stub_of(QueuedResource, "handle_queued_event", returns=Any, modifies="world")
_HQE.keeps = [("_QueuedResourceWorkerAdapter", "_resource")]
_HCAP = stub_of(QueuedResource, "has_capacity", returns=Bool, modifies=[], ensures=[])


def _calls(name):
    return [r for r in _pyvc_ctx.cur().ghost_args.get("trace", []) if r[0] == name]


def _adapter_hands_over_once(s):
    calls = _calls("QueuedResource.handle_queued_event")
    if len(_pyvc_ctx.cur().ghost_args.get("trace", [])) != len(calls):
        return False
    if s.old(s.self._resource)._crashed:         # (decided by the path condition: the code tested it)
        return len(calls) == 0 and s.result is None
    if len(calls) != 1:
        return False
    _, vals, res = calls[0]
    return same(vals["self"], s.self._resource) & same(vals["event"], s.event) & same(res, s.result)


fn(_QueuedResourceWorkerAdapter, "handle_event", args={"event": Ref(Event, variants=[Event])},
   uses=[(QueuedResource, "handle_queued_event")], inv=False,
   ensures=[("handed-to-handle_queued_event-exactly-once", _adapter_hands_over_once)])


def _adapter_capacity(s):
    calls = _calls("QueuedResource.has_capacity")
    if len(calls) != 1:
        return False
    _, vals, res = calls[0]
    return same(vals["self"], s.self._resource) & iff(res, s.result)


fn(_QueuedResourceWorkerAdapter, "has_capacity", uses=[(QueuedResource, "has_capacity")], inv=False,
   ensures=[("is-the-resources-own-answer", _adapter_capacity), ("pure", lambda s: unchanged(s, s.self))])


# ============================================================================ F. industrial variants that front a queue
# ShiftedServer (components/industrial/shift_schedule.py): concurrency follows a shift schedule.
from happysimulator.components.industrial import shift_schedule as _shift_mod  # noqa: E402
from happysimulator.components.industrial.shift_schedule import ShiftedServer, ShiftSchedule  # noqa: E402
import inspect as _inspect  # noqa: E402

cls(ShiftSchedule, fields={})
stub_of(ShiftSchedule, "capacity_at", returns=Int, modifies=[], ensures=[])
stub_of(ShiftSchedule, "next_transition_after", returns=Opt(Real), modifies=[], ensures=[
    lambda s: True if s.result is None else s.result > s.time_s])
SCHEDULE_IFACE = [(ShiftSchedule, "capacity_at"), (ShiftSchedule, "next_transition_after")]
cls(ShiftedServer, fields={"schedule": Ref(ShiftSchedule), "service_time": Real, "downstream": OptRef(Entity),
                           "_current_capacity": Int, "_active": Int, "_processed": Int, "_initialized": Bool},
    const=["schedule", "service_time"],
    inv=[("counters-nonneg", lambda o: (o._active >= 0) & (o._processed >= 0)),
         ("service-time-nonneg", lambda o: o.service_time >= 0)],
    guarantee=[("processed-monotone", lambda old, new: new._processed >= old._processed)])

fn(ShiftedServer, "has_capacity", ensures=[
    ("free-worker-iff-in-service-below-shift-capacity", lambda s: iff(s.result, s.self._active < s.self._current_capacity)),
    ("pure", lambda s: unchanged(s, s.self))])

# The repair fixes/C08_shifted-server-wakes-queue-at-shift-start.diff makes a shift change wake the driver when work
# waits beside a free worker (finding C08/shift-start-strands-waiting-work).  The clause that needs it is active only
# once the repair is in the tree.
SHIFT_WAKE_REPAIRED = "QueueNotifyEvent" in _inspect.getsource(_shift_mod.ShiftedServer._handle_shift_change)
SHIFT_INIT_REPAIRED = "capacity_at" in _inspect.getsource(_shift_mod.ShiftedServer.handle_event)
# fixes/C08_shifted-server-boundary-livelock.diff: the next shift change is never scheduled before its boundary (finding
# C08/shift-boundary-livelock: a boundary that is not a whole number of ns is re-scheduled at the same instant for ever)
SHIFT_BOUNDARY_REPAIRED = "to_seconds() < next_t" in _inspect.getsource(_shift_mod.ShiftedServer._schedule_next_shift)


def _shift_events(s):
    """(shift-change events, driver wake-ups) in the result; False if anything else is in it"""
    if not isinstance(s.result, list):
        return False
    changes, wakes = [], []
    for e in s.result:
        if isinstance(e, QueueNotifyEvent):
            wakes.append(e)
        else:
            changes.append(e)
    return changes, wakes


def _shift_change_post(s):
    """capacity becomes what the schedule says for now; the next transition (if any) is scheduled exactly once, as a
    daemon event for this server"""
    got = _shift_events(s)
    if got is False:
        return False
    changes, _ = got
    caps, nxt = _calls("ShiftSchedule.capacity_at"), _calls("ShiftSchedule.next_transition_after")
    if len(caps) != 1 or len(nxt) != 1:
        return False
    ok = s.self._current_capacity == caps[0][2]
    ok = ok & (caps[0][1]["time_s"] * 1000000000 == now_ns(s.self))
    t = nxt[0][2]
    if t is None:
        return ok if len(changes) == 0 else False
    if len(changes) != 1:
        return False
    e = changes[0]
    ok = ok & same(e.target, s.self) & (e.event_type == "_ShiftChange") & e.daemon & (ns(e.time) >= now_ns(s.self))
    if SHIFT_BOUNDARY_REPAIRED:
        # strictly later, and not before the boundary itself: simulated time passes between two shift changes
        ok = ok & (ns(e.time) > now_ns(s.self)) & (ns(e.time) >= t * 1000000000)
    return ok


def _shift_change_wakes(s):
    """I-work at the end of the handler: an item waits and a worker is free => a wake-up for the driver is on its way at
    this very instant (and never more than one: each wake-up becomes a poll)"""
    got = _shift_events(s)
    if got is False:
        return False
    _, wakes = got
    need = (s.self._active < s.self._current_capacity) & (s.self._queue.policy.g_size > 0)
    if len(wakes) == 0:
        return Not(need)
    if len(wakes) != 1:
        return False
    w = wakes[0]
    return need & same(w.target, s.self._driver) & same(w.queue_entity, s.self._queue) & (ns(w.time) == now_ns(s.self))


fn(ShiftedServer, "_handle_shift_change", uses=SCHEDULE_IFACE + POLICY_IFACE,
   focus=lambda s: [s.self._queue, s.self._queue.policy], ensures=[
    ("capacity-follows-schedule-and-next-change-scheduled-once", _shift_change_post),
    ("work-in-service-and-queue-untouched", lambda s: unchanged(s, s.self, "_active", "_processed")
        & (s.self._queue.policy.g_size == s.old(s.self._queue.policy).g_size))]
   + ([("no-time-passes-while-work-waits-beside-a-free-worker", _shift_change_wakes)] if SHIFT_WAKE_REPAIRED else []))


def _shifted_result(s):
    r, ds = s.result, s.self.downstream
    if ds is None:
        return r is None
    if r is None:
        return False
    e = r[0]
    return (len(r) == 1) and (ns(e.time) == now_ns(s.self)) & same(e.target, ds) & (e.event_type == s.event.event_type)


fn(ShiftedServer, "handle_queued_event", args={"event": Ref(Event, variants=[Event])},
   yields=Yields(
       at_yield=[("service-delay-is-the-service-time", lambda s, y: y == s.self.service_time),
                 ("in-service-while-the-delay-runs", lambda s, y: s.self._active == s.old(s.self)._active + 1)],
       stable=[("Entity", "_clock"), ("ShiftedServer", "downstream"), ("Event", "event_type"), ("Event", "context")],
       rely=[lambda s, b, y: ns(s.self._clock._current_time) >= ns(b.pre(s.self._clock)._current_time),
             # the unit this job added to _active is still counted when it resumes (other jobs only add / remove their own)
             lambda s, b, y: s.self._active >= 1]),
   ensures=[
    ("completed-exactly-once", lambda s: s.self._processed == s.pre(s.self)._processed + 1),
    ("leaves-service-exactly-at-completion", lambda s: s.self._active == s.pre(s.self)._active - 1),
    ("forwards-exactly-once-downstream-at-completion-time", _shifted_result)])


def _shifted_offer_post(s):
    """a request (anything but the server's own shift-change event) is offered to the queue exactly once"""
    if s.event.event_type == "_ShiftChange":
        return True
    q0, q1 = s.old(s.self._queue), s.self._queue
    ok = (q1.stats_accepted + q1.stats_dropped == q0.stats_accepted + q0.stats_dropped + 1) \
        & (q1.stats_accepted >= q0.stats_accepted) & (q1.stats_dropped >= q0.stats_dropped) \
        & (q1.policy.g_size - s.old(s.self._queue.policy).g_size == q1.stats_accepted - q0.stats_accepted) \
        & s.self._initialized & unchanged(s, s.self, "_active", "_processed")
    if SHIFT_INIT_REPAIRED and not _truthy_path(s.old(s.self)._initialized):
        # the first request may arrive after shift boundaries: the capacity in force is the schedule's for NOW
        caps = _calls("ShiftSchedule.capacity_at")
        if len(caps) != 1:
            return False
        ok = ok & (s.self._current_capacity == caps[0][2]) & (caps[0][1]["time_s"] * 1000000000 == now_ns(s.self))
    return ok


def _truthy_path(b):
    """truth of a condition the code has already branched on (decided by the path condition)"""
    return True if b else False


fn(ShiftedServer, "handle_event", args={"event": Ref(Event, variants=[Event])}, uses=SCHEDULE_IFACE + POLICY_IFACE,
   focus=lambda s: [s.self._queue, s.self._queue.policy], ensures=[
    ("request-offered-once-accepted-or-dropped-and-counted", _shifted_offer_post)])


# ---- BalkingQueue (components/industrial/balking.py): a policy wrapper that may refuse an item when the line is long.
# It refines the QueuePolicy interface except for "accepted iff room": a balked item is refused although there is room,
# and is counted in `balked` (the Queue in front counts it as dropped as well).
from happysimulator.components.industrial import balking as _balk_mod  # noqa: E402
from happysimulator.components.industrial.balking import BalkingQueue  # noqa: E402

cls(BalkingQueue, fields={"_inner": Ref(QueuePolicy), "balk_threshold": Int, "balk_probability": Real, "balked": Int},
    const=["_inner", "balk_threshold", "balk_probability"],
    inv=[("probability-in-range", lambda o: (o.balk_probability >= 0) & (o.balk_probability <= 1)),
         ("balked-nonneg", lambda o: o.balked >= 0)])

fn(BalkingQueue, "push", args={"item": ITEM}, uses=POLICY_IFACE, inv=False, focus=lambda s: [s.self._inner],
   requires=[lambda s: (s.self.balk_probability >= 0) & (s.self.balk_probability <= 1) & (s.self.balked >= 0)],
   **_draw_env(_balk_mod), ensures=[
    ("held-grows-iff-accepted", lambda s: s.self._inner.g_size == s.old(s.self._inner).g_size + ite(s.result, 1, 0)),
    ("balked-counted-once-and-only-on-a-long-line", lambda s:
        ((s.self.balked == s.old(s.self).balked) | (s.self.balked == s.old(s.self).balked + 1))
        & implies(s.self.balked == s.old(s.self).balked + 1,
                  Not(s.result) & (s.old(s.self._inner).g_size >= s.self.balk_threshold))),
    ("refused-only-by-balking-or-full-inner-policy", lambda s: implies(
        Not(s.result), (s.self.balked == s.old(s.self).balked + 1) | _full(s.old(s.self._inner)))),
    ("short-line-never-balks", lambda s: implies(s.old(s.self._inner).g_size < s.self.balk_threshold,
        iff(s.result, Not(_full(s.old(s.self._inner)))) & (s.self.balked == s.old(s.self).balked))),
    ("certain-balking-on-a-long-line", lambda s: implies(
        (s.self.balk_probability == 1) & (s.old(s.self._inner).g_size >= s.self.balk_threshold),
        Not(s.result) & (s.self.balked == s.old(s.self).balked + 1)))])
fn(BalkingQueue, "pop", uses=POLICY_IFACE, inv=False, focus=lambda s: [s.self._inner], ensures=[
    ("delegates-to-inner", lambda s: iff(s.result is None, s.old(s.self._inner).g_size == 0)
        & (s.self._inner.g_size == s.old(s.self._inner).g_size - (0 if s.result is None else 1))),
    ("balked-untouched", lambda s: unchanged(s, s.self, "balked"))])
fn(BalkingQueue, "is_empty", uses=POLICY_IFACE, inv=False, focus=lambda s: [s.self._inner], ensures=[
    ("iff-inner-empty", lambda s: iff(s.result, s.self._inner.g_size == 0)), ("pure", lambda s: unchanged(s, s.self))])
fn(BalkingQueue, "__len__", uses=POLICY_IFACE, inv=False, focus=lambda s: [s.self._inner], ensures=[
    ("is-inner-len", lambda s: s.result == s.self._inner.g_size), ("pure", lambda s: unchanged(s, s.self))])


# ============================================================================ G. industrial variants that buffer work
# BatchProcessor (components/industrial/batch_processor.py): items are buffered until batch_size of them are there or the
# timeout armed by the first buffered item fires; the batch is then in service for process_time and each of its items is
# completed (forwarded downstream) exactly once.
from happysimulator.components.industrial import batch_processor as _bp_mod  # noqa: E402
from happysimulator.components.industrial.batch_processor import BatchProcessor  # noqa: E402
from pyvc.heap import REG as _REG  # noqa: E402

_ENTITY_INIT = [Entity.__init__]


def _attached(s):
    """constructors of entities: Entity.__init__ stores _clock = None (outside the common typing 'entities are
    attached'); while a ctor task runs it only stores the name"""
    def _init(self, name):
        self.name = name
    Entity.__init__ = _init
    return []


def _detach(s):
    Entity.__init__ = _ENTITY_INIT[0]


EVSEQ = Seq(Ref(Event))


def _evseq(x):
    """raw sequence term of a list of events (symbolic, or a concrete list of symbolic events)"""
    return x.term if hasattr(x, "term") else EVSEQ.unwrap(x)


def _ev_arr(field, state=None):
    owner, ty = _REG.field(Event, field)
    return _pyvc_ctx.cur().heap.array((owner, field), ty, state)


def _outputs_for(owner, downstream, out, src, n, typed_src=False):
    """for every j < n: out[j] is an event for `downstream`, stamped with the owner's clock reading, of the type of src[j]
    (out, src: raw sequence terms of event references)"""
    t_arr, ty_arr, tg_arr = _ev_arr("time"), _ev_arr("event_type"), _ev_arr("target")
    now = num(now_ns(owner))
    alloc = _pyvc_ctx.cur().heap.alloc       # (typing: the outputs are allocated objects - not one a later step allocates)
    return forall(Int, lambda j: implies((0 <= j) & (j < n), mk_bool(z3.And(
        out[j.t] >= 1, out[j.t] <= alloc, z3.And(src[j.t] >= 1, src[j.t] <= alloc) if typed_src else z3.BoolVal(True),
        TIME.dt.nanoseconds(z3.Select(t_arr, out[j.t])) == now,
        z3.Select(ty_arr, out[j.t]) == z3.Select(ty_arr, src[j.t]),
        z3.Select(tg_arr, out[j.t]) == downstream._ref))), "j")


# fixes/C08_batch-processor-full-batch-first.diff: a full batch is started before the timeout is armed (finding
# C08/batch-of-one-with-timeout-exceeds-batch-size: with batch_size == 1 and a timeout the first item only arms the timeout,
# the second one starts a batch of two).  Until the repair is in the tree that configuration is excluded.
BP_FULL_FIRST_REPAIRED = _inspect.getsource(_bp_mod.BatchProcessor.handle_event).find("self.batch_size") \
    < _inspect.getsource(_bp_mod.BatchProcessor.handle_event).find("self.timeout_s")
BP_TIMEOUT = "_BatchTimeout"

cls(BatchProcessor, fields={"downstream": Ref(Entity), "batch_size": Int, "process_time": Real, "timeout_s": Real,
                            "_buffer": Seq(Ref(Event)), "_processing": Bool, "_timeout_event": OptRef(Event),
                            "_batches_processed": Int, "_items_processed": Int, "_timeouts": Int},
    const=["downstream", "batch_size", "process_time", "timeout_s"],
    inv=[("config", lambda o: (o.batch_size >= 1) & (o.process_time >= 0)
          & (True if BP_FULL_FIRST_REPAIRED else (o.batch_size >= 2) | (o.timeout_s <= 0))),
         # a full batch is started at once, so what waits is always a partial batch: no batch ever exceeds batch_size
         ("buffer-holds-a-partial-batch", lambda o: slen(o._buffer) < o.batch_size),
         # no stranding: whenever items wait (and a timeout is configured) the flush timeout is armed - and only then
         ("partial-batch-waits-iff-timeout-armed", lambda o: implies(
             o.timeout_s > 0, iff(slen(o._buffer) > 0, o._timeout_event is not None))),
         ("armed-timeout-is-a-live-timeout-event-of-this-processor", lambda o: _bp_timeout_live(o)),
         ("counters-nonneg", lambda o: (o._batches_processed >= 0) & (o._items_processed >= 0) & (o._timeouts >= 0))],
    guarantee=[("completions-monotone", lambda old, new: (new._items_processed >= old._items_processed)
                & (new._batches_processed >= old._batches_processed))])

ctor(BatchProcessor, args={"name": Str, "downstream": Ref(Entity), "batch_size": Int, "process_time": Real, "timeout_s": Real},
     setup=_attached, teardown=_detach, inv=False,
     ensures=[("starts-empty-and-idle", lambda s: (slen(s.self._buffer) == 0) & (s.self._timeout_event is None)
               & (s.self._items_processed == 0) & (s.self._batches_processed == 0) & (s.self._timeouts == 0)
               & Not(s.self._processing)),
              ("config-stored", lambda s: (s.self.batch_size == s.batch_size) & (s.self.process_time == s.process_time)
               & (s.self.timeout_s == s.timeout_s) & same(s.self.downstream, s.downstream))],
     raises={ValueError: [("only-bad-config", lambda s: (s.batch_size <= 0) | (s.process_time < 0))]})


def _bp_timeout_live(o):
    return True if o._timeout_event is None else (Not(o._timeout_event._cancelled) & same(o._timeout_event.target, o)
                                                  & (o._timeout_event.event_type == BP_TIMEOUT))


def _yielded(s):
    """the call under check suspended at least once (it returned a generator that was driven to its end)"""
    return s._seg is not s._old


def _bp_is_timeout(s):
    return _truthy_path(s.old(s.event).event_type == BP_TIMEOUT)


def _bp_batch(s):
    """(raw sequence term, length) of the batch a call puts in service: what was buffered at entry, plus the offered item"""
    b = seq_term(s.old(s.self)._buffer)
    if hasattr(s, "event") and not _bp_is_timeout(s):
        return z3.Concat(b, z3.Unit(s.event._ref)), slen(s.old(s.self)._buffer) + 1
    return b, slen(s.old(s.self)._buffer)


def _bp_at_yield_in_service(s, y):
    """the batch went into service as a whole: nothing is left in the buffer, its timeout is disarmed"""
    return (slen(s.self._buffer) == 0) & (s.self._timeout_event is None) & (y == s.self.process_time) \
        & unchanged(s, s.self, "_items_processed", "_batches_processed")


def _bp_batch_within_size(s, y):
    _, n = _bp_batch(s)
    return (n >= 1) & (n <= s.self.batch_size)


def _bp_completed_post(s):
    """exactly-once completion: when the batch leaves service each of its items is counted once and forwarded once, in
    order; what was buffered meanwhile is not touched"""
    if not _yielded(s):
        return True
    batch, n = _bp_batch(s)
    r = s.result
    return (s.self._items_processed == s.pre(s.self)._items_processed + n) \
        & (s.self._batches_processed == s.pre(s.self)._batches_processed + 1) \
        & mk_bool(seq_term(s.self._buffer) == seq_term(s.pre(s.self)._buffer)) \
        & unchanged_since(s, s.self, "_timeout_event", "_timeouts") \
        & (slen(r) == n) & _outputs_for(s.self, s.self.downstream, _evseq(r), batch, n)


def unchanged_since(s, obj, *fields):
    """the fields have the value they had when the last segment started (after the last yield)"""
    ok = True
    pre = s.pre(obj)
    for f in fields:
        a, b = getattr(obj, f), getattr(pre, f)
        if a is None or b is None:
            ok = ok & (a is None and b is None)
        elif hasattr(a, "_ref"):
            ok = ok & same(a, b)
        else:
            ok = ok & (a == b)
    return ok


def _bp_timeout_post(s):
    """a timeout flushes the partial batch: afterwards nothing waits (the buffered items are in service)"""
    if not _yielded(s):
        return (slen(s.old(s.self)._buffer) == 0) & (len(s.result) == 0) & (slen(s.self._buffer) == 0) \
            & (s.self._timeout_event is None) & unchanged(s, s.self, "_items_processed", "_batches_processed", "_timeouts")
    return slen(s.old(s.self)._buffer) > 0


def _bp_offer_post(s):
    """an offered item is buffered (behind the others) or goes into service with the whole buffer - never both, never
    neither; a batch starts exactly when the item completes it"""
    if _bp_is_timeout(s):
        return _bp_timeout_post(s)
    o, n = s.old(s.self), s.self
    full = slen(o._buffer) + 1 >= n.batch_size
    if _yielded(s):
        return full
    return Not(full) & mk_bool(seq_term(n._buffer) == z3.Concat(seq_term(o._buffer), z3.Unit(s.event._ref))) \
        & unchanged(s, s.self, "_items_processed", "_batches_processed", "_timeouts")


def _bp_arming_post(s):
    """the first item of a partial batch arms the flush timeout: exactly that event, fresh and live, is handed to the
    engine, due timeout_s from now; later items leave the armed timeout alone"""
    if _bp_is_timeout(s) or _yielded(s):
        return True
    o, n = s.old(s.self), s.self
    r = s.result
    if _truthy_path(n.timeout_s > 0) and _truthy_path(slen(o._buffer) == 0):
        if len(r) != 1 or n._timeout_event is None:
            return False
        e = r[0]
        return same(e, n._timeout_event) & Not(same(e, s.event)) & (e.event_type == BP_TIMEOUT) & same(e.target, n) \
            & Not(e._cancelled) & (ns(e.time) >= now_ns(n)) & (ns(e.time) <= now_ns(n) + n.timeout_s * 1000000000) \
            & (ns(e.time) > now_ns(n) + n.timeout_s * 1000000000 - 1)
    return (len(r) == 0) & unchanged_since(s, s.self, "_timeout_event")


_BP_STABLE = [("Event", "event_type"), ("Event", "context")]
_BP_RELY = [lambda s, b, y: ns(s.self._clock._current_time) >= ns(b.pre(s.self._clock)._current_time)]
_BP_AT_YIELD = [("whole-buffer-in-service-timeout-disarmed", _bp_at_yield_in_service),
                ("batch-within-batch-size", _bp_batch_within_size)]

fn(BatchProcessor, "handle_event", args={"event": Ref(Event, variants=[Event])},
   yields=Yields(at_yield=_BP_AT_YIELD + [
       ("timeout-counted-once", lambda s, y: s.self._timeouts == s.old(s.self)._timeouts + (1 if _bp_is_timeout(s) else 0))],
       stable=_BP_STABLE, rely=_BP_RELY),
   ensures=[("buffered-or-in-service-exactly-once", _bp_offer_post),
            ("first-buffered-item-arms-the-timeout", _bp_arming_post),
            ("batch-completed-exactly-once-in-order", _bp_completed_post)])

fn(BatchProcessor, "_handle_timeout",
   yields=Yields(at_yield=_BP_AT_YIELD + [
       ("timeout-counted-once", lambda s, y: s.self._timeouts == s.old(s.self)._timeouts + 1)],
       stable=_BP_STABLE, rely=_BP_RELY),
   ensures=[("timeout-flushes-the-partial-batch", _bp_timeout_post),
            ("batch-completed-exactly-once-in-order", _bp_completed_post)])


# ---- ConveyorBelt (components/industrial/conveyor.py): a bounded number of items in transit, no waiting room ----------
from happysimulator.components.industrial.conveyor import ConveyorBelt  # noqa: E402

cls(ConveyorBelt, fields={"downstream": Ref(Entity), "transit_time": Real, "_capacity": Int, "_items_in_transit": Int,
                          "_items_transported": Int, "_items_rejected": Int},
    const=["downstream", "transit_time", "_capacity"],
    inv=[("transit-time-nonneg", lambda o: o.transit_time >= 0),
         ("in-transit-within-capacity", lambda o: (o._items_in_transit >= 0)
          & implies(o._capacity > 0, o._items_in_transit <= o._capacity)),
         ("counters-nonneg", lambda o: (o._items_transported >= 0) & (o._items_rejected >= 0))],
    guarantee=[("counters-monotone", lambda old, new: (new._items_transported >= old._items_transported)
                & (new._items_rejected >= old._items_rejected))])

ctor(ConveyorBelt, args={"name": Str, "downstream": Ref(Entity), "transit_time": Real, "capacity": Int},
     setup=_attached, teardown=_detach,
     ensures=[("starts-empty", lambda s: (s.self._items_in_transit == 0) & (s.self._items_transported == 0)
               & (s.self._items_rejected == 0) & (s.self._capacity == s.capacity) & (s.self.transit_time == s.transit_time)
               & same(s.self.downstream, s.downstream))],
     raises={ValueError: [("only-negative-transit-time", lambda s: s.transit_time < 0)]})

fn(ConveyorBelt, "has_capacity", ensures=[
    ("room-iff-unbounded-or-below-capacity", lambda s: iff(s.result, (s.self._capacity <= 0)
                                                           | (s.self._items_in_transit < s.self._capacity))),
    ("pure", lambda s: unchanged(s, s.self))])


def _one_output(s, target, item):
    """the result is exactly one event: for `target`, stamped now, of the item's type"""
    r = s.result
    if r is None or len(r) != 1:
        return False
    e = r[0]
    return same(e.target, target) & (ns(e.time) == now_ns(s.self)) & (e.event_type == item.event_type) & Not(same(e, item))


def _belt_post(s):
    o, n = s.old(s.self), s.self
    full = (o._capacity > 0) & (o._items_in_transit >= o._capacity)
    if not _yielded(s):
        # rejected-and-counted: nothing else changes, nothing is emitted
        return full & (n._items_rejected == o._items_rejected + 1) & (len(s.result) == 0) \
            & unchanged(s, s.self, "_items_in_transit", "_items_transported")
    p = s.pre(s.self)
    return Not(full) & (n._items_in_transit == p._items_in_transit - 1) & (n._items_transported == p._items_transported + 1) \
        & (n._items_rejected == p._items_rejected) & _one_output(s, n.downstream, s.event)


_OWN_UNIT_RELY = [lambda s, b, y: ns(s.self._clock._current_time) >= ns(b.pre(s.self._clock)._current_time)]

fn(ConveyorBelt, "handle_event", args={"event": Ref(Event, variants=[Event])},
   yields=Yields(
       at_yield=[("transit-takes-the-transit-time", lambda s, y: y == s.self.transit_time),
                 ("in-transit-while-the-delay-runs", lambda s, y: (s.self._items_in_transit == s.old(s.self)._items_in_transit + 1)
                  & unchanged(s, s.self, "_items_transported", "_items_rejected"))],
       stable=_BP_STABLE,
       # the item this process put on the belt is still counted when it resumes (other items add / remove only their own)
       rely=_OWN_UNIT_RELY + [lambda s, b, y: s.self._items_in_transit >= 1]),
   ensures=[("rejected-and-counted-or-transported-exactly-once", _belt_post)])


# ---- GateController (components/industrial/gate_controller.py): passes items while open, holds them (FIFO, bounded)
# while closed, releases all of them when it opens
from happysimulator.components.industrial.gate_controller import GateController  # noqa: E402

cls(GateController, fields={"downstream": Ref(Entity), "_is_open": Bool, "_queue_capacity": Int, "_queue": Seq(Ref(Event)),
                            "_passed_through": Int, "_queued_while_closed": Int, "_rejected": Int, "_open_cycles": Int},
    const=["downstream", "_queue_capacity"],
    inv=[("waiting-room-within-capacity", lambda o: implies(o._queue_capacity > 0, slen(o._queue) <= o._queue_capacity)),
         # no stranding: an open gate holds nothing back
         ("open-gate-holds-nothing", lambda o: implies(o._is_open, slen(o._queue) == 0)),
         ("every-waiting-item-was-counted-as-queued", lambda o: o._queued_while_closed >= slen(o._queue)),
         ("counters-nonneg", lambda o: (o._passed_through >= 0) & (o._rejected >= 0) & (o._open_cycles >= 0))])


def _gate_accounted(o):
    """items offered so far = passed + rejected + waiting"""
    return o._passed_through + o._rejected + slen(o._queue)


def _gate_open_post(s):
    o, n = s.old(s.self), s.self
    r = s.result
    return n._is_open & (slen(n._queue) == 0) & (slen(r) == slen(o._queue)) \
        & (n._passed_through == o._passed_through + slen(o._queue)) \
        & _outputs_for(n, n.downstream, _evseq(r), _evseq(o._queue), slen(o._queue)) \
        & (n._open_cycles == o._open_cycles + ite(o._is_open, 0, 1)) \
        & unchanged(s, s.self, "_rejected", "_queued_while_closed")


def _gate_close_post(s):
    return Not(s.self._is_open) & (len(s.result) == 0) & mk_bool(_evseq(s.self._queue) == _evseq(s.old(s.self)._queue)) \
        & unchanged(s, s.self, "_passed_through", "_rejected", "_queued_while_closed", "_open_cycles")


for _m in ("_do_open", "open"):
    fn(GateController, _m, ensures=[("everything-that-waited-is-released-once-in-order", _gate_open_post)])
for _m in ("_do_close", "close"):
    fn(GateController, _m, ensures=[("closing-touches-no-item", _gate_close_post)])


def _gate_offer_post(s):
    o, n = s.old(s.self), s.self
    ty = s.old(s.event).event_type
    if _truthy_path(ty == "_GateOpen"):
        return _gate_open_post(s)
    if _truthy_path(ty == "_GateClose"):
        return _gate_close_post(s)
    full = (o._queue_capacity > 0) & (slen(o._queue) >= o._queue_capacity)
    same_flag = iff(n._is_open, o._is_open) & unchanged(s, s.self, "_open_cycles")
    if _truthy_path(o._is_open):
        return same_flag & (n._passed_through == o._passed_through + 1) & _one_output(s, n.downstream, s.event) \
            & unchanged(s, s.self, "_rejected", "_queued_while_closed") & (slen(n._queue) == 0)
    if len(s.result) != 0:
        return False
    rejected = same_flag & (n._rejected == o._rejected + 1) & mk_bool(_evseq(n._queue) == _evseq(o._queue)) \
        & unchanged(s, s.self, "_passed_through", "_queued_while_closed")
    queued = same_flag & (n._queued_while_closed == o._queued_while_closed + 1) \
        & mk_bool(_evseq(n._queue) == z3.Concat(_evseq(o._queue), z3.Unit(s.event._ref))) \
        & unchanged(s, s.self, "_passed_through", "_rejected")
    return ite_b(full, rejected, queued)


fn(GateController, "handle_event", args={"event": Ref(Event, variants=[Event])}, ensures=[
    ("passed-or-waiting-or-rejected-and-counted-exactly-once", _gate_offer_post),
    ("offered-equals-passed-plus-rejected-plus-waiting", lambda s: _gate_accounted(s.self) == _gate_accounted(s.old(s.self))
        + (0 if _truthy_path((s.old(s.event).event_type == "_GateOpen") | (s.old(s.event).event_type == "_GateClose")) else 1))])


# ---- PooledCycleResource (components/industrial/pooled_cycle.py): pool_size identical units, each busy for cycle_time per
# item; items wait FIFO (bounded) while no unit is free.
# fixes/C08_pooled-cycle-handoff-reserves-unit.diff: a completed cycle hands the freed unit to the head of the queue by
# re-sending that item to the resource; without the repair the unit is free meanwhile and an arrival delivered in between
# (same instant) takes it - the waiting item is then queued again behind later arrivals, or rejected when the bounded
# queue has filled up (finding C08/pooled-cycle-handoff-overtaken, triage/c08_pooled_cycle_overtake.py).  The repair
# reserves the unit (neither available nor active) for the hand-over event, recorded by id in `_handoffs`.
from happysimulator.components.industrial import pooled_cycle as _pc_mod  # noqa: E402
from happysimulator.components.industrial.pooled_cycle import PooledCycleResource  # noqa: E402

PC_HANDOFF_REPAIRED = "_handoffs" in _inspect.getsource(_pc_mod.PooledCycleResource)

cls(PooledCycleResource, fields=dict({"pool_size": Int, "cycle_time": Real, "downstream": OptRef(Entity), "_queue_capacity": Int,
                                      "_available": Int, "_active": Int, "_queue": Seq(Ref(Event)), "_completed": Int,
                                      "_rejected": Int}, **({"_handoffs": Set(Int)} if PC_HANDOFF_REPAIRED else {})),
    const=["pool_size", "cycle_time", "downstream", "_queue_capacity"],
    inv=[("config", lambda o: (o.pool_size >= 1) & (o.cycle_time >= 0)),
         # work in service never exceeds the pool: every unit is available, active or (repair) reserved for a hand-over
         ("units-partitioned", lambda o: (o._available >= 0) & (o._active >= 0)
          & (o._available + o._active + _pc_reserved(o) == o.pool_size)),
         ("waiting-room-within-capacity", lambda o: implies(o._queue_capacity > 0, slen(o._queue) <= o._queue_capacity)),
         ("counters-nonneg", lambda o: (o._completed >= 0) & (o._rejected >= 0))],
    guarantee=[("counters-monotone", lambda old, new: (new._completed >= old._completed) & (new._rejected >= old._rejected))])


def _pc_reserved(o):
    if not PC_HANDOFF_REPAIRED:
        return 0
    return slen(o._handoffs)


def assume_unique_event_id(o, e):
    """ghost assumption (see the top of this file): a new event's id is not among the recorded hand-over ids"""
    assume(Not(contains(o._handoffs, e._id)))


ctor(PooledCycleResource, args={"name": Str, "pool_size": Int, "cycle_time": Real, "downstream": OptRef(Entity),
                                "queue_capacity": Int}, setup=_attached, teardown=_detach,
     ensures=[("all-units-available-nothing-waits", lambda s: (s.self._available == s.pool_size) & (s.self._active == 0)
               & (slen(s.self._queue) == 0) & (s.self._completed == 0) & (s.self._rejected == 0)
               & (s.self._queue_capacity == s.queue_capacity))],
     raises={ValueError: [("only-bad-config", lambda s: (s.pool_size <= 0) | (s.cycle_time < 0))]})


def _pc_is_handoff(s):
    """(repair) the offered event is a hand-over event: a dequeued item arriving with the unit reserved for it"""
    if not PC_HANDOFF_REPAIRED:
        return False
    return _truthy_path(contains(s.old(s.self)._handoffs, s.old(s.event)._id))


def _pc_split_result(s):
    """(the event for downstream, the hand-over events to the resource itself) of the result"""
    r = list(s.result)
    if s.self.downstream is None:       # (by position: the downstream may be the resource itself)
        return [], r
    return r[:1], r[1:]


def _pc_offer_post(s):
    """an offered item starts a cycle iff a unit is free for it; otherwise it waits at the back of the queue, or is
    rejected-and-counted when the waiting room is full"""
    o, n = s.old(s.self), s.self
    if _yielded(s):
        return True if _pc_is_handoff(s) else o._available > 0
    if _pc_is_handoff(s):
        return False            # a hand-over event always starts its cycle
    full = (o._queue_capacity > 0) & (slen(o._queue) >= o._queue_capacity)
    frame = unchanged(s, s.self, "_available", "_active", "_completed") & (len(s.result) == 0)
    rejected = (n._rejected == o._rejected + 1) & mk_bool(_evseq(n._queue) == _evseq(o._queue))
    queued = (n._rejected == o._rejected) & mk_bool(_evseq(n._queue) == z3.Concat(_evseq(o._queue), z3.Unit(s.event._ref)))
    return (o._available == 0) & frame & ite_b(full, rejected, queued)


def _pc_cycle_at_yield(s, y):
    o, n = s.old(s.self), s.self
    ok = (y == n.cycle_time) & (n._active == o._active + 1) & mk_bool(_evseq(n._queue) == _evseq(o._queue)) \
        & unchanged(s, s.self, "_completed", "_rejected")
    if hasattr(s, "event") and _pc_is_handoff(s):
        # the reserved unit becomes the active one; the reservation is consumed
        return ok & (n._available == o._available) & Not(contains(n._handoffs, s.old(s.event)._id)) \
            & (_pc_reserved(n) == _pc_reserved(o) - 1)
    return ok & (n._available == o._available - 1) & (_pc_reserved(n) == _pc_reserved(o))


def _pc_completed_post(s):
    """completed exactly once; the unit is released exactly then and goes to the head of the queue if anything waits"""
    if not _yielded(s):
        return True
    p, n = s.pre(s.self), s.self
    got = _pc_split_result(s)
    down, hand = got
    ok = (n._completed == p._completed + 1) & (n._active == p._active - 1) & (n._rejected == p._rejected)
    if n.downstream is None:
        if len(down) != 0:
            return False
    else:
        if len(down) != 1:
            return False
        e = down[0]
        ok = ok & same(e.target, n.downstream) & (ns(e.time) == now_ns(n)) & (e.event_type == s.event.event_type)
    if len(hand) == 0:
        # nothing waited: the unit is simply free again
        return ok & (slen(p._queue) == 0) & (n._available == p._available + 1) & (slen(n._queue) == 0) \
            & (_pc_reserved(n) == _pc_reserved(p))
    if len(hand) != 1:
        return False
    h = hand[0]
    head = Ref(Event).wrap(_evseq(p._queue)[0])
    ok = ok & (slen(p._queue) > 0) & mk_bool(_evseq(n._queue) == z3.Extract(_evseq(p._queue), 1, num(slen(p._queue)) - 1)) \
        & same(h.target, n) & (ns(h.time) == now_ns(n)) & (h.event_type == head.event_type) & Not(h._cancelled)
    if PC_HANDOFF_REPAIRED:
        # the item taken out of the queue owns the freed unit: no arrival can take it before the hand-over is delivered
        ok = ok & (n._available == p._available) & contains(n._handoffs, h._id) & (_pc_reserved(n) == _pc_reserved(p) + 1)
    else:
        ok = ok & (n._available == p._available + 1)
    return ok


_PC_YIELDS = dict(stable=_BP_STABLE + [("Event", "_id")],
                  # the unit this cycle occupies is still counted as active when it resumes
                  rely=_OWN_UNIT_RELY + [lambda s, b, y: s.self._active >= 1])

fn(PooledCycleResource, "handle_event", args={"event": Ref(Event, variants=[Event])},
   yields=Yields(at_yield=[("unit-busy-for-the-cycle-time", _pc_cycle_at_yield)], **_PC_YIELDS),
   ensures=[("starts-iff-unit-free-else-waits-or-rejected-and-counted", _pc_offer_post),
            ("completed-once-unit-released-to-head-of-queue", _pc_completed_post)])
fn(PooledCycleResource, "_start_cycle", args={"event": Ref(Event, variants=[Event])},
   requires=[("a-unit-is-free", lambda s: s.self._available >= 1)],
   yields=Yields(at_yield=[("unit-busy-for-the-cycle-time", lambda s, y: (y == s.self.cycle_time)
                            & (s.self._active == s.old(s.self)._active + 1)
                            & (s.self._available == s.old(s.self)._available - 1))], **_PC_YIELDS),
   ensures=[("completed-once-unit-released-to-head-of-queue", _pc_completed_post)])


# ---- InspectionStation (components/industrial/inspection.py): a QueuedResource whose service is an inspection with a
# random verdict; every inspected item is forwarded exactly once, to the pass target or to the fail target
from happysimulator.components.industrial import inspection as _insp_mod  # noqa: E402
from happysimulator.components.industrial.inspection import InspectionStation  # noqa: E402

cls(InspectionStation, fields={"pass_target": Ref(Entity), "fail_target": Ref(Entity), "inspection_time": Real,
                               "pass_rate": Real, "_inspected": Int, "_passed": Int, "_failed": Int},
    const=["pass_target", "fail_target", "inspection_time", "pass_rate"],
    inv=[("config", lambda o: (o.pass_rate >= 0) & (o.pass_rate <= 1) & (o.inspection_time >= 0)),
         ("every-inspected-item-passed-or-failed", lambda o: (o._inspected == o._passed + o._failed)
          & (o._passed >= 0) & (o._failed >= 0))],
    guarantee=[("counters-monotone", lambda old, new: (new._passed >= old._passed) & (new._failed >= old._failed))])


def _insp_post(s):
    p, n = s.pre(s.self), s.self
    r = s.result
    if len(r) != 1:
        return False
    e = r[0]
    passed = n._passed == p._passed + 1
    return _yielded(s) & (n._inspected == p._inspected + 1) \
        & (((n._passed == p._passed + 1) & (n._failed == p._failed)) | ((n._passed == p._passed) & (n._failed == p._failed + 1))) \
        & ite_b(passed, same(e.target, n.pass_target), same(e.target, n.fail_target)) \
        & (ns(e.time) == now_ns(n)) & (e.event_type == s.event.event_type) \
        & implies(n.pass_rate == 1, passed) & implies(n.pass_rate == 0, Not(passed))


fn(InspectionStation, "handle_queued_event", args={"event": Ref(Event, variants=[Event])}, **_draw_env(_insp_mod),
   yields=Yields(at_yield=[("inspection-takes-the-inspection-time", lambda s, y: (y == s.self.inspection_time)
                            & unchanged(s, s.self, "_inspected", "_passed", "_failed"))],
                 stable=_BP_STABLE, rely=_OWN_UNIT_RELY),
   ensures=[("inspected-once-and-forwarded-once-to-the-target-of-its-verdict", _insp_post)])


# ---- RenegingQueuedResource (components/industrial/reneging.py): an item whose patience ran out while it waited is
# reneged-and-counted (a legal 'rejected' state) and is NOT served; every other item is served exactly once
from happysimulator.components.industrial.reneging import RenegingQueuedResource  # noqa: E402

cls(RenegingQueuedResource, fields={"reneged_target": OptRef(Entity), "default_patience_s": RealInf, "_served": Int,
                                    "_reneged": Int},
    const=["reneged_target", "default_patience_s"],
    inv=[("counters-nonneg", lambda o: (o._served >= 0) & (o._reneged >= 0))])
_HSE = stub_of(RenegingQueuedResource, "_handle_served_event", returns=Any, modifies="world")
_HSE.keeps = [("RenegingQueuedResource", "_served"), ("RenegingQueuedResource", "_reneged"),
              ("RenegingQueuedResource", "reneged_target")]


def _reneging_post(s):
    o, n = s.old(s.self), s.self
    calls = _calls("RenegingQueuedResource._handle_served_event")
    if len(_pyvc_ctx.cur().ghost_args.get("trace", [])) != len(calls):
        return False
    if len(calls) == 0:
        # reneged: counted once, not served, announced once to the reneged target (if there is one)
        ok = (n._reneged == o._reneged + 1) & (n._served == o._served)
        r = s.result
        if n.reneged_target is None:
            return ok & (len(r) == 0)
        if len(r) != 1:
            return False
        e = r[0]
        return ok & same(e.target, n.reneged_target) & (e.event_type == "Reneged") & (ns(e.time) == now_ns(n))
    if len(calls) != 1:
        return False
    _, vals, res = calls[0]
    return (n._served == o._served + 1) & (n._reneged == o._reneged) & same(vals["self"], s.self) \
        & same(vals["event"], s.event) & same(res, s.result)


fn(RenegingQueuedResource, "handle_queued_event", args={"event": Ref(Event, variants=[Event])},
   uses=[(RenegingQueuedResource, "_handle_served_event")],
   ensures=[("reneged-and-counted-and-never-served-or-served-exactly-once", _reneging_post)])


# ---- bounded stand-in for the industrial variants as whole pipelines (labelled bounded): exactly-once accounting over
# complete runs, the flush bound of BatchProcessor (nothing stranded - also when the timeout fires while a batch is in
# service), the renege DECISION (which reads `created_at` from the untyped event context), FIFO hand-over of
# PooledCycleResource (once its repair is in the tree)
def _industrial(seed, tier):
    return run_native_script("triage/c08_industrial.py", tier)


PROPERTY["bounded"].append({"name": "industrial-buffers",
                            "bound": "150 (thorough: 2000) seeded runs per component (BatchProcessor, ConveyorBelt, "
                                     "GateController, PooledCycleResource, RenegingQueuedResource with one worker): 1..14 items "
                                     "on a 0.1 s grid (several at one instant), sizes / capacities / pool sizes in 0..5, "
                                     "constant service times",
                            "fn": _industrial})

PROPERTY["assumptions"] += [
    "part G: BatchProcessor with batch_size == 1 AND timeout_s > 0 is excluded until fixes/C08_batch-processor-full-batch-"
    "first.diff is applied (finding C08/batch-of-one-with-timeout-exceeds-batch-size); BatchProcessor has no concurrency "
    "limit of its own (a full batch or a timeout starts a batch while another is in service; `_processing` is a flag, not "
    "a count) - 'work in service' is bounded per batch (batch_size), not per processor",
    "part G: the output loop of BatchProcessor._process_batch and the release loop of GateController._do_open are cut by "
    "loop invariants that forget the fields of all older Event objects (no frame for them): what the clauses say about "
    "the outputs is relative to the item fields in the final state; Event.__init__ runs inlined",
    "part G: while a ConveyorBelt item / a PooledCycleResource cycle is suspended the unit it added to _items_in_transit / "
    "_active is still counted when it resumes (other processes add / remove only their own)",
    "part G: PooledCycleResource on the current tree re-sends a dequeued item without reserving the freed unit (finding "
    "C08/pooled-cycle-handoff-overtaken, fixes/C08_pooled-cycle-handoff-reserves-unit.diff); the clause 'the dequeued item "
    "owns the freed unit' is active only on the repaired tree, where event ids are assumed unique (C03) at the one place "
    "a hand-over id is recorded",
    "part G: InspectionStation's random.random() is an arbitrary real in [0, 1); InspectionStation and "
    "RenegingQueuedResource declare no concurrency limit (has_capacity of the subclass decides); the renege DECISION "
    "reads created_at / patience_s from the untyped event context and is covered by the bounded stand-in "
    "`industrial-buffers` only - the deductive clause is: reneged-and-counted XOR handed to _handle_served_event exactly once",
]

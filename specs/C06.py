"""C06 - injected faults act exactly during their windows and isolate only their target.

Method.  A fault window is *open* from the delivery of its activation event to the delivery of its
deactivation event.  Per target the spec keeps ghost bookkeeping of the open windows (a counter, plus the
sum of the injected amounts where the fault adds something); a class invariant ties the observable setting
to that bookkeeping ("in effect exactly while at least one covering window is open; configured state when none
is").  Every fault closure is one step: it is run, through a small driver in this module, on an arbitrary
state that satisfies the invariants, after an arbitrary environment step (other faults and the workload run
between `FaultSchedule.start` and the delivery of the closure's event), and must re-establish the invariants.
That is the induction step for any number of overlapping / nested windows on the same or different targets.
The repaired link / capacity / partition closures keep the open windows of a target in a list on the target: where
the tree has that representation (`_*_REPR` flags) a representation invariant ties the list to the ghost bookkeeping;
the lists are modelled with a bounded list type (`Few`, at most MAX_OPEN windows of one kind open on one target at
the same time - listed in PROPERTY["assumptions"]).
The crash gates (`Event.invoke`, `ProcessContinuation.invoke`, the queue worker adapter) are under contract
directly; `FaultHandle.cancel` / `FaultSchedule.start` carry the cancellation clause.
See DESIGN.md section 3-C06.
"""
import os

from pyvc.spec import *

F_EV = "happysimulator/core/event.py"
F_NET = "happysimulator/faults/network_faults.py"
F_NODE = "happysimulator/faults/node_faults.py"
F_FAULT = "happysimulator/faults/fault.py"


def cancelled_at(events, j):
    """events[j]._cancelled as one term (no fork, usable under a quantifier)"""
    jt = j.t if hasattr(j, "t") else z3.IntVal(j)
    return mk_bool(field_term(ObjProxy(seq_term(events)[jt], Event), "_cancelled"))


def all_cancelled(events, upto=None):
    n = slen(events) if upto is None else upto
    return forall(Int, lambda j: implies((0 <= j) & (j < n), cancelled_at(events, j)), "j")


# FaultHandle.cancel: for event in self._events: event.cancel()
loop(F_FAULT, "FaultHandle.cancel", 1, modifies=[("Event", "_cancelled")], inv=[
    ("earlier-events-cancelled", lambda L: all_cancelled(L.self._events, L.i)),
    ("handle-marked", lambda L: L.self._cancelled)])

# _CompoundLatency(base, extra): ghost denotation "root distribution shifted by a constant":
# g_root = the configured distribution at the bottom of the chain, g_extra = sum of the constant extras on top
ghost(F_NET, "_CompoundLatency.__init__", "self._extra = extra",
      "self.g_root = base.g_root; self.g_extra = base.g_extra + extra._mean_latency")

from pyvc.ctx import REPO as _REPO  # noqa: E402
from specs.common import *  # noqa: E402,F401
from happysimulator.core import event as event_mod  # noqa: E402
from happysimulator.core.callback_entity import CallbackEntity  # noqa: E402
from happysimulator.faults.fault import FaultContext, FaultHandle  # noqa: E402
from happysimulator.faults.node_faults import CrashNode, PauseNode  # noqa: E402
from happysimulator.faults.schedule import FaultSchedule  # noqa: E402
from happysimulator.faults.fault import _MutableFaultStats  # noqa: E402
from happysimulator.core import sim_future as sf_mod  # noqa: E402
from happysimulator.core.sim_future import SimFuture  # noqa: E402
from happysimulator.components.queued_resource import QueuedResource, _QueuedResourceWorkerAdapter  # noqa: E402
from happysimulator.faults import network_faults as nf_mod  # noqa: E402
from happysimulator.faults.network_faults import (_CompoundLatency, InjectLatency, InjectPacketLoss,  # noqa: E402
                                                   NetworkPartition)
from happysimulator.faults.resource_faults import ReduceCapacity  # noqa: E402
from happysimulator.components.network import network as net_mod  # noqa: E402
from happysimulator.components.network.network import Network, Partition  # noqa: E402
from happysimulator.components.network.link import NetworkLink  # noqa: E402
from happysimulator.components.resource import Resource  # noqa: E402
from happysimulator.distributions.latency_distribution import LatencyDistribution  # noqa: E402
from happysimulator.distributions.constant import ConstantLatency  # noqa: E402

ME = "specs.C06"

PROPERTY = {
    "id": "C06",
    "level": "proof",
    "task_timeout": 900,      # generous: the whole check takes a few minutes on an idle box, far more under contention
    "trusted": ["heap typing of the fields declared in specs/C06.py and specs/common.py"],
    "assumptions": COMMON_ASSUMPTIONS + [
        "a fault window is open from the delivery of its activation event to the delivery of its deactivation "
        "event (C01 gives the instants at which the events are delivered and that cancelled events never are)",
        "FaultSchedule.start (hence every generate_events) runs in Simulation.__init__, before any event is "
        "delivered: at that moment no window is open on a link or resource (configured state)",
        "only fault closures write Entity._crashed (frame scan of the package: the only other access is the read in "
        "Event.invoke); the environment step between two fault events preserves the class invariants of this file",
        "an entity that was never crashed has no _crashed attribute; it is modelled as _crashed == False",
    ],
}


def _src(rel):
    with open(os.path.join(_REPO, rel)) as f:
        return f.read()


# ---------------------------------------------------------------------------------------- helpers
def _cx():
    from pyvc import ctx as _c
    return _c.cur()


def G(name):
    return _cx().ghost_args[name]


def has_G(name):
    return name in _cx().ghost_args


# fields a fault may change and the ghost bookkeeping: what the environment step havocs
ENV_KEYS = [("Entity", "_crashed"), ("Entity", "g_down"), ("Entity", "_crash_depth"),
            ("NetworkLink", "latency"), ("NetworkLink", "g_lat_extra"), ("NetworkLink", "g_lat_windows"),
            ("NetworkLink", "packet_loss_rate"), ("NetworkLink", "g_loss_extra"), ("NetworkLink", "g_loss_windows"),
            ("Resource", "_capacity"), ("Resource", "_available"), ("Resource", "g_held"),
            ("Resource", "g_cap_factor"), ("Resource", "g_cap_windows")]


def env_step():
    """other faults and the workload run: every fault-controlled setting (and its ghost bookkeeping) may change;
    the class invariants of the objects in focus hold again afterwards"""
    c = _cx()
    from pyvc.verify import check_invariants
    for k in ENV_KEYS:
        ci = REG.by_name[k[0]]
        c.heap.array(k, ci.fields.get(k[1]) or ci.ghost.get(k[1]))
    c.heap.havoc(ENV_KEYS)
    for o in getattr(c, "focus_objects", ()):
        check_invariants(c, o, "env", assume=True)
    c.ghost_args["mid"] = c.heap.snapshot()


def adopt(obj):
    """bring an object the code resolved by name into focus: its class invariants are assumed now (and after every
    environment step) and are obligations at exit"""
    c = _cx()
    from pyvc.verify import check_invariants
    check_invariants(c, obj, "adopt", assume=True)
    c.focus_objects.append(obj)
    return obj


def mid(obj):
    """view of obj in the state right before the closure under test ran"""
    from pyvc.heap import old_view
    return old_view(obj, G("mid"))


def _select(arr, idx):
    """Select(arr, idx) resolved through a chain of Stores whose indices are decidably equal / distinct"""
    while z3.is_store(arr):
        e = z3.simplify(arr.arg(1) == idx)
        if z3.is_true(e):
            return z3.simplify(arr.arg(2))
        if not z3.is_false(e):
            return None
        arr = arr.arg(0)
    return None


def fire(ev):
    """deliver a fault event to its once-callback: what Event.invoke does for a live CallbackEntity, whose
    handle_event is `return self._fn(event)`.  The callback is the closure Event.once stored (never an unknown
    callable: a SpecError otherwise)."""
    c = _cx()
    tref = _select(c.heap.array(("Event", "target"), REG.by_name["Event"].fields["target"]), ev._ref)
    fterm = None if tref is None else _select(
        c.heap.array(("CallbackEntity", "_fn"), REG.by_name["CallbackEntity"].fields["_fn"]), tref)
    if fterm is None or not z3.is_int_value(fterm) or fterm.as_long() not in Fn._table:
        raise SpecError("fire(): the event's once-callback could not be resolved")
    return Fn._table[fterm.as_long()](ev)


_ENTITY_INIT = [Entity.__init__]
_SAVE = {}


def _setup(s):
    # entities are verified "as attached" (COMMON_ASSUMPTIONS): Entity.__init__ leaves _clock = None until the
    # simulation injects the clock; the once-callback entities created by Event.once never read their clock
    def _init(self, name):
        self.name = name
    Entity.__init__ = _init
    _SAVE["tracing"] = event_mod._event_tracing_enabled
    event_mod._event_tracing_enabled = False
    return []


def _teardown(s):
    Entity.__init__ = _ENTITY_INIT[0]
    if "tracing" in _SAVE:
        event_mod._event_tracing_enabled = _SAVE.pop("tracing")


def from_seconds_ns(x):
    """Instant.from_seconds over reals: trunc(x * 1e9)"""
    from pyvc.rt import int_
    return int_(x * 1_000_000_000)


# ---- the bookkeeping lists of the repaired fault closures (open windows of one target) ----------------
MAX_OPEN = 3        # windows of one kind open on one target at the same time, in the verified steps


class _OpenList(list):
    """a list read from a `Few` field: appending / clearing writes through to the field"""

    def _bind(self, ty, loc):
        self._ty, self._loc = ty, loc
        return self

    def _sync(self):
        if getattr(self, "_loc", None) is not None:
            self._loc.set(self._ty.unwrap(self))

    def append(self, x):
        list.append(self, x)
        self._sync()

    def clear(self):
        list.clear(self)
        self._sync()


class Few(T.Ty):
    """a Python list of 0..MAX_OPEN elements (one z3 datatype value: length + element slots): the code's loops
    over it run natively; reading it forks on the length"""

    def __init__(self, elem, maxlen=MAX_OPEN):
        self.elem, self.maxlen = elem, maxlen
        self._tup = Tuple(Int, *([elem] * maxlen))
        self.name = f"list[{elem.name}] (len <= {maxlen})"

    def sort(self):
        return self._tup.dt

    def wrap(self, term, loc=None):
        c = _cx()
        n = self._tup.acc(0)(term)
        opts = [n == i for i in range(self.maxlen + 1)]
        c.assume(z3.Or(*opts))
        k = c.choose(opts, site="n-open")
        return _OpenList(self.elem.wrap(z3.simplify(self._tup.acc(i + 1)(term))) for i in range(k))._bind(self, loc)

    def unwrap(self, v):
        if not isinstance(v, list) or len(v) > self.maxlen:
            raise OutOfReach(f"more than {self.maxlen} open windows / not a list stored in a bounded window list")
        s = self.elem.sort()
        pad = z3.RealVal(0) if s == z3.RealSort() else z3.IntVal(0) if s == z3.IntSort() else z3.FreshConst(s)
        return self._tup.dt.mk(z3.IntVal(len(v)), *([self.elem.unwrap(x) for x in v] + [pad] * (self.maxlen - len(v))))


def once_callback(ev):
    """the closure Event.once stored for a fault event (never an unknown callable: a SpecError otherwise)"""
    c = _cx()
    tref = _select(c.heap.array(("Event", "target"), REG.by_name["Event"].fields["target"]), ev._ref)
    fterm = None if tref is None else _select(
        c.heap.array(("CallbackEntity", "_fn"), REG.by_name["CallbackEntity"].fields["_fn"]), tref)
    if fterm is None or not z3.is_int_value(fterm) or fterm.as_long() not in Fn._table:
        raise SpecError("the event's once-callback could not be resolved")
    return Fn._table[fterm.as_long()]


def closure_var(ev, name):
    """the value the fault closure behind `ev` captured under `name` (e.g. the window's own extra distribution)"""
    f = once_callback(ev)
    while name not in f.__code__.co_freevars:
        inner = [cell.cell_contents for cell in (f.__closure__ or ())
                 if type(cell.cell_contents).__name__ == "function"]
        if len(inner) != 1:
            raise SpecError(f"closure variable {name} not found")
        f = inner[0]
    return f.__closure__[f.__code__.co_freevars.index(name)].cell_contents


# ======================================================================================== B. node faults
# ghost g_down(x) = number of open crash / pause windows on entity x
_DEPTH_REPR = "_crash_depth" in _src(F_NODE)        # the window counter of the repaired tree (representation)
cls(Entity, fields={"_crashed": Bool, "_crash_depth": Int}, ghost={"g_down": Int},
    inv=[("open-window-count-nonneg", lambda o: o.g_down >= 0),
         ("down-exactly-while-a-crash-or-pause-window-is-open", lambda o: iff(o._crashed, o.g_down > 0))]
    + ([("depth-counts-open-windows", lambda o: o._crash_depth == o.g_down)] if _DEPTH_REPR else []))
cls(CallbackEntity, fields={"_fn": Fn(None, "once_cb")})
cls(FaultContext, fields={"entities": Map(Str, Ref(Entity)), "start_time": TIME},
    const=["entities", "start_time"])

CRASH = valueclass("CrashNode", [CrashNode], [("entity_name", Str), ("at", Real), ("restart_at", Opt(Real))])
PAUSE = valueclass("PauseNode", [PauseNode], [("entity_name", Str), ("start", Real), ("end", Real)])
CTX = Ref(FaultContext)


def _fault_event(e, at_s):
    """a live daemon event at from_seconds(at_s)"""
    return (ns(e.time) == from_seconds_ns(at_s)) & e.daemon & Not(e._cancelled)


fn(CrashNode, "generate_events", self_ty=CRASH, inv=False, args={"ctx": CTX}, setup=_setup, teardown=_teardown,
   ensures=[
       ("crash-event-at-the-crash-instant", lambda s: _fault_event(s.result[0], s.self.at)),
       ("restart-event-at-the-restart-instant-iff-configured", lambda s:
           (len(s.result) == 1) if s.self.restart_at is None else
           ((len(s.result) == 2) and _fault_event(s.result[1], s.self.restart_at))),
       ("scheduling-changes-nothing-yet", lambda s: unchanged(s, s.ctx.entities[s.self.entity_name], "_crashed"))],
   raises={KeyError: [("only-unknown-entity", lambda s: Not(contains(s.ctx.entities, s.self.entity_name)))]})

fn(PauseNode, "generate_events", self_ty=PAUSE, inv=False, args={"ctx": CTX}, setup=_setup, teardown=_teardown,
   ensures=[
       ("pause-and-resume-events-at-the-window-bounds", lambda s: (len(s.result) == 2)
           and (_fault_event(s.result[0], s.self.start) & _fault_event(s.result[1], s.self.end))),
       ("scheduling-changes-nothing-yet", lambda s: unchanged(s, s.ctx.entities[s.self.entity_name], "_crashed"))],
   raises={KeyError: [("only-unknown-entity", lambda s: Not(contains(s.ctx.entities, s.self.entity_name)))]})


# ---- steps: the closures of one fault, run after an arbitrary environment step ------------------
def step_down(fault, ctx, target, other):
    """the crash / pause event of `fault` is delivered: its window opens"""
    events = fault.generate_events(ctx)
    env_step()
    target.g_down = target.g_down + 1
    fire(events[0])


def step_up(fault, ctx, target, other):
    """the restart / resume event of `fault` is delivered: its window (open since step_down) closes"""
    events = fault.generate_events(ctx)
    env_step()
    assume(target.g_down >= 1)          # this fault's own window is one of the open ones
    target.g_down = target.g_down - 1
    fire(events[1])


def _is_target(s):
    ents = s.ctx.entities
    if s.fault.entity_name not in ents:
        return False
    return same(ents[s.fault.entity_name], s.target)


def _node_steps(ty, label, has_up):
    common = dict(kind="function", setup=_setup, teardown=_teardown,
                  args={"fault": ty, "ctx": CTX, "target": Ref(Entity), "other": Ref(Entity)},
                  requires=[_is_target, lambda s: Not(same(s.target, s.other))] + ([has_up] if has_up else []))
    fn(ME, "step_down", label=label, **common, ensures=[
        ("target-is-down-from-the-activation-instant", lambda s: s.target._crashed),
        ("other-entities-unaffected", lambda s: iff(s.other._crashed, mid(s.other)._crashed))])
    fn(ME, "step_up", label=label, **common, ensures=[
        ("still-down-while-another-window-covers-the-target", lambda s: implies(s.target.g_down > 0, s.target._crashed)),
        ("back-up-once-every-window-has-ended", lambda s: implies(s.target.g_down == 0, Not(s.target._crashed))),
        ("other-entities-unaffected", lambda s: iff(s.other._crashed, mid(s.other)._crashed))])


_node_steps(CRASH, "crash", lambda s: s.fault.restart_at is not None)
_node_steps(PAUSE, "pause", None)


# ======================================================================================== A. the crash gates
# While x._crashed: no handler of x runs, no in-flight process of x advances, x emits nothing.
class SymGen:
    """the opaque user generator behind a ProcessContinuation: one send() yields a delay, a (delay, effects)
    tuple, a SimFuture, or stops with a return value; every send is logged (ghost `sends`)"""
    OUTCOMES = ["delay", "tuple-none", "tuple-event", "tuple-list", "future", "stop-none", "stop-event", "stop-list"]

    def __init__(self, term):
        self.t = term

    def send(self, v):
        c = _cx()
        c.ghost_args.setdefault("sends", []).append((self.t, v))
        kind = fresh(Int, "gen_outcome")
        k = c.choose([num(kind) == i for i in range(len(self.OUTCOMES))], site="gen.send")
        name = self.OUTCOMES[k]
        c.ghost_args["outcome"] = name
        d = fresh(Real, "delay")
        assume(d >= 0)
        if name == "delay":
            return d
        if name == "tuple-none":
            return (d, None)
        if name == "tuple-event":
            return (d, fresh(Ref(Event), "effect"))
        if name == "tuple-list":
            return (d, fresh(Seq(Ref(Event)), "effects"))
        if name == "future":
            return fresh(Ref(SimFuture), "yielded_future")
        if name == "stop-none":
            raise StopIteration(None)
        if name == "stop-event":
            raise StopIteration(fresh(Ref(Event), "returned"))
        raise StopIteration(fresh(Seq(Ref(Event)), "returned"))

    def throw(self, *a):
        raise OutOfReach("generator.throw")

    def close(self):
        pass

    def __iter__(self):
        return self

    def __next__(self):
        return self.send(None)


class _GenTy(T.Ty):
    name = "Generator"

    def sort(self):
        return z3.IntSort()

    def wrap(self, term, loc=None):
        return SymGen(term)

    def unwrap(self, v):
        if isinstance(v, SymGen):
            return v.t
        raise OutOfReach(f"{type(v).__name__} stored where a generator is declared")


GEN = _GenTy()


class _HandlerRet(T.Ty):
    """what handle_event may return: None | Event | list[Event] | a generator (process)"""
    name = "HandlerResult"

    def sort(self):
        return z3.IntSort()

    def fresh(self, base):
        c = _cx()
        kind = c.fresh(base + "_kind", z3.IntSort())
        k = c.choose([kind == i for i in range(4)], site="handler-ret")
        if k == 0:
            return None
        if k == 1:
            return Ref(Event).fresh(base + "_ev")
        if k == 2:
            return Seq(Ref(Event)).fresh(base + "_evs")
        return GEN.fresh(base + "_gen")


HANDLER_RET = _HandlerRet()
cls(ProcessContinuation, fields={"process": GEN, "_send_value": Any})
cls(SimFuture, fields={})
# opaque user code / engine parts proved elsewhere (listed in PROPERTY["assumptions"])
_H = stub_of(Entity, "handle_event", returns=HANDLER_RET, modifies="world")
_HQ = stub_of(QueuedResource, "handle_queued_event", returns=HANDLER_RET, modifies="world")
_HOOKS = stub_of(Event, "_run_completion_hooks", returns=Seq(Ref(Event)), modifies="world")
_PARK = stub_of(SimFuture, "_park", modifies="world")
_PARK.returns_none_ok = True
for _st in (_H, _HQ, _HOOKS, _PARK):
    _st.keeps = []
PROPERTY["assumptions"] += [
    "user handlers (handle_event, handle_queued_event), user generators and completion hooks are opaque: any return "
    "value of the documented shapes, any effect on the heap (world stubs; the class invariants of the objects in "
    "focus hold again afterwards); Event._run_completion_hooks and SimFuture._park are property C02 and are used "
    "through world stubs here",
    "a fault event is delivered to its once-callback by CallbackEntity.handle_event (`return self._fn(event)`); the "
    "step drivers call the stored closure directly (fire()), the CallbackEntity itself is never crashed",
]


def trace_names():
    return [r[0] for r in (G("trace") if has_G("trace") else [])]


def n_sends():
    return len(G("sends")) if has_G("sends") else 0


def _setup_gate(s):
    _setup(s)
    _TOK.append((event_mod._active_code_debugger_var, event_mod._active_code_debugger_var.set(None)))
    return []


_TOK = []


def _teardown_gate(s):
    while _TOK:
        var, tok = _TOK.pop()
        var.reset(tok)
    _teardown(s)


def _is_empty_list(r):
    return (len(r) == 0) if isinstance(r, list) else False


def _target0(s):
    """the event's target at entry (the post-state `self.target` may have been rewritten by opaque code)"""
    return s.old(s.self).target


def was_crashed(s, entity):
    """entity._crashed in the pre-state (forks the clause)"""
    return s.old(entity)._crashed


def _nothing_ran(s):
    """no handler, no generator step, no hook: and therefore nothing emitted"""
    return _is_empty_list(s.result) and trace_names() == [] and n_sends() == 0


fn(Event, "invoke", setup=_setup_gate, teardown=_teardown_gate,
   uses=[(Entity, "handle_event"), (Event, "_run_completion_hooks"), (ProcessContinuation, "invoke")],
   ensures=[
       ("crashed-target-runs-no-handler-and-emits-nothing", lambda s:
           _nothing_ran(s) if was_crashed(s, _target0(s)) else True),
       ("crashed-target-leaves-the-event-and-the-heap-untouched", lambda s:
           unchanged(s, s.self) & unchanged(s, _target0(s)) if was_crashed(s, _target0(s)) else True),
       ("live-target-handler-runs-exactly-once", lambda s:
           True if was_crashed(s, _target0(s)) else trace_names()[:1] == ["Entity.handle_event"]
           and trace_names().count("Entity.handle_event") == 1)])

_PCI = fn(ProcessContinuation, "invoke", setup=_setup_gate, teardown=_teardown_gate,
          uses=[(Event, "_run_completion_hooks"), (SimFuture, "_park")],
          ensures=[
              ("crashed-target-process-does-not-advance-and-emits-nothing", lambda s:
                  _nothing_ran(s) if was_crashed(s, _target0(s)) else True),
              ("live-target-process-advances-exactly-one-step", lambda s:
                  True if was_crashed(s, _target0(s)) else n_sends() == 1)])
# inside Event.invoke (handler returned a generator) the first step of the new process is the contract above,
# used as a world stub
_PCS = stub_of(ProcessContinuation, "invoke", returns=Seq(Ref(Event)), modifies="world")
_PCS.keeps = []

# queue-fronted targets: the fault addresses the QueuedResource; its queued work is delivered to the internal
# worker adapter, which runs the resource's handler
cls(QueuedResource, fields={})
cls(_QueuedResourceWorkerAdapter, fields={"_resource": Ref(QueuedResource)}, const=["_resource"])
fn(_QueuedResourceWorkerAdapter, "handle_event", args={"event": Ref(Event)}, setup=_setup_gate, teardown=_teardown_gate,
   uses=[(QueuedResource, "handle_queued_event")],
   ensures=[
       ("crashed-resource-runs-no-queued-work", lambda s:
           trace_names() == [] if was_crashed(s, s.old(s.self)._resource) else True),
       ("live-resource-handler-runs-exactly-once", lambda s:
           True if was_crashed(s, s.old(s.self)._resource) else trace_names() == ["QueuedResource.handle_queued_event"])])


# ======================================================================================== D. cancellation
# Cancelling a fault handle prevents the fault entirely: every event of a cancelled handle is cancelled
# (cancelled events are never delivered: C01), whether the handle was cancelled before or after start().
class AnyFault:
    """an arbitrary Fault implementation (interface stub)"""

    def generate_events(self, ctx):
        raise NotImplementedError


class _FewEvents(T.Ty):
    """a Python list of 0, 1 or 2 arbitrary events (every built-in fault returns 1 or 2)"""
    name = "list[Event] (len <= 2)"

    def sort(self):
        return z3.IntSort()

    def fresh(self, base):
        c = _cx()
        n = c.fresh(base + "_len", z3.IntSort())
        k = c.choose([n == i for i in range(3)], site="n-events")
        return [Ref(Event).fresh(f"{base}_{i}") for i in range(k)]


cls(AnyFault, fields={})
stub_of(AnyFault, "generate_events", returns=_FewEvents(), modifies=[])
cls(FaultHandle, fields={"fault": Ref(AnyFault), "_events": Seq(Ref(Event)), "_cancelled": Bool},
    inv=[("cancelled-handle-has-no-live-event", lambda o: implies(o._cancelled, all_cancelled(o._events)))])
cls(_MutableFaultStats, fields={"faults_scheduled": Int, "faults_activated": Int, "faults_deactivated": Int,
                                "faults_cancelled": Int})
cls(FaultSchedule, fields={"_faults": Seq(Ref(AnyFault)), "_handles": Seq(Ref(FaultHandle)),
                           "_stats": Ref(_MutableFaultStats)},
    inv=[("one-handle-per-fault", lambda o: slen(o._faults) == slen(o._handles))])

fn(FaultHandle, "cancel", ensures=[
    ("handle-cancelled", lambda s: s.self._cancelled),
    ("every-event-of-the-fault-cancelled", lambda s: all_cancelled(s.self._events)),
    ("events-kept", lambda s: unchanged(s, s.self, "_events", "fault"))])

fn(FaultSchedule, "add", args={"fault": Ref(AnyFault)}, ensures=[
    ("returns-a-live-handle-for-the-fault", lambda s: Not(s.result._cancelled) & same(s.result.fault, s.fault)
        & (slen(s.result._events) == 0)),
    ("registered-last", lambda s: mk_bool(seq_term(s.self._faults) == z3.Concat(seq_term(s.old(s.self)._faults), z3.Unit(s.fault._ref)))
        & mk_bool(seq_term(s.self._handles) == z3.Concat(seq_term(s.old(s.self)._handles), z3.Unit(s.result._ref))))])

stub_of(FaultSchedule, "_build_context", returns=CTX, modifies=[])
PROPERTY["assumptions"] += [
    "Fault.generate_events of an arbitrary fault returns a list of 0..2 arbitrary events (every built-in fault returns "
    "1 or 2) and FaultSchedule._build_context an arbitrary context (interface stubs); FaultSchedule.start is verified "
    "for schedules of 1 and 2 faults (the zip loop runs natively on concrete lengths; its body does not depend on "
    "the number of faults or events)",
]


def _sched_setup(n):
    def setup(s):
        _setup(s)
        fs = [fresh(Ref(AnyFault), f"f{i}") for i in range(n)]
        hs = [fresh(Ref(FaultHandle), f"h{i}") for i in range(n)]
        for i in range(n):
            for j in range(i + 1, n):
                assume(Not(same(hs[i], hs[j])))
        s.self._faults = fs
        s.self._handles = hs
        _cx().ghost_args["handles"] = hs
        return hs
    return setup


def _start_post_cancelled(s):
    ok = True
    for h in G("handles"):
        ok = ok & implies(h._cancelled, all_cancelled(h._events))
    return ok


def _start_post_all_returned(s):
    t = None
    for h in G("handles"):
        t = seq_term(h._events) if t is None else z3.Concat(t, seq_term(h._events))
    return mk_bool(Seq(Ref(Event)).unwrap(s.result) == t)


for _n in (1, 2):
    fn(FaultSchedule, "start", label=f"{_n}-faults", args={"start_time": TIME, "sim": Any}, setup=_sched_setup(_n),
       teardown=_teardown, uses=[(AnyFault, "generate_events"), (FaultSchedule, "_build_context")],
       ensures=[
           ("a-handle-cancelled-before-start-still-prevents-its-fault", _start_post_cancelled),
           ("every-generated-event-is-handed-to-the-scheduler-in-order", _start_post_all_returned),
           ("cancellation-flags-kept", lambda s: sym_and(*[iff(h._cancelled, s.old(h)._cancelled) for h in G("handles")]))])


# ======================================================================================== C. link faults
# ghost per link: g_base_latency / g_base_loss = the configured values; g_lat_windows / g_loss_windows = number of
# open windows; g_lat_extra / g_loss_extra = sum of the amounts injected by the open windows.
# per latency distribution object: (g_root, g_extra) = "g_root shifted by the constant g_extra seconds".
LD = LatencyDistribution
cls(LD, fields={"_mean_latency": Real}, ghost={"g_root": Ref(LD), "g_extra": Real}, const=["_mean_latency"])
cls(ConstantLatency, fields={})
cls(_CompoundLatency, fields={"_base": Ref(LD), "_extra": Ref(LD)}, const=["_base", "_extra"])
# Representation of the repaired tree: the link carries its configured latency / loss rate and the extras / rates of
# the open windows (set by the fault closures; a link no fault touched yet has none: modelled as empty lists).
_LAT_REPR = "_fault_latency_extras" in _src(F_NET)
_LOSS_REPR = "_fault_loss_rates" in _src(F_NET)


def few_terms(o, field):
    """(length term, element terms) of a `Few` field, read without forking on the length"""
    ty = REG.field(o._cls, field)[1]
    t = field_term(o, field)
    return ty._tup.acc(0)(t), [ty._tup.acc(i + 1)(t) for i in range(ty.maxlen)]


def _zsum(n, terms):
    """sum of the first n of `terms`"""
    return z3.Sum([z3.If(n > i, t, z3.RealVal(0)) for i, t in enumerate(terms)])


def _lat_repr(o):
    """the link's list holds exactly the (pairwise distinct) extras of the open latency windows, over the
    configured latency"""
    n, xs = few_terms(o, "_fault_latency_extras")
    means = [field_term(ObjProxy(x, LD, o._frozen), "_mean_latency") for x in xs]
    distinct = [z3.Implies(n > j, xs[i] != xs[j]) for i in range(len(xs)) for j in range(i + 1, len(xs))]
    return mk_bool(z3.And(n >= 0, n <= len(xs), field_term(o, "g_lat_windows") == n,
                          field_term(o, "g_lat_extra") == _zsum(n, means), *distinct,
                          z3.Implies(n > 0, field_term(o, "_fault_base_latency") == field_term(o, "g_base_latency"))))


def _loss_repr(o):
    n, xs = few_terms(o, "_fault_loss_rates")
    return mk_bool(z3.And(n >= 0, n <= len(xs), field_term(o, "g_loss_windows") == n,
                          field_term(o, "g_loss_extra") == _zsum(n, xs),
                          z3.Implies(n > 0, field_term(o, "_fault_base_loss") == field_term(o, "g_base_loss"))))


cls(NetworkLink, fields={"latency": Ref(LD), "packet_loss_rate": Real,
                         "_fault_latency_extras": Few(Ref(LD)), "_fault_base_latency": Ref(LD),
                         "_fault_loss_rates": Few(Real), "_fault_base_loss": Real},
    ghost={"g_base_latency": Ref(LD), "g_lat_extra": Real, "g_lat_windows": Int,
           "g_base_loss": Real, "g_loss_extra": Real, "g_loss_windows": Int},
    const=["g_base_latency", "g_base_loss"],
    inv=([("open-latency-windows-are-the-extras-kept-on-the-link", _lat_repr)] if _LAT_REPR else [])
    + ([("open-loss-windows-are-the-rates-kept-on-the-link", _loss_repr)] if _LOSS_REPR else [])
    + [("latency-windows-wf", lambda o: (o.g_lat_windows >= 0) & (o.g_lat_extra >= 0)
            & implies(o.g_lat_windows == 0, o.g_lat_extra == 0)),
         ("configured-latency-is-its-own-root", lambda o: same(o.g_base_latency.g_root, o.g_base_latency)
            & (o.g_base_latency.g_extra == 0)),
         ("latency-is-configured-plus-every-open-window", lambda o: same(o.latency.g_root, o.g_base_latency)
            & (o.latency.g_extra == o.g_lat_extra)),
         ("configured-latency-object-back-when-no-window-is-open", lambda o:
            implies(o.g_lat_windows == 0, same(o.latency, o.g_base_latency))),
         ("loss-windows-wf", lambda o: (o.g_loss_windows >= 0) & (o.g_loss_extra >= 0) & (0 <= o.g_base_loss)
            & (o.g_base_loss <= 1) & implies(o.g_loss_windows == 0, o.g_loss_extra == 0)),
         ("loss-is-configured-plus-every-open-window-capped-at-1", lambda o:
            o.packet_loss_rate == rmin(1, o.g_base_loss + o.g_loss_extra))])
ENV_KEYS += [("NetworkLink", "_fault_latency_extras"), ("NetworkLink", "_fault_base_latency"),
             ("NetworkLink", "_fault_loss_rates"), ("NetworkLink", "_fault_base_loss")]
cls(Network, fields={"default_link": OptRef(NetworkLink), "_routes": Map(Tuple(Str, Str), Ref(NetworkLink))},
    const=["default_link", "_routes"])
cls(FaultContext, fields={"networks": Map(Str, Ref(Network), ordered=True)}, const=["networks"])
PROPERTY["assumptions"] += [
    "only fault closures write NetworkLink.latency / packet_loss_rate after configuration; injected amounts "
    "(extra_ms, loss_rate) are non-negative; the route table is not changed while faults are scheduled",
    "overlapping latency (loss) windows add up: latency = configured + sum of the extras of the open windows, "
    "loss = min(1, configured + sum of the open windows' rates) - for one window this is what the code documents",
]


def rmin(a, b):
    return ite(a <= b, a, b)


LDUR = stub_of(LD, "get_latency", returns=DURATION, modifies=[], ensures=[])
fn(_CompoundLatency, "get_latency", args={"current_time": TIME}, uses=[(LD, "get_latency")], ensures=[
    ("sum-of-base-and-extra-sample", lambda s: [r for r in G("trace")].__len__() == 2
        and ns(s.result) == ns(G("trace")[0][2]) + ns(G("trace")[1][2])),
    ("base-sampled-then-extra", lambda s: same(G("trace")[0][1]["self"], s.self._base)
        & same(G("trace")[1][1]["self"], s.self._extra))])

LAT = valueclass("InjectLatency", [InjectLatency], [("source_name", Str), ("dest_name", Str), ("extra_ms", Real),
                                                     ("start", Real), ("end", Real), ("network_name", Opt(Str))])
LOSS = valueclass("InjectPacketLoss", [InjectPacketLoss], [("source_name", Str), ("dest_name", Str), ("loss_rate", Real),
                                                            ("start", Real), ("end", Real), ("network_name", Opt(Str))])


def _link_of(fault, ctx):
    """the link the fault addresses, resolved by the code's own name lookup"""
    net = _network_of(fault, ctx)
    link = net.get_link(fault.source_name, fault.dest_name)
    if link is None:
        raise _NoTarget()
    adopt(link)
    assume((link.g_lat_windows == 0) & (link.g_loss_windows == 0))     # schedule start: configured state
    return link


def _network_of(fault, ctx):
    try:
        return fault._resolve_network(ctx)
    except (KeyError, ValueError, StopIteration):
        raise _NoTarget() from None


class _NoTarget(Exception):
    pass


def _own_extra_open(link, ev, is_open):
    """(repaired representation) the window's own extra distribution is on the link exactly while the window is open"""
    if _LAT_REPR:
        own = closure_var(ev, "extra_dist")
        n, xs = few_terms(link, "_fault_latency_extras")
        on_link = mk_bool(z3.Or(*[z3.And(n > i, x == own._ref) for i, x in enumerate(xs)]))
        assume(on_link if is_open else Not(on_link))


def step_latency_on(fault, ctx):
    link = _link_of(fault, ctx)
    events = fault.generate_events(ctx)
    env_step()
    assume(link.g_lat_windows < MAX_OPEN)                               # (bounded window lists)
    _own_extra_open(link, events[0], False)
    link.g_lat_windows = link.g_lat_windows + 1
    link.g_lat_extra = link.g_lat_extra + fault.extra_ms / 1000.0
    fire(events[0])
    return link


def step_latency_off(fault, ctx):
    link = _link_of(fault, ctx)
    events = fault.generate_events(ctx)
    env_step()
    x = fault.extra_ms / 1000.0
    assume((link.g_lat_windows >= 1) & (link.g_lat_extra >= x))        # this window is one of the open ones
    _own_extra_open(link, events[1], True)
    link.g_lat_windows = link.g_lat_windows - 1
    link.g_lat_extra = ite(link.g_lat_windows == 0, 0, link.g_lat_extra - x)
    fire(events[1])
    return link


def _own_rate_open(link, fault):
    """(repaired representation) the rate of an open window is one of the rates kept on the link"""
    if _LOSS_REPR:
        n, xs = few_terms(link, "_fault_loss_rates")
        assume(mk_bool(z3.Or(*[z3.And(n > i, x == Real.unwrap(fault.loss_rate)) for i, x in enumerate(xs)])))


def step_loss_on(fault, ctx):
    link = _link_of(fault, ctx)
    events = fault.generate_events(ctx)
    env_step()
    assume(link.g_loss_windows < MAX_OPEN)                              # (bounded window lists)
    link.g_loss_windows = link.g_loss_windows + 1
    link.g_loss_extra = link.g_loss_extra + fault.loss_rate
    fire(events[0])
    return link


def step_loss_off(fault, ctx):
    link = _link_of(fault, ctx)
    events = fault.generate_events(ctx)
    env_step()
    assume((link.g_loss_windows >= 1) & (link.g_loss_extra >= fault.loss_rate))
    _own_rate_open(link, fault)
    link.g_loss_windows = link.g_loss_windows - 1
    link.g_loss_extra = ite(link.g_loss_windows == 0, 0, link.g_loss_extra - fault.loss_rate)
    fire(events[1])
    return link


def window_latency_alone(fault, ctx):
    """one latency window from activation to deactivation with no other latency window on the link meanwhile"""
    link = _link_of(fault, ctx)
    events = fault.generate_events(ctx)
    env_step()
    assume(link.g_lat_windows == 0)
    x = fault.extra_ms / 1000.0
    link.g_lat_windows, link.g_lat_extra = 1, x
    fire(events[0])
    oblige("extra-latency-in-effect-from-the-activation-instant",
           same(link.latency.g_root, link.g_base_latency) & (link.latency.g_extra == x), kind="post")
    env_step()
    assume((link.g_lat_windows == 1) & (link.g_lat_extra == x))
    _own_extra_open(link, events[1], True)
    link.g_lat_windows, link.g_lat_extra = 0, 0
    fire(events[1])
    return link


def window_loss_alone(fault, ctx):
    link = _link_of(fault, ctx)
    events = fault.generate_events(ctx)
    env_step()
    assume(link.g_loss_windows == 0)
    link.g_loss_windows, link.g_loss_extra = 1, fault.loss_rate
    fire(events[0])
    oblige("extra-loss-in-effect-from-the-activation-instant",
           link.packet_loss_rate == rmin(1, link.g_base_loss + fault.loss_rate), kind="post")
    env_step()
    assume((link.g_loss_windows == 1) & (link.g_loss_extra == fault.loss_rate))
    link.g_loss_windows, link.g_loss_extra = 0, 0
    fire(events[1])
    return link


# (_NoTarget: the fault names no network / link of this context - nothing to verify on that path)
_NOLINK = {_NoTarget: [("no-target-resolved", lambda s: True)]}
for _name, _ty, _req in (("window_latency_alone", LAT, lambda s: s.fault.extra_ms >= 0),
                         ("window_loss_alone", LOSS, lambda s: s.fault.loss_rate >= 0),
                         ("step_latency_on", LAT, lambda s: s.fault.extra_ms >= 0),
                         ("step_latency_off", LAT, lambda s: s.fault.extra_ms >= 0),
                         ("step_loss_on", LOSS, lambda s: s.fault.loss_rate >= 0),
                         ("step_loss_off", LOSS, lambda s: s.fault.loss_rate >= 0)):
    fn(ME, _name, kind="function", setup=_setup, teardown=_teardown, args={"fault": _ty, "ctx": CTX},
       requires=[_req], raises=_NOLINK,
       ensures=[
           ("every-open-latency-window-in-effect-whatever-overlaps", lambda s:
               same(s.result.latency.g_root, s.result.g_base_latency) & (s.result.latency.g_extra == s.result.g_lat_extra)),
           ("configured-latency-back-once-every-window-has-ended", lambda s:
               implies(s.result.g_lat_windows == 0, same(s.result.latency, s.result.g_base_latency))),
           ("every-open-loss-window-in-effect-whatever-overlaps", lambda s:
               s.result.packet_loss_rate == rmin(1, s.result.g_base_loss + s.result.g_loss_extra)),
           ("configured-loss-back-once-every-window-has-ended", lambda s:
               implies(s.result.g_loss_windows == 0, s.result.packet_loss_rate == s.result.g_base_loss))])


# ======================================================================================== E. capacity faults
# ghost per resource: g_base_capacity = configured capacity; g_cap_windows = open ReduceCapacity windows;
# g_cap_factor = product of their factors; g_held = amount held by unreleased grants (C09's ghost).
_CAP_REPR = "_fault_capacity_factors" in _src("happysimulator/faults/resource_faults.py")   # (repaired tree)


def _cap_repr(o):
    """the resource's list holds exactly the factors of the open capacity windows, over the configured capacity"""
    n, xs = few_terms(o, "_fault_capacity_factors")
    prod = z3.RealVal(1)
    for i, x in enumerate(xs):
        prod = z3.If(n > i, prod * x, prod)
    return mk_bool(z3.And(n >= 0, n <= len(xs), field_term(o, "g_cap_windows") == n,
                          field_term(o, "g_cap_factor") == prod, *[z3.Implies(n > i, x > 0) for i, x in enumerate(xs)],
                          z3.Implies(n > 0, field_term(o, "_fault_base_capacity") == field_term(o, "g_base_capacity"))))


# admission: the code admits `amount` iff amount <= _available.  The repaired accounting is exact,
# _available + held == _capacity at all times: _available is negative while grants issued before a window
# opened exceed the reduced capacity, hence nothing is admitted until enough has been released.  (The model of the
# unrepaired tree had `_available == max(0, _capacity - held)`; the clamp made the accounting of the grants held at
# activation impossible - it is corrected here to the exact equation, which is stronger at every state.)
cls(Resource, fields={"_capacity": Real, "_available": Real,
                      "_fault_capacity_factors": Few(Real), "_fault_base_capacity": Real},
    ghost={"g_base_capacity": Real, "g_cap_windows": Int, "g_cap_factor": Real, "g_held": Real},
    const=["g_base_capacity"],
    inv=([("open-capacity-windows-are-the-factors-kept-on-the-resource", _cap_repr)] if _CAP_REPR else [])
    + [("capacity-windows-wf", lambda o: (o.g_cap_windows >= 0) & (o.g_cap_factor > 0) & (o.g_base_capacity > 0)
            & (o.g_held >= 0) & implies(o.g_cap_windows == 0, o.g_cap_factor == 1)),
         ("capacity-is-configured-times-every-open-window-factor", lambda o:
            o._capacity == o.g_base_capacity * o.g_cap_factor),
         ("admission-follows-the-capacity-in-effect", lambda o:
            o._available == o._capacity - o.g_held),
         ("nothing-over-admitted-when-no-window-is-open", lambda o:
            implies(o.g_cap_windows == 0, o._available + o.g_held == o._capacity))])
ENV_KEYS += [("Resource", "_fault_capacity_factors"), ("Resource", "_fault_base_capacity")]
cls(FaultContext, fields={"resources": Map(Str, Ref(Resource))}, const=["resources"])
PROPERTY["assumptions"] += [
    "capacities and amounts are reals; ReduceCapacity factors are in (0, 1]; overlapping capacity windows multiply "
    "their factors (for one window: capacity = configured * factor, what the code documents); while a window is "
    "open grants issued earlier may exceed the reduced capacity: the accounting stays exact (available == capacity - "
    "held, negative meanwhile) and nothing is admitted until enough has been released; "
    "with no window open held <= capacity (property C09)",
    f"the repaired closures keep the open windows of one target in a list on the target; the steps are verified for "
    f"lists of at most {MAX_OPEN} windows of one kind open on one target at the same time (a bounded list type whose "
    f"loops run natively; the loop bodies do not depend on the number of open windows); a window's own entry (its extra "
    f"distribution object / rate / factor) is on the target's list exactly while the window is open",
]
CAP = valueclass("ReduceCapacity", [ReduceCapacity], [("resource_name", Str), ("factor", Real), ("start", Real),
                                                       ("end", Real)])


def rmax(a, b):
    return ite(a >= b, a, b)


def _resource_of(fault, ctx):
    if fault.resource_name not in ctx.resources:
        raise _NoTarget()
    res = adopt(ctx.resources[fault.resource_name])
    assume(res.g_cap_windows == 0)                                      # schedule start: configured state
    return res


def step_capacity_on(fault, ctx):
    res = _resource_of(fault, ctx)
    events = fault.generate_events(ctx)
    env_step()
    assume(res.g_cap_windows < MAX_OPEN)                                # (bounded window lists)
    res.g_cap_windows = res.g_cap_windows + 1
    res.g_cap_factor = res.g_cap_factor * fault.factor
    fire(events[0])
    return res


def _own_factor_open(res, fault):
    """(repaired representation) the factor of an open window is one of the factors kept on the resource"""
    if _CAP_REPR:
        n, xs = few_terms(res, "_fault_capacity_factors")
        assume(mk_bool(z3.Or(*[z3.And(n > i, x == Real.unwrap(fault.factor)) for i, x in enumerate(xs)])))


def step_capacity_off(fault, ctx):
    res = _resource_of(fault, ctx)
    events = fault.generate_events(ctx)
    env_step()
    assume(res.g_cap_windows >= 1)
    _own_factor_open(res, fault)
    res.g_cap_windows = res.g_cap_windows - 1
    res.g_cap_factor = ite(res.g_cap_windows == 0, 1, res.g_cap_factor / fault.factor)
    fire(events[1])
    return res


def window_capacity_alone(fault, ctx):
    """one capacity window, no other capacity window on the resource meanwhile, and nothing held that exceeds the
    reduced capacity (the accounting of grants issued earlier is the overlapping-holder case of the steps above)"""
    res = _resource_of(fault, ctx)
    events = fault.generate_events(ctx)
    env_step()
    assume((res.g_cap_windows == 0) & (res.g_held == 0))
    res.g_cap_windows, res.g_cap_factor = 1, fault.factor
    fire(events[0])
    oblige("reduced-capacity-in-effect-from-the-activation-instant",
           (res._capacity == res.g_base_capacity * fault.factor) & (res._available == res._capacity), kind="post")
    env_step()
    assume((res.g_cap_windows == 1) & (res.g_cap_factor == fault.factor) & (res.g_held == 0))
    res.g_cap_windows, res.g_cap_factor = 0, 1
    fire(events[1])
    return res


for _name in ("window_capacity_alone", "step_capacity_on", "step_capacity_off"):
    fn(ME, _name, kind="function", setup=_setup, teardown=_teardown, args={"fault": CAP, "ctx": CTX},
       requires=[lambda s: (s.fault.factor > 0) & (s.fault.factor <= 1)], raises=_NOLINK,
       ensures=[
           ("reduced-capacity-in-effect-while-a-window-is-open-whatever-overlaps", lambda s:
               s.result._capacity == s.result.g_base_capacity * s.result.g_cap_factor),
           ("configured-capacity-and-consistent-accounting-once-every-window-has-ended", lambda s:
               implies(s.result.g_cap_windows == 0, (s.result._capacity == s.result.g_base_capacity)
                       & (s.result._available + s.result.g_held == s.result._capacity)))])


# ======================================================================================== F. partitions
# frozenset([a, b]) of two names = the unordered pair {a, b}: modelled as the ordered tuple (min, max) (spec-local
# shim of the builtin inside components/network/network.py, as specs/C14.py does for its module)
PAIR_T = Tuple(Str, Str)


class UPair:
    __slots__ = ("t",)

    def __init__(self, t):
        self.t = t


NAMESET = z3.ArraySort(z3.StringSort(), z3.BoolSort())


def upair(a, b):
    at, bt = Str.unwrap(a), Str.unwrap(b)
    return UPair(z3.Store(z3.Store(z3.K(z3.StringSort(), z3.BoolVal(False)), at, z3.BoolVal(True)), bt, z3.BoolVal(True)))


class _UPairTy(T.Ty):
    name = "frozenset{str,str}"

    def sort(self):
        return NAMESET

    def wrap(self, term, loc=None):
        return UPair(term)

    def unwrap(self, v):
        if isinstance(v, UPair):
            return v.t
        raise OutOfReach(f"{type(v).__name__} stored where an unordered name pair is declared")


UPAIR = _UPairTy()


class _ListSet(list):
    """a set under construction whose elements are symbolic (cannot be hashed): kept as a list, converted to a
    typed symbolic set when stored"""

    def add(self, x):
        self.append(x)


_ORIG_SET = net_mod.set


def _set_shim(x=()):
    from pyvc import ctx as _c
    if _c.active() and isinstance(x, tuple) and not x:
        return _ListSet()
    return _ORIG_SET(x)


def _frozenset_shim(x=()):
    from pyvc import ctx as _c
    if isinstance(x, _ListSet):
        return x
    if isinstance(x, SymSet):
        return x.copy()
    if _c.active() and isinstance(x, list) and len(x) == 2:
        return upair(x[0], x[1])
    return frozenset(x)


net_mod.set = _set_shim
net_mod.frozenset = _frozenset_shim

PSET, DSET = Set(UPAIR), Set(PAIR_T)
PCNT, DCNT = Map(UPAIR, Int), Map(PAIR_T, Int)


def _count(m, mty, key_term):
    """number of open windows covering the key (missing = 0), raw term"""
    return z3.If(z3.Select(mty.dt.dom(m.term), key_term), z3.Select(mty.dt.val(m.term), key_term), z3.IntVal(0))


# The Network invariant "a pair / direction is blocked exactly while a partition window covers it":
#     forall p.  p in _partitioned_pairs   <=>  g_pair_windows(p) > 0      (and the same for directions)
# is used pointwise (quantifier-free): `blocked_iff_covered(net, key)` is assumed for the keys a step touches after
# every environment step and is an obligation for them afterwards; keys a step does not touch are covered by a
# frame obligation on an arbitrary other key.
def _sym_blocked(net, p, state=None):
    o = net if state is None else state(net)
    return z3.Select(PSET.dt.dom(o._partitioned_pairs.term), p)


def _dir_blocked(net, d, state=None):
    o = net if state is None else state(net)
    return z3.Select(DSET.dt.dom(o._directed_partitions.term), d)


_PART_REPR = "_open_partitions" in _src("happysimulator/components/network/network.py")      # (repaired tree)


def handles_match_windows(net, asym, key):
    """(repaired representation) the network keeps the handles of the open partitions: they are pairwise distinct and
    the number of them covering `key` is the number of open windows covering it"""
    if not _PART_REPR:
        return True
    n, hs = few_terms(net, "_open_partitions")
    fld, sty = ("directed_pairs", DSET) if asym else ("pairs", PSET)
    covers = [z3.Select(sty.dt.dom(field_term(ObjProxy(h, Partition, net._frozen), fld)), key) for h in hs]
    cnt = z3.Sum([z3.If(z3.And(n > i, cv), 1, 0) for i, cv in enumerate(covers)])
    windows = _count(net.g_dir_windows, DCNT, key) if asym else _count(net.g_pair_windows, PCNT, key)
    distinct = [z3.Implies(n > j, hs[i] != hs[j]) for i in range(len(hs)) for j in range(i + 1, len(hs))]
    return mk_bool(z3.And(n >= 0, n <= len(hs), cnt == windows, *distinct))


def blocked_iff_covered(net, asym, key):
    if asym:
        n = _count(net.g_dir_windows, DCNT, key)
        return mk_bool(z3.And(_dir_blocked(net, key) == (n > 0), n >= 0)) & handles_match_windows(net, asym, key)
    n = _count(net.g_pair_windows, PCNT, key)
    return mk_bool(z3.And(_sym_blocked(net, key) == (n > 0), n >= 0)) & handles_match_windows(net, asym, key)


cls(Network, fields={"_partitioned_pairs": PSET, "_directed_partitions": DSET, "_known_entities": Map(Str, Ref(Entity)),
                     "events_routed": Int, "events_dropped_no_route": Int, "events_dropped_partition": Int,
                     "_open_partitions": Few(Ref("Partition"))},
    ghost={"g_pair_windows": PCNT, "g_dir_windows": DCNT})
cls(Partition, fields={"pairs": PSET, "directed_pairs": DSET, "_network": Ref(Network)},
    const=["pairs", "directed_pairs", "_network"])
ENV_KEYS += [("Network", "_partitioned_pairs"), ("Network", "_directed_partitions"),
             ("Network", "g_pair_windows"), ("Network", "g_dir_windows"), ("Network", "_open_partitions")]
PROPERTY["assumptions"] += [
    "frozenset([a, b]) of two entity names is modelled as the z3 set {a, b} of strings (spec-local shim of the "
    "builtin); NetworkPartition is verified for group_a of 1..2 names and group_b of 1 name (the nested loops of "
    "Network.partition run natively on concrete lengths; their bodies do not depend on the sizes; the overlapping "
    "deactivation step uses 1 x 1 groups) and with an explicit network_name (the default-network lookup is the same "
    "code as in InjectLatency / InjectPacketLoss, which are verified with and without a name)",
    "partitions are created and healed only through fault closures while faults are scheduled (Network.partition / "
    "heal_partition called by user code are outside the window bookkeeping)",
]

fn(Network, "is_partitioned", args={"source_name": Str, "dest_name": Str}, ensures=[
    ("blocked-iff-the-pair-or-the-direction-is-partitioned", lambda s: iff(s.result, mk_bool(z3.Or(
        _sym_blocked(s.self, upair(s.source_name, s.dest_name).t),
        _dir_blocked(s.self, PAIR_T.unwrap((s.source_name, s.dest_name))))))),
    ("hence-blocked-exactly-while-a-window-covers-it", lambda s: implies(
        blocked_iff_covered(s.self, False, upair(s.source_name, s.dest_name).t)
        & blocked_iff_covered(s.self, True, PAIR_T.unwrap((s.source_name, s.dest_name))),
        iff(s.result, mk_bool(z3.Or(
            _count(s.self.g_pair_windows, PCNT, upair(s.source_name, s.dest_name).t) > 0,
            _count(s.self.g_dir_windows, DCNT, PAIR_T.unwrap((s.source_name, s.dest_name))) > 0))))),
    ("symmetric-pairs-block-both-directions", lambda s: implies(
        contains(s.self._partitioned_pairs, upair(s.dest_name, s.source_name)), s.result)),
    ("pure", lambda s: unchanged(s, s.self))])

fn(Network, "heal_partition", inv=False, ensures=[
    ("nothing-blocked-afterwards", lambda s: s_is_empty(PSET.dt.dom(s.self._partitioned_pairs.term))
        & s_is_empty(DSET.dt.dom(s.self._directed_partitions.term)))])

fn(Partition, "is_active", ensures=[
    ("active-iff-one-of-its-pairs-is-still-blocked", lambda s: iff(s.result, Not(
        s_disjoint(PSET.dt.dom(s.self.pairs.term), PSET.dt.dom(s.self._network._partitioned_pairs.term))
        & s_disjoint(DSET.dt.dom(s.self.directed_pairs.term), DSET.dt.dom(s.self._network._directed_partitions.term))))),
    ("pure", lambda s: unchanged(s, s.self._network))])


class _FewNames(T.Ty):
    """a Python list of 1..maxlen (<= 2) arbitrary names"""
    _T3 = Tuple(Int, Str, Str)

    def __init__(self, maxlen):
        self.maxlen = maxlen
        self.name = f"list[str] (len 1..{maxlen})"

    def sort(self):
        return self._T3.dt

    def wrap(self, term, loc=None):
        c = _cx()
        n = self._T3.acc(0)(term)
        opts = [n == i + 1 for i in range(self.maxlen)]
        c.assume(z3.Or(*opts))
        k = c.choose(opts, site="n-names") if self.maxlen > 1 else 0
        return [Str.wrap(self._T3.acc(i + 1)(term)) for i in range(k + 1)]

    def unwrap(self, v):
        xs = [Str.unwrap(x) for x in v] + [z3.StringVal("")] * (2 - len(v))
        return self._T3.dt.mk(z3.IntVal(len(v)), *xs)


PART = valueclass("NetworkPartition", [NetworkPartition], [
    ("group_a", _FewNames(2)), ("group_b", _FewNames(1)), ("start", Real), ("end", Real), ("asymmetric", Bool),
    ("network_name", Opt(Str))])


def _covered(fault, ctx):
    """the (source, destination) name pairs a NetworkPartition window covers"""
    for n in list(fault.group_a) + list(fault.group_b):
        if n not in ctx.entities:
            raise _NoTarget()
    asym = bool(fault.asymmetric)           # (forks once)
    keys = []
    for a in fault.group_a:
        for b in fault.group_b:
            na, nb = ctx.entities[a].name, ctx.entities[b].name
            keys.append(PAIR_T.unwrap((na, nb)) if asym else upair(na, nb).t)
    return asym, keys


def _bump(net, asym, keys, d):
    """ghost: the window over `keys` opens (d = +1) / closes (d = -1)"""
    m = net.g_dir_windows if asym else net.g_pair_windows
    mty = DCNT if asym else PCNT
    for i, k in enumerate(keys):
        kk = mty.key.wrap(k)
        # (one window covers a pair once, also when two names of a group denote the same pair)
        m[kk] = m.get(kk, 0) + (ite(mk_bool(z3.Or(*[k == keys[j] for j in range(i)])), 0, d) if i else d)


def _env_partition(net, asym, keys, other):
    """environment step; afterwards the Network invariant holds at the keys of this window and at `other`"""
    env_step()
    for k in keys + [other]:
        assume(blocked_iff_covered(net, asym, k))


def _part_begin(fault, ctx):
    net = _network_of(fault, ctx)
    _covered(fault, ctx)                        # (raises _NoTarget when a name is unknown)
    events = fault.generate_events(ctx)
    asym, keys = _covered(fault, ctx)           # (names read in the state the closures will read them in)
    other = _cx().fresh("other_key", DSET.elem.sort() if asym else NAMESET)     # an arbitrary pair / direction
    _cx().ghost_args.update(asym=asym, keys=keys, other=other, net=net)
    return net, events, asym, keys, other


def step_partition_on(fault, ctx):
    net, events, asym, keys, other = _part_begin(fault, ctx)
    _env_partition(net, asym, keys, other)
    _room_for_a_handle(net)
    _bump(net, asym, keys, +1)
    fire(events[0])
    return net


def _room_for_a_handle(net):
    if _PART_REPR:                      # (bounded window lists; the handles kept are existing objects: heap typing)
        n, hs = few_terms(net, "_open_partitions")
        alloc = _cx().heap.alloc
        assume(mk_bool(z3.And(n < MAX_OPEN, *[z3.Implies(n > i, z3.And(h >= 1, h <= alloc)) for i, h in enumerate(hs)])))


def _own_handle_open(net, ev):
    """(repaired representation) the handle of an open window is one of the handles the network keeps"""
    if _PART_REPR:
        own = closure_var(ev, "partition_handle")
        n, hs = few_terms(net, "_open_partitions")
        assume(mk_bool(z3.Or(*[z3.And(n > i, h == own._ref) for i, h in enumerate(hs)])))


def step_partition_off(fault, ctx, alone):
    net, events, asym, keys, other = _part_begin(fault, ctx)
    _env_partition(net, asym, keys, other)
    if _PART_REPR:      # (the activation only creates the handle here - step_partition_on is its verification - and the
        # handle does not depend on the handles already kept; everything a fault controls is arbitrary again below)
        assume(mk_bool(few_terms(net, "_open_partitions")[0] == 0))
    _bump(net, asym, keys, +1)
    fire(events[0])                     # (the deactivation closure heals the handle the activation created)
    _env_partition(net, asym, keys, other)      # other partition windows open and close while this one is open
    _own_handle_open(net, events[1])
    for k in keys:                      # this window is still open
        assume(mk_bool(_count(net.g_dir_windows if asym else net.g_pair_windows, DCNT if asym else PCNT, k) >= 1))
    _bump(net, asym, keys, -1)
    if alone:                           # no other window covers a pair of this one
        for k in keys:
            assume(mk_bool(_count(net.g_dir_windows if asym else net.g_pair_windows, DCNT if asym else PCNT, k) == 0))
    fire(events[1])
    return net


def _inv_at_own_keys(s):
    return sym_and(*[blocked_iff_covered(G("net"), G("asym"), k) for k in G("keys")])


def _frame_other_key(s):
    """an arbitrary pair / direction that is not one of the window's is blocked iff it was before the closure ran"""
    net, asym, o = G("net"), G("asym"), G("other")
    blocked = _dir_blocked if asym else _sym_blocked
    is_own = z3.Or(*[o == k for k in G("keys")])
    return mk_bool(z3.Or(is_own, blocked(net, o) == blocked(net, o, mid))) & handles_match_windows(net, asym, o)


_PART_COMMON = dict(kind="function", setup=_setup, teardown=_teardown, raises=_NOLINK)
_NAMED_NET = lambda s: s.fault.network_name is not None     # noqa: E731  (the default-network lookup is exercised by part C)
fn(ME, "step_partition_on", **_PART_COMMON, args={"fault": PART, "ctx": CTX}, requires=[_NAMED_NET], ensures=[
    ("every-covered-pair-blocked-from-the-activation-instant", lambda s: sym_and(*[mk_bool(
        (_dir_blocked if G("asym") else _sym_blocked)(G("net"), k)) for k in G("keys")])),
    ("blocked-exactly-while-covered-at-the-pairs-of-the-window", _inv_at_own_keys),
    ("pairs-outside-the-window-unaffected", _frame_other_key)])
fn(ME, "step_partition_off", label="alone", **_PART_COMMON, args={"fault": PART, "ctx": CTX, "alone": Bool},
   requires=[_NAMED_NET, lambda s: s.alone], ensures=[
    ("pairs-unblocked-once-the-only-covering-window-has-ended", lambda s: sym_and(*[Not(mk_bool(
        (_dir_blocked if G("asym") else _sym_blocked)(G("net"), k))) for k in G("keys")])),
    ("blocked-exactly-while-covered-at-the-pairs-of-the-window", _inv_at_own_keys),
    ("pairs-outside-the-window-unaffected", _frame_other_key)])
PART1 = valueclass("NetworkPartition_1x1", [NetworkPartition], [
    ("group_a", _FewNames(1)), ("group_b", _FewNames(1)), ("start", Real), ("end", Real), ("asymmetric", Bool),
    ("network_name", Opt(Str))])
fn(ME, "step_partition_off", label="overlapping", **_PART_COMMON, args={"fault": PART1, "ctx": CTX, "alone": Bool},
   requires=[_NAMED_NET, lambda s: Not(s.alone)], ensures=[
    ("pairs-another-open-window-still-covers-stay-blocked", _inv_at_own_keys),
    ("pairs-outside-the-window-unaffected", _frame_other_key)])

# ---- bounded stand-in (labelled bounded, never counted as proved): the step proofs above are per closure and assume the
# bookkeeping entries of different windows are distinct objects (at most 3 of a kind); whole schedules - nested, identical
# and EQUAL-amount windows included, where object sharing between faults would show - are run natively and probed
# between all window boundaries
PROPERTY.setdefault("bounded", []).append(
    {"name": "overlapping-fault-windows-end-to-end",
     "bound": "120 (quick) / 3000 (thorough) seeded schedules of 1-4 latency / loss / capacity windows on one target, incl. "
              "identical twins and equal amounts, capacity with and without a grant held at activation; probes +-0.25 s "
              "around every window boundary",
     "fn": lambda seed, tier: run_native_script("triage/c06_windows.py", 120 if tier == "quick" else 3000, seed)})
# the crash gate of ProcessContinuation.invoke is proved for the continuation's TARGET; for a queue-fronted resource
# that target is the internal worker adapter, which has to mirror the resource's flag - run end to end
PROPERTY["bounded"].append(
    {"name": "queued-resource-process-stops-while-down",
     "bound": "60 scenarios: crash / pause windows at 5 offsets x 3 lengths around the two yields of a job (step 1 s / 2 s) of a "
              "QueuedResource; no step of the job may run inside the window",
     "fn": lambda seed, tier: run_native_script("triage/c06_queued_process.py")})

"""Typed model of `Event.context` for specs/C09.py (this check only).

specs/common.py types the context as an opaque Map(Str, Any); an opaque value never compares equal to a typed
one, so `waiting.request_id == metadata.get("request_id")` would be constant False.  The control events of the
Bulkhead and of the ConnectionPool carry their bookkeeping in context["metadata"], so here the context is a
record: `metadata` present or not, and inside it one typed slot + presence bit per key these components use.
Every other context key ("id", "created_at", tracing) is write-only for these components and not modelled.
Import after specs.common (it imports happysimulator)."""
import z3

from pyvc import ctx as _ctx
from pyvc.ctx import OutOfReach
from pyvc.heap import Box, _default_of
from pyvc.types import Ty, Int, Str, Real
from pyvc.sym import mk_bool
from specs.common import TIME

FIELDS = {"request_id": Int, "connection_id": Int, "expected_last_used": TIME,
          "_bh_request_id": Int, "_bh_name": Str, "processing_time": Real}
_BASE = "__pyvc_base__"     # pseudo key standing for "all entries of the unpacked symbolic mapping" (see keys())
_UNMODELLED = ("id", "created_at", "stack", "trace", _BASE)


def _mangle(k):
    return k.strip("_")


class _MetaCtx(Ty):
    name = "EventContext"

    def __init__(self):
        d = z3.Datatype("C09Ctx")
        fs = [("has_md", z3.BoolSort())]
        for k, ty in FIELDS.items():
            fs += [("h_" + _mangle(k), z3.BoolSort()), ("f_" + _mangle(k), ty.sort())]
        d.declare("mk", *fs)
        self.dt = d.create()

    def sort(self):
        return self.dt

    def has(self, k):
        return getattr(self.dt, "h_" + _mangle(k))

    def acc(self, k):
        return getattr(self.dt, "f_" + _mangle(k))

    def empty(self, has_md=False):
        args = [z3.BoolVal(has_md)]
        for ty in FIELDS.values():
            args += [z3.BoolVal(False), _default_of(ty.sort())]
        return self.dt.mk(*args)

    def rebuild(self, m, has_md=None, sets=None):
        sets = sets or {}
        args = [self.dt.has_md(m) if has_md is None else z3.BoolVal(has_md)]
        for k in FIELDS:
            if k in sets:
                args += [z3.BoolVal(True), sets[k]]
            else:
                args += [self.has(k)(m), self.acc(k)(m)]
        return z3.simplify(self.dt.mk(*args))

    def wrap(self, term, loc=None):
        return CtxProxy(loc if loc is not None else Box(term))

    def unwrap(self, v):
        if isinstance(v, CtxProxy):
            return v._loc.get()
        if isinstance(v, dict):
            extra = [k for k in v if k != "metadata" and k not in _UNMODELLED]
            if extra:
                raise OutOfReach(f"event context key {extra[0]!r} is not modelled in specs/c09_meta.py")
            if "metadata" in v:
                return self.of_metadata(v["metadata"])
            if _BASE in v:          # `{**event.context}` without a new 'metadata' entry
                return v[_BASE]._loc.get()
            return self.empty(False)
        raise OutOfReach(f"{type(v).__name__} stored as event context")

    def of_metadata(self, md):
        if isinstance(md, MdProxy):
            return self.rebuild(md._loc.get(), has_md=True)
        if isinstance(md, dict):
            t = self.empty(True)
            for k, x in md.items():         # in insertion order: later entries override earlier ones
                if k == _BASE:              # `{**metadata, ...}`: every entry present in the unpacked metadata
                    b = x._loc.get()
                    args = [z3.BoolVal(True)]
                    for f in FIELDS:
                        args += [z3.Or(self.has(f)(b), self.has(f)(t)), z3.If(self.has(f)(b), self.acc(f)(b), self.acc(f)(t))]
                    t = z3.simplify(self.dt.mk(*args))
                    continue
                if k not in FIELDS:
                    raise OutOfReach(f"metadata key {k!r} is not modelled in specs/c09_meta.py")
                t = self.rebuild(t, sets={k: FIELDS[k].unwrap(x)})
            return t
        raise OutOfReach(f"{type(md).__name__} stored as event metadata")

    def concretize(self, model, term):
        v = model.eval(term, model_completion=True)
        if not z3.is_true(model.eval(self.dt.has_md(v), model_completion=True)):
            return {}
        out = {}
        for k, ty in FIELDS.items():
            if z3.is_true(model.eval(self.has(k)(v), model_completion=True)):
                out[k] = ty.concretize(model, self.acc(k)(v))
        return {"metadata": out}


CTX = _MetaCtx()


class _FieldLoc:
    def __init__(self, parent, k):
        self.parent, self.k = parent, k

    def get(self):
        return CTX.acc(self.k)(self.parent.get())

    def set(self, t):
        self.parent.set(CTX.rebuild(self.parent.get(), sets={self.k: t}))


class CtxProxy:
    """Event.context: only the 'metadata' entry is modelled"""

    def __init__(self, loc):
        self._loc = loc

    def _need(self, k):
        if k != "metadata":
            raise OutOfReach(f"event context key {k!r} is not modelled in specs/c09_meta.py")

    def _has_md(self):
        return _ctx.cur().branch(CTX.dt.has_md(self._loc.get()), site="ctx:metadata")

    def get(self, k, default=None):
        self._need(k)
        return MdProxy(self._loc) if self._has_md() else default

    def __getitem__(self, k):
        if k == _BASE:
            return self.copy()
        self._need(k)
        if not self._has_md():
            raise KeyError(k)
        return MdProxy(self._loc)

    def __contains__(self, k):
        self._need(k)
        return self._has_md()

    def keys(self):             # `{**event.context, ...}`: one pseudo entry (no fork), resolved by CTX.unwrap
        return [_BASE]

    def __setitem__(self, k, v):
        if k in _UNMODELLED:
            return
        self._need(k)
        self._loc.set(CTX.of_metadata(v))

    def setdefault(self, k, v=None):
        if k in _UNMODELLED:
            return v
        self._need(k)
        if not self._has_md():
            self._loc.set(CTX.of_metadata(v if v is not None else {}))
        return MdProxy(self._loc)

    def copy(self):
        return CtxProxy(Box(self._loc.get()))

    __hash__ = None


class MdProxy:
    """context['metadata']: a dict with the literal keys of FIELDS"""

    def __init__(self, loc):
        self._loc = loc

    def _key(self, k):
        if not isinstance(k, str) or k not in FIELDS:
            raise OutOfReach(f"metadata key {k!r} is not modelled in specs/c09_meta.py")
        return k

    def _present(self, k):
        return _ctx.cur().branch(CTX.has(k)(self._loc.get()), site="md:" + k)

    def _val(self, k):
        return FIELDS[k].wrap(CTX.acc(k)(self._loc.get()), _FieldLoc(self._loc, k))

    def get(self, k, default=None):
        k = self._key(k)
        return self._val(k) if self._present(k) else default

    def __getitem__(self, k):
        if k == _BASE:
            return self.copy()
        k = self._key(k)
        if not self._present(k):
            raise KeyError(k)
        return self._val(k)

    def __contains__(self, k):
        return self._present(self._key(k))

    def keys(self):             # `{**metadata, ...}`: one pseudo entry (no fork), resolved by CTX.of_metadata
        return [_BASE]

    def __setitem__(self, k, v):
        k = self._key(k)
        self._loc.set(CTX.rebuild(self._loc.get(), sets={k: FIELDS[k].unwrap(v)}))

    def copy(self):
        return MdProxy(Box(self._loc.get()))

    __hash__ = None


# ---- clause helpers (raw terms, no fork)
def md_has(term, k):
    return mk_bool(z3.And(CTX.dt.has_md(term), CTX.has(k)(term)))


def md_val(term, k):
    return FIELDS[k].wrap(CTX.acc(k)(term))

"""C15 - durably acknowledged writes survive a crash at any point.

Part A: sync policies and the write-ahead log (sequence numbers, synced_up_to, crash, recover, truncate).
Part B: Memtable.put_sync, LSMTree.crash / recover_from_crash (replay of the surviving log), lemmas
        (replay is the latest-entry-per-key map, recovering twice == once, crash keeps the durable prefix).
Part C: LSMTree.put / delete / put_sync / _flush_memtable(_sync): log-before-memtable order and the
        truncation bound.
See DESIGN.md section 3-C15.
"""
from pyvc.spec import *
from pyvc.comp import declare_filter

F_WAL = "happysimulator/components/storage/wal.py"
F_LSM = "happysimulator/components/storage/lsm_tree.py"

# ---------------------------------------------------------------------------- comprehension / loop contracts
# WriteAheadLog.truncate:  [e for e in self._entries if e.sequence_number > up_to_sequence]
# WriteAheadLog.crash:     [e for e in self._entries if e.sequence_number <= self._synced_up_to_sequence]
declare_filter(F_WAL, "WriteAheadLog.truncate", 1)
declare_filter(F_WAL, "WriteAheadLog.crash", 1)


# LSMTree.recover_from_crash:  for entry in entries: self._memtable.put_sync(entry.key, entry.value)
# (replay of the surviving log into the memtable; helpers defined below)
loop(F_LSM, "LSMTree.recover_from_crash", 1,
     modifies=[("Memtable", "_data"), ("Memtable", "_total_writes"), ("Memtable", "_total_bytes_written")],
     inv=[("memtable-is-replay-of-the-visited-prefix", lambda L: replayed(
             L.self._memtable._data, L.old(L.self._memtable)._data, L.seq.term, L.i)),
          ("log-untouched", lambda L: mk_bool(L.self._wal._entries.term == L.old(L.self._wal)._entries.term)
              & mk_bool(L.seq.term == L.self._wal._entries.term))])

# ---------------------------------------------------------------------------- ghost statements (Part C)
# g_ret (log): sequence number the last append handed back; g_inflight (tree): sequence numbers appended to the
# log whose write has not been applied to a memtable yet (appends do NOT return in sequence order - see the
# bounded stand-in - so "highest applied" would not do); seal bound: the largest b with every issued sequence
# <= b applied (b = min(g_inflight + {next_sequence}) - 1); g_installed_bound (tree): highest seal bound of a
# memtable whose SSTable is installed; g_flushed_upto (log): every write with a sequence number <= it is contained
# in an installed SSTable (DESIGN 3-C15 `flushed_upto`) - advanced when no sealed memtable is still waiting.
ghost(F_WAL, "WriteAheadLog.append", "return seq", "self.g_ret = seq", where="before")
ghost(F_WAL, "WriteAheadLog.append_sync", "return seq", "self.g_ret = seq", where="before")
for _m in ("put", "delete"):
    ghost(F_LSM, "LSMTree." + _m, "yield from self._wal.append(", "_c15_begin(self)", where="before")
ghost(F_LSM, "LSMTree.put_sync", "self._wal.append_sync(", "_c15_begin(self)", where="before")
for _m in ("put", "put_sync", "delete"):
    ghost(F_LSM, "LSMTree." + _m, "self._total_wal_writes += 1", "_c15_applied(self)")
ghost(F_LSM, "LSMTree._flush_memtable", "self._immutable_memtables.append(old_memtable)", "_c15_sealed = _c15_seal_bound(self)")
ghost(F_LSM, "LSMTree._flush_memtable", "self._immutable_memtables.remove(old_memtable)", "_c15_installed(self, _c15_sealed)")
ghost(F_LSM, "LSMTree._flush_memtable_sync", "self._levels[0].append(sstable)", "_c15_installed(self, _c15_seal_bound(self))")

from specs.common import *  # noqa: E402,F401

from happysimulator.components.storage.wal import (SyncPolicy, SyncEveryWrite, SyncPeriodic, SyncOnBatch,  # noqa: E402
                                                    WALEntry, WriteAheadLog)
from happysimulator.components.storage.memtable import Memtable  # noqa: E402
from happysimulator.components.storage.sstable import SSTable  # noqa: E402
from happysimulator.components.storage.lsm_tree import LSMTree, CompactionStrategy  # noqa: E402
import happysimulator.components.storage.lsm_tree as _lsm_mod  # noqa: E402

# Entity._clock: a memtable created by LSMTree.crash / _flush_memtable starts detached (None) and gets the
# tree's clock by set_clock; this spec therefore types the field as nullable and states attachment as a
# precondition where the code needs the time.
cls(Entity, fields={"_clock": OptRef(Clock)})

PROPERTY = {
    "id": "C15",
    "level": "proof",
    "trusted": ["heap typing of the fields declared in specs/C15.py and specs/common.py",
                "pyvc/comp.py filtercomp: `[x for x in s if p(x)]` is the order-preserving sub-sequence of the "
                "elements satisfying p; pyvc/rt.py sorted(): a stable sort of an already ordered sequence is "
                "that sequence"],
    "assumptions": COMMON_ASSUMPTIONS + [
        "crash model: crash() / recover_from_crash() are called between runs (the crash point is the end of a run at "
        "an arbitrary event boundary); a process suspended at the crash point is not resumed afterwards, so within "
        "a run no log entry disappears except by truncate",
        "in-order SYNC completion (rely of WriteAheadLog.append and LSMTree.put/delete): while an append is waiting, no "
        "append with a larger sequence number completes its sync - the latencies of one log are constants and the "
        "scheduler is time-ordered with FIFO ties (C01); supported natively by the bounded stand-in "
        "in-order-completion-native. Without it `synced-never-goes-back` is refuted at the exit of append "
        "(`self._synced_up_to_sequence = seq` can lower the mark). Appends do NOT return in sequence order (an "
        "append that does not sync overtakes earlier ones that do) - nothing here assumes that",
        "Entity._clock is typed nullable in this spec; the functions that read the time require attachment "
        "(WriteAheadLog.append, LSMTree.put/delete: clock of tree and log not None)",
        "the log is written only through its LSMTree (every sequence number is issued by LSMTree.put/delete/put_sync): "
        "ghost g_inflight holds exactly the issued-but-not-yet-applied sequence numbers; rely clauses of "
        "_flush_memtable / put: only the issuing process removes its number from g_inflight, numbers enter it only "
        "when issued, only the flush that sealed a memtable takes it off _immutable_memtables",
        "configuration: max_levels >= 1 (precondition/rely `level-0-exists` of the flush functions)",
        "assumed contracts of callees outside this property (C14 owns them): Memtable.flush returns an SSTable and "
        "empties the memtable; SSTable.key_count/size_bytes are non-negative ints; CompactionStrategy.should_compact "
        "is pure; LSMTree._compact/_compact_sync write only _levels/_total_compactions/_sstable_bytes_written; "
        "LSMTree._flush_memtable(_sync) as used by put/delete/put_sync writes only the fields in FLUSH_MODS and keeps "
        "the log/tree invariants (those are proved for the real functions in this file)",
        "recover_from_crash: `sum(s.key_count for level in self._levels for s in level)` is replaced by an arbitrary "
        "integer (nested iteration over lists of symbolic length; the total only feeds the returned statistics)",
        "lemmas: LAST (index of the latest entry for a key in a log prefix) is characterised by induction on the "
        "prefix length; lemma last-is-latest-entry-for-key proves base and step, the lemmas that use the "
        "characterisation assume it; they restate the proved contracts over an index-based model of the logs",
        "opaque values (Any): only equality is observable; the tombstone is one such value",
    ],
}

# ============================================================================ A. sync policies
cls(SyncPolicy, fields={})
cls(SyncEveryWrite, fields={})
cls(SyncPeriodic, fields={"interval_s": Real}, const=["interval_s"], inv=[("interval-positive", lambda o: o.interval_s > 0)])
cls(SyncOnBatch, fields={"batch_size": Int}, const=["batch_size"], inv=[("batch-positive", lambda o: o.batch_size >= 1)])

fn(SyncEveryWrite, "should_sync", args={"writes_since_sync": Int, "time_since_sync_s": Real},
   ensures=[("always", lambda s: s.result is True)])
fn(SyncPeriodic, "should_sync", args={"writes_since_sync": Int, "time_since_sync_s": Real},
   ensures=[("iff-interval-elapsed", lambda s: iff(s.result, s.time_since_sync_s >= s.self.interval_s)),
            ("pure", lambda s: unchanged(s, s.self))])
fn(SyncOnBatch, "should_sync", args={"writes_since_sync": Int, "time_since_sync_s": Real},
   ensures=[("iff-batch-full", lambda s: iff(s.result, s.writes_since_sync >= s.self.batch_size)),
            ("pure", lambda s: unchanged(s, s.self))])
ctor(SyncPeriodic, args={"interval_s": Real}, ensures=[("stored", lambda s: s.self.interval_s == s.interval_s)],
     raises={ValueError: [("only-nonpositive", lambda s: s.interval_s <= 0)]})
ctor(SyncOnBatch, args={"batch_size": Int}, ensures=[("stored", lambda s: s.self.batch_size == s.batch_size)],
     raises={ValueError: [("only-below-one", lambda s: s.batch_size < 1)]})

# ============================================================================ A. write-ahead log
WE = valueclass("WALEntry", [WALEntry], [("sequence_number", Int), ("key", Str), ("value", Any), ("timestamp_s", Real)])
WLOG = Seq(WE)
POLICY = Ref(SyncPolicy, variants=[SyncEveryWrite, SyncPeriodic, SyncOnBatch])


def e_seq(t):
    return WE.dt.sequence_number(t)


def e_key(t):
    return WE.dt.key(t)


def e_val(t):
    return WE.dt.value(t)


def in_range(sq, i):
    return mk_bool(z3.And(0 <= i.t, i.t < z3.Length(sq)))


def seqs_increasing(lst):
    """strictly increasing (hence distinct) sequence numbers"""
    sq = lst.term
    return forall(Int, lambda i: forall(Int, lambda j: implies(
        mk_bool(z3.And(0 <= i.t, i.t < j.t, j.t < z3.Length(sq))), mk_bool(e_seq(sq[i.t]) < e_seq(sq[j.t]))), "j"), "i")


def seqs_between(lst, lo, hi):
    """every entry has lo <= seq < hi"""
    sq = lst.term
    return forall(Int, lambda i: implies(in_range(sq, i), mk_bool(z3.And(num(lo) <= e_seq(sq[i.t]), e_seq(sq[i.t]) < num(hi)))), "i")


def has_entry(lst, et):
    """the raw entry term `et` occurs in the log"""
    return mk_bool(z3.Contains(lst.term, z3.Unit(et)))


cls(WriteAheadLog,
    fields={"_sync_policy": POLICY, "_disk": Any, "_write_latency": Real, "_sync_latency": Real,
            "_entries": WLOG, "_next_sequence": Int, "_writes_since_sync": Int, "_last_sync_time_s": Real,
            "_synced_up_to_sequence": Int, "_total_writes": Int, "_total_bytes": Int, "_total_syncs": Int,
            "_total_sync_latency_s": Real, "_entries_recovered": Int},
    ghost={"g_ret": Int, "g_flushed_upto": Int},
    const=["_sync_policy", "_disk", "_write_latency", "_sync_latency"],
    inv=[("next-positive", lambda o: o._next_sequence >= 1),
         ("synced-is-an-issued-sequence", lambda o: (0 <= o._synced_up_to_sequence) & (o._synced_up_to_sequence < o._next_sequence)),
         ("sequences-strictly-increasing", lambda o: seqs_increasing(o._entries)),
         ("sequences-issued", lambda o: seqs_between(o._entries, 1, o._next_sequence))],
    guarantee=[("synced-never-goes-back", lambda old, new: new._synced_up_to_sequence >= old._synced_up_to_sequence),
               ("sequence-numbers-never-reused", lambda old, new: new._next_sequence >= old._next_sequence),
               ("flushed-mark-never-goes-back", lambda old, new: new.g_flushed_upto >= old.g_flushed_upto)])

# (WriteAheadLog.__init__ is not under contract: Entity.__init__ stores None in `_clock`, which specs/common.py
#  types as a non-null reference - "entities are attached to a simulation".)

fn(WriteAheadLog, "synced_up_to", ensures=[("is-the-field", lambda s: s.result == s.self._synced_up_to_sequence),
                                          ("pure", lambda s: unchanged(s, s.self))])


def _appended(s, new, old, seq):
    """new log == old log ++ [entry(seq, key, value, _)]"""
    sq, so = new._entries.term, old._entries.term
    n = z3.Length(so)
    last = sq[n]
    return mk_bool(z3.And(z3.Length(sq) == n + 1, z3.Extract(sq, 0, n) == so,
                          e_seq(last) == num(seq), e_key(last) == Str.unwrap(s.key), e_val(last) == Any.unwrap(s.value)))


fn(WriteAheadLog, "append_sync", args={"key": Str, "value": Any}, ensures=[
    ("returns-own-fresh-sequence", lambda s: s.result == s.old(s.self)._next_sequence),
    ("sequence-consumed", lambda s: s.self._next_sequence == s.old(s.self)._next_sequence + 1),
    ("entry-appended-last", lambda s: _appended(s, s.self, s.old(s.self), s.result)),
    ("not-acknowledged-as-synced", lambda s: unchanged(s, s.self, "_synced_up_to_sequence")),
    ("counts-one-unsynced-write", lambda s: s.self._writes_since_sync == s.old(s.self)._writes_since_sync + 1)])


# ---- append: one atomic segment per yield (write latency, then - if the policy says so - the sync latency)
def first_segment(s):
    return s._seg is s._old


def _my_seq(s):
    return s.old(s.self)._next_sequence


def _append_first_segment(s, y):
    if not first_segment(s):
        return True
    return _appended(s, s.self, s.old(s.self), _my_seq(s)) & (s.self._next_sequence == _my_seq(s) + 1) \
        & (s.self._synced_up_to_sequence == s.old(s.self)._synced_up_to_sequence)


def _append_later_segment_frame(s, y):
    """between its yields append neither touches the log nor acknowledges anything"""
    if first_segment(s):
        return True
    return mk_bool(s.self._entries.term == s.pre(s.self)._entries.term) & unchanged_since(s, "_synced_up_to_sequence", "_next_sequence")


def unchanged_since(s, *fields):
    """fields of self equal their value at the start of the current atomic segment"""
    p = s.pre(s.self)
    out = True
    for f in fields:
        out = out & (getattr(s.self, f) == getattr(p, f))
    return out


def _append_final(s):
    """last segment: either nothing is acknowledged, or exactly this append's sequence number is"""
    p = s.pre(s.self)
    seq = _my_seq(s)
    return (s.self._synced_up_to_sequence == p._synced_up_to_sequence) | \
        ((s.self._synced_up_to_sequence >= seq) & (s.self._synced_up_to_sequence >= p._synced_up_to_sequence)
         & (s.self._writes_since_sync == 0))


fn(WriteAheadLog, "append", args={"key": Str, "value": Any},
   requires=[("attached-to-a-simulation", lambda s: s.self._clock is not None)],
   yields=Yields(
       at_yield=[("entry-logged-with-own-fresh-sequence-before-first-wait", _append_first_segment),
                 ("later-segments-leave-log-alone", _append_later_segment_frame),
                 ("waits-for-a-configured-latency", lambda s, y: (y == s.self._write_latency) | (y == s.self._sync_latency))],
       stable=[("Entity", "_clock")],
       rely=[lambda s, b, y: ns(s.self._clock._current_time) >= ns(b.pre(s.self._clock)._current_time),
             # in-order completion (see PROPERTY["assumptions"]): no append issued after this one has
             # completed its sync while this one is still waiting
             lambda s, b, y: s.self._synced_up_to_sequence <= _my_seq(s)]),
   ensures=[
       ("returns-own-sequence", lambda s: s.result == _my_seq(s)),
       ("log-untouched-in-last-segment", lambda s: mk_bool(s.self._entries.term == s.pre(s.self)._entries.term)),
       ("acknowledges-nothing-or-own-sequence", _append_final),
       ("sequence-counter-untouched-after-first-segment", lambda s: first_segment(s) | (s.self._next_sequence == s.pre(s.self)._next_sequence))])


# ---- recover / truncate / crash
def same_log(a, b):
    return mk_bool(a._entries.term == b._entries.term)


def occurs(sq, et, nm="oi"):
    """the raw entry term occurs in the raw sequence term (at some index)"""
    return exists(Int, lambda i: in_range(sq, i) & mk_bool(sq[i.t] == et), nm)


def kept_only(new, old, keep):
    """every entry of the new log is an entry of the old log that satisfies keep (nothing invented)"""
    sn, so = new._entries.term, old._entries.term
    return forall(Int, lambda j: implies(in_range(sn, j), occurs(so, sn[j.t]) & mk_bool(keep(e_seq(sn[j.t])))), "kj")


def kept_all(new, old, keep):
    """every entry of the old log that satisfies keep is still in the new log (nothing durable lost)"""
    sn, so = new._entries.term, old._entries.term
    return forall(Int, lambda i: implies(in_range(so, i) & mk_bool(keep(e_seq(so[i.t]))), occurs(sn, so[i.t])), "ki")


def kept_clauses(keep_of):
    """`new` is the order-preserving sub-log of `old` holding exactly the entries with keep(seq); order:
    sequence numbers are distinct and the new log is increasing again (class invariant at exit)"""
    return [("keeps-only-old-entries-that-qualify", lambda s: kept_only(s.self, s.old(s.self), keep_of(s))),
            ("keeps-every-old-entry-that-qualifies", lambda s: kept_all(s.self, s.old(s.self), keep_of(s))),
            ("never-grows", lambda s: slen(s.self._entries) <= slen(s.old(s.self)._entries))]


fn(WriteAheadLog, "recover", ensures=[
    # the surviving entries in sequence order; the log itself is untouched, so recovering twice
    # returns the same list as recovering once
    ("returns-the-log-in-sequence-order", lambda s: mk_bool(s.result.term == s.self._entries.term) & seqs_increasing(s.result)),
    ("log-untouched", lambda s: same_log(s.self, s.old(s.self))),
    ("nothing-acknowledged-or-issued", lambda s: unchanged(s, s.self, "_synced_up_to_sequence", "_next_sequence")),
    ("counts-recovered", lambda s: s.self._entries_recovered == slen(s.self._entries))])

fn(WriteAheadLog, "truncate", args={"up_to_sequence": Int}, modifies=["_entries"],
   # never drop an entry whose data is only in a memtable (DESIGN 3-C15): obligation at every call site
   requires=[("bound-only-covers-flushed-entries", lambda s: s.up_to_sequence <= s.self.g_flushed_upto)],
   ensures=[
    # exactly the entries above the bound stay
    *kept_clauses(lambda s: (lambda q, b=num(s.up_to_sequence): q > b)),
    ("still-strictly-increasing", lambda s: seqs_increasing(s.self._entries)),
    ("still-only-issued-sequences", lambda s: seqs_between(s.self._entries, 1, s.self._next_sequence)),
    ("nothing-acknowledged-or-issued", lambda s: unchanged(s, s.self, "_synced_up_to_sequence", "_next_sequence"))])

fn(WriteAheadLog, "crash", ensures=[
    # from the statement: exactly the entries whose sync had completed survive the crash
    *kept_clauses(lambda s: (lambda q, b=num(s.old(s.self)._synced_up_to_sequence): q <= b)),
    ("reports-the-number-lost", lambda s: s.result == slen(s.old(s.self)._entries) - slen(s.self._entries)),
    ("nothing-acknowledged-or-issued", lambda s: unchanged(s, s.self, "_synced_up_to_sequence", "_next_sequence")),
    ("crash-twice-is-crash-once", lambda s: forall(Int, lambda j: implies(
        in_range(s.self._entries.term, j), mk_bool(e_seq(s.self._entries.term[j.t]) <= num(s.self._synced_up_to_sequence))), "cj"))])


# ============================================================================ B. memtable, crash, recovery
DATA = Map(Str, Any)
cls(Memtable, fields={"_size_threshold": Int, "_write_latency": Real, "_read_latency": Real, "_rwlock": Any,
                      "_data": DATA, "_sequence": Int, "_total_writes": Int, "_total_reads": Int, "_total_hits": Int,
                      "_total_misses": Int, "_total_flushes": Int, "_total_bytes_written": Int},
    const=["_size_threshold", "_write_latency", "_read_latency", "_rwlock"])
cls(SSTable, fields={})
cls(CompactionStrategy, fields={})
cls(LSMTree, fields={"_compaction_strategy": Ref(CompactionStrategy), "_wal": OptRef(WriteAheadLog), "_disk": Any,
                     "_sstable_read_latency": Real, "_sstable_write_latency": Real, "_max_levels": Int,
                     "_memtable": Ref(Memtable), "_immutable_memtables": Seq(Ref(Memtable)),
                     "_levels": Seq(Seq(Ref(SSTable))), "_logical_data": DATA,
                     "_user_bytes_written": Int, "_sstable_bytes_written": Int, "_total_writes": Int, "_total_reads": Int,
                     "_total_read_hits": Int, "_total_read_misses": Int, "_total_wal_writes": Int,
                     "_total_memtable_flushes": Int, "_total_compactions": Int, "_total_sstables_checked": Int,
                     "_total_bloom_saves": Int},
    const=["_compaction_strategy", "_wal", "_disk", "_sstable_read_latency", "_sstable_write_latency", "_max_levels"])


def kterm(k):
    return k.t if hasattr(k, "t") else z3.StringVal(k)


def d_has(d, k):
    return z3.Select(d._ty.dt.dom(d.term), kterm(k))


def d_val(d, k):
    return z3.Select(d._ty.dt.val(d.term), kterm(k))


def same_entry(d1, d2, k):
    """the two maps agree at key k (presence and value)"""
    return mk_bool(z3.And(d_has(d1, k) == d_has(d2, k), z3.Implies(d_has(d1, k), d_val(d1, k) == d_val(d2, k))))


# last(es, k, i): index of the last entry for key k among es[0:i], or -1 (definition by recursion on i)
_es, _k, _i = z3.Const("c15_es", WLOG.sort()), z3.String("c15_k"), z3.Int("c15_i")
LAST = z3.RecFunction("c15_last", WLOG.sort(), z3.StringSort(), z3.IntSort(), z3.IntSort())
z3.RecAddDefinition(LAST, [_es, _k, _i], z3.If(_i <= 0, z3.IntVal(-1), z3.If(e_key(_es[_i - 1]) == _k, _i - 1, LAST(_es, _k, _i - 1))))


def replayed(data, base, es, i):
    """`data` == `base` overwritten, key by key, with the value of the latest entry for that key among es[0:i]
    (dict semantics of replaying the entries in order)"""
    it = num(i)
    return forall(Str, lambda k: mk_bool(z3.And(
        d_has(data, k) == z3.Or(d_has(base, k), LAST(es, k.t, it) >= 0),
        z3.Implies(LAST(es, k.t, it) >= 0, d_val(data, k) == e_val(es[LAST(es, k.t, it)])),
        z3.Implies(z3.And(LAST(es, k.t, it) < 0, d_has(base, k)), d_val(data, k) == d_val(base, k)))), "rk")


fn(Memtable, "put_sync", args={"key": Str, "value": Any}, ensures=[
    ("key-holds-the-value", lambda s: mk_bool(z3.And(d_has(s.self._data, s.key), d_val(s.self._data, s.key) == Any.unwrap(s.value)))),
    ("other-keys-untouched", lambda s: forall(Str, lambda k: implies(k != s.key, same_entry(s.self._data, s.old(s.self)._data, k)))),
    ("reports-full-iff-at-threshold", lambda s: iff(s.result, slen(s.self._data) >= s.self._size_threshold))])


def _sum_any(it, start=0):
    """stand-in for `sum(s.key_count for level in self._levels for s in level)` (nested iteration over lists of
    symbolic length): an arbitrary integer - the total only feeds the returned statistics dict"""
    return Int.fresh("sstable_keys")


def _patch_sum(s):
    _lsm_mod.__dict__["_c15_saved_sum"] = _lsm_mod.__dict__["sum"]
    _lsm_mod.__dict__["sum"] = _sum_any
    return []


def _unpatch_sum(s):
    if "_c15_saved_sum" in _lsm_mod.__dict__:
        _lsm_mod.__dict__["sum"] = _lsm_mod.__dict__.pop("_c15_saved_sum")


def levels_same(new, old):
    return mk_bool(new._levels.term == old._levels.term)


fn(LSMTree, "recover_from_crash", label="with-wal",
   requires=[lambda s: s.self._wal is not None],
   focus=lambda s: [s.self._wal, s.self._memtable], setup=_patch_sum, teardown=_unpatch_sum,
   ensures=[
    # recover_view: the surviving log replayed, in sequence order, over what the memtable held
    ("memtable-is-the-log-replayed-in-order", lambda s: replayed(
        s.self._memtable._data, s.old(s.self._memtable)._data, s.self._wal._entries.term, slen(s.self._wal._entries))),
    ("log-untouched", lambda s: same_log(s.self._wal, s.old(s.self._wal))
        & unchanged(s, s.self._wal, "_synced_up_to_sequence", "_next_sequence")),
    ("sstables-untouched", lambda s: levels_same(s.self, s.old(s.self))),
    ("same-memtable-object", lambda s: same(s.self._memtable, s.old(s.self)._memtable)),
    ("reports-entries-replayed", lambda s: s.result["wal_entries_replayed"] == slen(s.self._wal._entries))])

fn(LSMTree, "recover_from_crash", label="no-wal",
   requires=[lambda s: s.self._wal is None],
   focus=lambda s: [s.self._memtable], setup=_patch_sum, teardown=_unpatch_sum,
   ensures=[
    ("nothing-to-replay", lambda s: unchanged(s, s.self._memtable, "_data") & (s.result["wal_entries_replayed"] == 0)),
    ("sstables-untouched", lambda s: levels_same(s.self, s.old(s.self)))])


def d_empty(d):
    return (slen(d) == 0) & forall(Str, lambda k: mk_bool(z3.Not(d_has(d, k))), "ek")


def oldmem(s):
    """the memtable the tree had at entry, in its entry state"""
    return s.old(s.old(s.self)._memtable)


def _crash_common(s):
    return [
        # everything volatile is gone ...
        ("memtable-replaced-by-an-empty-one", lambda s: d_empty(s.self._memtable._data)
            & (s.self._memtable._size_threshold == oldmem(s)._size_threshold)),
        ("immutable-memtables-dropped", lambda s: slen(s.self._immutable_memtables) == 0),
        # ... everything on disk stays
        ("sstables-untouched", lambda s: levels_same(s.self, s.old(s.self))),
        ("reports-volatile-entries-lost", lambda s: s.result["memtable_entries_lost"] == slen(oldmem(s)._data)),
    ]


def _lsm_crash_log(s, clause):
    wal = s.self._wal
    bound = num(s.old(wal)._synced_up_to_sequence)      # read once, outside the quantifier
    return clause(wal, s.old(wal), lambda q: q <= bound)


fn(LSMTree, "crash", label="with-wal", requires=[lambda s: s.self._wal is not None],
   focus=lambda s: [s.self._wal, s.self._memtable],
   ensures=_crash_common(None) + [
    # the log keeps exactly the entries whose sync had completed (WriteAheadLog.crash runs inline)
    ("log-keeps-only-synced-entries", lambda s: _lsm_crash_log(s, kept_only)),
    ("log-keeps-every-synced-entry", lambda s: _lsm_crash_log(s, kept_all)),
    ("acknowledgement-mark-survives", lambda s: unchanged(s, s.self._wal, "_synced_up_to_sequence", "_next_sequence")),
    ("reports-log-entries-lost", lambda s: s.result["wal_entries_lost"] == slen(s.old(s.self._wal)._entries) - slen(s.self._wal._entries))])

fn(LSMTree, "crash", label="no-wal", requires=[lambda s: s.self._wal is None],
   focus=lambda s: [s.self._memtable],
   ensures=_crash_common(None) + [("no-log-nothing-lost-there", lambda s: s.result["wal_entries_lost"] == 0)])


# ---------------------------------------------------------------------------- lemmas: contracts ==> property
def _L_vars():
    return z3.Const("lo", WLOG.sort()), z3.Const("ln", WLOG.sort()), z3.Int("lS"), z3.String("lk")


def _inr(sq, i):
    return z3.And(0 <= i, i < z3.Length(sq))


def _last_char(sq, k, upto):
    """what LAST means (proved by induction on `upto`; lemma `last-is-latest-entry-for-key` is the step):
    either no entry of sq[0:upto] has key k and LAST is -1, or LAST is the index of the last one"""
    L = LAST(sq, k, upto)
    j = z3.Int("lc_j")
    return z3.Or(
        z3.And(L == -1, z3.ForAll([j], z3.Implies(z3.And(0 <= j, j < upto), e_key(sq[j]) != k))),
        z3.And(0 <= L, L < upto, e_key(sq[L]) == k,
               z3.ForAll([j], z3.Implies(z3.And(L < j, j < upto), e_key(sq[j]) != k))))


def _lemma_last_step():
    sq, _, _, k = _L_vars()
    i = z3.Int("li")
    assume(z3.And(0 <= i, i < z3.Length(sq)))
    oblige("base", _last_char(sq, k, z3.IntVal(0)))
    assume(_last_char(sq, k, i))
    oblige("step", _last_char(sq, k, i + 1))


lemma("last-is-latest-entry-for-key", _lemma_last_step)


# The two lemmas below restate the proved contracts over an index-based model of the logs (length + entry at
# index; the existential "is an entry of" is skolemised into an index function), which keeps the solver out of
# the sequence theory.
ELOG = z3.ArraySort(z3.IntSort(), WE.sort())


def _ainr(n, i):
    return z3.And(0 <= i, i < n)


def _a_increasing(a, n):
    i, j = z3.Int("inc_i"), z3.Int("inc_j")
    return z3.ForAll([i, j], z3.Implies(z3.And(0 <= i, i < j, j < n), e_seq(a[i]) < e_seq(a[j])))


def _crash_contract(o, lo, n, ln, S, tag=""):
    """WriteAheadLog.crash as proved above: n holds exactly the entries of o with seq <= S, still increasing"""
    i, j = z3.Int("cc_i"), z3.Int("cc_j")
    src = z3.Function("cc_src" + tag, z3.IntSort(), z3.IntSort())      # where new entry j sits in o
    dst = z3.Function("cc_dst" + tag, z3.IntSort(), z3.IntSort())      # where old synced entry i sits in n
    only = z3.ForAll([j], z3.Implies(_ainr(ln, j), z3.And(_ainr(lo, src(j)), o[src(j)] == n[j], e_seq(n[j]) <= S)))
    every = z3.ForAll([i], z3.Implies(z3.And(_ainr(lo, i), e_seq(o[i]) <= S), z3.And(_ainr(ln, dst(i)), n[dst(i)] == o[i])))
    return z3.And(ln >= 0, lo >= 0, only, every, _a_increasing(n, ln))


def _latest_synced(o, lo, S, k, a):
    """o[a] is the latest write of key k whose sync had completed"""
    b = z3.Int("ls_b")
    return z3.And(_ainr(lo, a), e_key(o[a]) == k, e_seq(o[a]) <= S,
                  z3.ForAll([b], z3.Implies(z3.And(_ainr(lo, b), e_key(o[b]) == k, e_seq(o[b]) <= S), e_seq(o[b]) <= e_seq(o[a]))))


def _a_last_char(a, n, k, L):
    j = z3.Int("lc_j")
    return z3.Or(
        z3.And(L == -1, z3.ForAll([j], z3.Implies(_ainr(n, j), e_key(a[j]) != k))),
        z3.And(0 <= L, L < n, e_key(a[L]) == k, z3.ForAll([j], z3.Implies(z3.And(L < j, j < n), e_key(a[j]) != k))))


def _lemma_durable_survives():
    o, n = z3.Const("lo_a", ELOG), z3.Const("ln_a", ELOG)
    lo, ln, S, k, L = z3.Int("lo_n"), z3.Int("ln_n"), z3.Int("lS"), z3.String("lk"), z3.Int("lL")
    has, val = z3.Bool("l_has"), z3.Const("l_val", Any.sort())
    assume(_a_increasing(o, lo))                       # class invariant of the log before the crash
    assume(_crash_contract(o, lo, n, ln, S))           # WriteAheadLog.crash / LSMTree.crash
    assume(_a_last_char(n, ln, k, L))                  # L = LAST(n, k, len n)  (lemma last-is-latest-entry-for-key)
    assume(z3.And(has == (L >= 0), z3.Implies(L >= 0, val == e_val(n[L]))))    # crash (empty memtable); recover (replay)
    a = z3.Int("l_a")
    # (1) a write whose sync had completed is readable with the latest durable value of its key
    oblige("acknowledged-write-readable-with-latest-durable-value",
           z3.Implies(_latest_synced(o, lo, S, k, a), z3.And(has, val == e_val(o[a]))))
    # (2) whatever is recovered for a key is the latest synced write of that key: nothing invented, no
    #     overwritten (older) value resurrected, nothing unsynced
    src = z3.Function("cc_src", z3.IntSort(), z3.IntSort())
    oblige("recovered-value-is-the-latest-synced-write",
           z3.Implies(has, z3.And(_latest_synced(o, lo, S, k, src(L)), val == e_val(o[src(L)]))))
    # (3) a key without any synced write is not in the recovered memtable
    b = z3.Int("l_b")
    oblige("no-synced-write-no-entry",
           z3.Implies(z3.ForAll([b], z3.Implies(z3.And(_ainr(lo, b), e_key(o[b]) == k), e_seq(o[b]) > S)), z3.Not(has)))


lemma("durable-writes-survive-crash-and-recovery", _lemma_durable_survives)


def _lemma_recover_idempotent():
    # recover_from_crash twice: the second replay starts from the result of the first, over the same log
    _, n, _, k = _L_vars()
    A = z3.ArraySort(z3.StringSort(), z3.BoolSort())
    V = z3.ArraySort(z3.StringSort(), Any.sort())
    h0, h1, h2 = z3.Const("h0", A), z3.Const("h1", A), z3.Const("h2", A)
    v0, v1, v2 = z3.Const("v0", V), z3.Const("v1", V), z3.Const("v2", V)
    L = LAST(n, k, z3.Length(n))

    def rep(hb, vb, ha, va):
        return z3.And(ha[k] == z3.Or(hb[k], L >= 0), z3.Implies(L >= 0, va[k] == e_val(n[L])),
                      z3.Implies(z3.And(L < 0, hb[k]), va[k] == vb[k]))
    assume(rep(h0, v0, h1, v1))
    assume(rep(h1, v1, h2, v2))
    oblige("recovering-twice-equals-recovering-once", z3.And(h2[k] == h1[k], z3.Implies(h1[k], v2[k] == v1[k])))
    # crash twice == crash once: a log that holds only synced entries loses nothing in a second crash
    o, n2, n3 = z3.Const("lo_a", ELOG), z3.Const("ln_a", ELOG), z3.Const("ln3_a", ELOG)
    lo, l2, l3, S = z3.Int("lo_n"), z3.Int("ln_n"), z3.Int("ln3_n"), z3.Int("lS")
    assume(_crash_contract(o, lo, n2, l2, S, "1"))
    assume(_crash_contract(n2, l2, n3, l3, S, "2"))
    sk = z3.Int("ci_sk")
    dst2 = z3.Function("cc_dst2", z3.IntSort(), z3.IntSort())
    oblige("crashing-twice-loses-nothing-more",
           z3.Implies(_ainr(l2, sk), z3.And(_ainr(l3, dst2(sk)), n3[dst2(sk)] == n2[sk])))


lemma("recovery-is-idempotent", _lemma_recover_idempotent)


# ============================================================================ C. write path and flush
cls(WriteAheadLog, inv=[("flushed-mark-is-an-issued-sequence", lambda o: o.g_flushed_upto < o._next_sequence)])
cls(SSTable, fields={"_size_bytes": Int})
INFLIGHT = Set(Int)


def _inflight_inv(o):
    wal = o._wal
    if wal is None:
        return True
    nxt, bound, infl = wal._next_sequence, o.g_installed_bound, o.g_inflight      # read once, outside the quantifier
    return forall(Int, lambda q: implies(contains(infl, q), (q < nxt) & (q > bound)), "fq")


cls(LSMTree, ghost={"g_inflight": INFLIGHT, "g_installed_bound": Int},
    # (that level 0 exists - max_levels >= 1 - is a precondition/rely of the flush functions only: any constraint
    #  on the nested list `_levels` makes z3's sequence theory answer `unknown` for satisfiable queries)
    inv=[("installed-bound-is-an-issued-sequence", lambda o: True if o._wal is None else o.g_installed_bound < o._wal._next_sequence),
         ("flushed-mark-below-installed-bound", lambda o: True if o._wal is None else o._wal.g_flushed_upto <= o.g_installed_bound),
         ("in-flight-sequences-are-issued-and-not-installed", lambda o: _inflight_inv(o))],
    guarantee=[("installed-bound-never-goes-back", lambda old, new: new.g_installed_bound >= old.g_installed_bound)])


def _c15_begin(lsm):
    """ghost: the log append about to start takes the next sequence number; its write is in flight"""
    lsm.g_inflight.add(lsm._wal._next_sequence)


def _c15_applied(lsm):
    """ghost: the write whose append just returned g_ret is being applied to the active memtable"""
    lsm.g_inflight.discard(lsm._wal.g_ret)


def _c15_seal_bound(lsm):
    """ghost: b = min(g_inflight + {next_sequence}) - 1: every issued sequence <= b has been applied to the memtable
    being sealed or to an earlier one"""
    wal = lsm._wal
    if wal is None:
        return lsm.g_installed_bound
    b = Int.fresh("seal_bound")
    infl = lsm.g_inflight
    assume((b < wal._next_sequence) & (b >= lsm.g_installed_bound))
    assume(forall(Int, lambda q: implies(contains(infl, q), b < q), "sq"))
    assume((b + 1 == wal._next_sequence) | contains(infl, b + 1))
    return b


def _c15_installed(lsm, sealed):
    """ghost: the SSTable of a memtable sealed at bound `sealed` is installed; when no sealed memtable is
    still waiting, every write up to the highest installed bound is on disk"""
    lsm.g_installed_bound = ite(sealed >= lsm.g_installed_bound, sealed, lsm.g_installed_bound)
    wal = lsm._wal
    if wal is not None and slen(lsm._immutable_memtables) == 0:
        wal.g_flushed_upto = ite(lsm.g_installed_bound >= wal.g_flushed_upto, lsm.g_installed_bound, wal.g_flushed_upto)


_lsm_mod._c15_begin = _c15_begin
_lsm_mod._c15_seal_bound = _c15_seal_bound
_lsm_mod._c15_applied = _c15_applied
_lsm_mod._c15_installed = _c15_installed

# ---- assumed contracts of the callees outside this property (C14 owns the map behaviour)
stub_of(Memtable, "flush", returns=Ref(SSTable), modifies=["_data", "_sequence", "_total_flushes"],
        ensures=[lambda s: d_empty(s.self._data)])
stub_of(SSTable, "key_count", returns=Int, modifies=[], ensures=[lambda s: s.result >= 0])
stub_of(SSTable, "size_bytes", returns=Int, modifies=[], ensures=[lambda s: s.result >= 0])
stub_of(CompactionStrategy, "should_compact", args={"levels": Seq(Seq(Ref(SSTable)))}, returns=Bool, modifies=[], ensures=[])
COMPACT = stub_of(LSMTree, "_compact", modifies=["_levels", "_total_compactions", "_sstable_bytes_written"], ensures=[])
COMPACT.returns_none_ok = True
COMPACT.stub_yield = lambda s: s.self._sstable_write_latency
COMPACT_S = stub_of(LSMTree, "_compact_sync", modifies=["_levels", "_total_compactions", "_sstable_bytes_written"], ensures=[])
FLUSH_USES = [(Memtable, "flush"), (SSTable, "key_count"), (SSTable, "size_bytes"), (CompactionStrategy, "should_compact"),
              (WriteAheadLog, "truncate")]


def _sealed_still_waiting(s, b, y):
    """rely: only the flush that sealed a memtable takes it off the immutable list"""
    return mk_bool(z3.IndexOf(s.self._immutable_memtables.term, z3.Unit(s.old(s.self)._memtable._ref), 0) >= 0)


def _inflight_only_gains_fresh(s, b, y):
    """rely: a sequence number enters the in-flight set only when it is issued (LSMTree.put/delete take the log's
    next sequence number), so whatever is in flight after a wait was in flight before it or did not exist yet"""
    wal = s.self._wal
    if wal is None:
        return True
    before, nxt0, now = b.pre(s.self).g_inflight, b.pre(wal)._next_sequence, s.self.g_inflight
    return forall(Int, lambda q: implies(contains(now, q), contains(before, q) | (q >= nxt0)), "rq")


LSM_STABLE = [("Entity", "_clock"), ("Entity", "name")]

HAS_L0 = ("level-0-exists (max_levels >= 1)", lambda s: slen(s.self._levels) >= 1)

fn(LSMTree, "_flush_memtable", uses=FLUSH_USES + [(LSMTree, "_compact")], requires=[HAS_L0],
   focus=lambda s: [s.self._wal, s.self._memtable],
   yields=Yields(
       at_yield=[("log-not-truncated-before-the-sstable-is-installed", lambda s, y: True if s.self._wal is None else
                  (first_segment(s) and same_log(s.self._wal, s.old(s.self._wal))) or not first_segment(s))],
       stable=LSM_STABLE, rely=[_sealed_still_waiting, lambda s, b, y: slen(s.self._levels) >= 1, _inflight_only_gains_fresh],
       max_yields=4),
   ensures=[("log-only-loses-flushed-entries", lambda s: True if s.self._wal is None else kept_all(
       s.self._wal, s.pre(s.self._wal), lambda q, b=num(s.self._wal.g_flushed_upto): q > b))])

fn(LSMTree, "_flush_memtable_sync", uses=FLUSH_USES + [(LSMTree, "_compact_sync")], requires=[HAS_L0],
   focus=lambda s: [s.self._wal, s.self._memtable],
   ensures=[("log-only-loses-flushed-entries", lambda s: True if s.self._wal is None else kept_all(
       s.self._wal, s.old(s.self._wal), lambda q, b=num(s.self._wal.g_flushed_upto): q > b))])


# ---- put / delete / put_sync: log first, memtable second; acknowledged under sync-every-write ==> durable
def _wal_or_dummy(s):
    return s.self._wal if s.self._wal is not None else new_object(WriteAheadLog)


# what a flush may write (its last atomic segment; the wait before it is a yield of the caller's driver, where
# everything not stable is havoc'd anyway): the tree's memtable/level bookkeeping, and the log (truncation)
FLUSH_MODS = ["_memtable", "_immutable_memtables", "_levels", "_sstable_bytes_written", "_total_memtable_flushes",
              "_total_compactions", "g_installed_bound",
              (_wal_or_dummy, "_entries"), (_wal_or_dummy, "g_flushed_upto")]


def _flush_keeps_log_invariants(s):
    """proved for the real functions above (class invariants / guarantees of the log at their exit)"""
    wal = s.self._wal
    tree = (s.self.g_installed_bound >= s.old(s.self).g_installed_bound)
    if wal is None:
        return tree
    return tree & seqs_increasing(wal._entries) & seqs_between(wal._entries, 1, wal._next_sequence) \
        & (wal.g_flushed_upto >= s.old(wal).g_flushed_upto) & (wal.g_flushed_upto < wal._next_sequence) \
        & (wal.g_flushed_upto <= s.self.g_installed_bound) & (s.self.g_installed_bound < wal._next_sequence) \
        & _inflight_inv(s.self)


FLUSH = stub_of(LSMTree, "_flush_memtable", modifies=FLUSH_MODS, ensures=[_flush_keeps_log_invariants])
FLUSH.returns_none_ok = True
FLUSH.stub_yield = lambda s: s.self._sstable_write_latency
FLUSH_S = stub_of(LSMTree, "_flush_memtable_sync", modifies=FLUSH_MODS, ensures=[_flush_keeps_log_invariants])


def _wal0(s):
    """the log in the entry state"""
    return s.old(s.old(s.self)._wal)


def _logged_before_applied(s, y):
    """write-ahead: while the log append is still waiting, the memtable has not seen the write; and the entry
    (own fresh sequence number, key, value) is in the log from the first wait on"""
    wal = s.self._wal
    if wal is None or not first_segment(s):
        return True
    return _appended(s, wal, _wal0(s), _wal0(s)._next_sequence) & unchanged(s, s.old(s.self)._memtable, "_data")


def _acked_is_durable(s):
    """under sync-every-write the write is acknowledged (put returns) only after its sync completed"""
    wal = s.self._wal
    if wal is None or not isinstance(wal._sync_policy, SyncEveryWrite):
        return True
    return wal._synced_up_to_sequence >= _wal0(s)._next_sequence


def _no_longer_in_flight(s):
    """in the last segment of the log append the write left the in-flight set (it is in the active memtable)"""
    wal = s.self._wal
    if wal is None:
        return True
    return True if not first_segment(s) else Not(contains(s.self.g_inflight, _wal0(s)._next_sequence))


def _in_flight_while_logging(s, y):
    wal = s.self._wal
    if wal is None or not first_segment(s):
        return True
    return contains(s.self.g_inflight, _wal0(s)._next_sequence)


def _put_rely(s, b, y):
    """(1) only the process that put a sequence number in flight takes it out; (2) in-order SYNC completion (see
    PROPERTY["assumptions"]): while this write's log append is still waiting, no later append has completed a sync"""
    wal = s.self._wal
    if wal is None:
        return True
    mine = _wal0(s)._next_sequence
    return implies(contains(b.pre(s.self).g_inflight, mine),
                   contains(s.self.g_inflight, mine) & (wal._synced_up_to_sequence <= mine))


def _log_guarantees(s, b, y):
    """the proved two-state guarantees of WriteAheadLog, across a wait"""
    wal = s.self._wal
    if wal is None:
        return True
    w0 = b.pre(wal)
    return (wal._synced_up_to_sequence >= w0._synced_up_to_sequence) & (wal._next_sequence >= w0._next_sequence) \
        & (wal.g_flushed_upto >= w0.g_flushed_upto) & (wal._synced_up_to_sequence < wal._next_sequence)


for _name, _args in (("put", {"key": Str, "value": Any}), ("delete", {"key": Str})):
    fn(LSMTree, _name, args=_args, uses=[(LSMTree, "_flush_memtable")],
       # attached to a simulation (LSMTree.set_clock hands the clock to the log as well)
       requires=[lambda s: s.self._clock is not None,
                 lambda s: True if s.self._wal is None else s.self._wal._clock is not None],
       # the log is not a focus object here (its sequence invariants are the business of WriteAheadLog.append,
       # proved above, and would only burden every feasibility check); its two-state guarantees are restated
       # as rely clauses
       focus=lambda s: [s.self._memtable],
       yields=Yields(at_yield=([("logged-before-applied", _logged_before_applied)] if _name == "put" else [])
                     + [("in-flight-while-the-log-append-waits", _in_flight_while_logging)],
                     stable=LSM_STABLE,
                     rely=[lambda s, b, y: ns(s.self._clock._current_time) >= ns(b.pre(s.self._clock)._current_time),
                           _log_guarantees, _put_rely], max_yields=6),
       ensures=[("acknowledged-under-sync-every-write-is-durable", _acked_is_durable),
                ("applied-write-left-the-in-flight-set", _no_longer_in_flight)])

fn(LSMTree, "put_sync", args={"key": Str, "value": Any}, uses=[(LSMTree, "_flush_memtable_sync")],
   focus=lambda s: [s.self._wal, s.self._memtable],
   ensures=[("applied-write-left-the-in-flight-set", lambda s: True if s.self._wal is None else
                Not(contains(s.self.g_inflight, _wal0(s)._next_sequence))),
            ("sync-path-acknowledges-nothing", lambda s: True if s.self._wal is None else
                unchanged(s, s.self._wal, "_synced_up_to_sequence"))])


# ============================================================================ bounded native stand-ins
def _native_in_order(seed, tier):
    """Native (real scheduler, unmodified CPython, own process) check of the in-order SYNC completion assumption used
    as a rely above: random put/delete workloads with 1-4 concurrent writers, all three sync policies, small
    memtables; synced_up_to as observed after every append must never decrease.  It also records that appends do
    NOT return in sequence order (informational - nothing assumes it).  Bounded: labelled as such."""
    import json
    import subprocess
    from pyvc.ctx import REPO
    r = subprocess.run(["/venv/bin/python", "/verif/triage/c15_inorder.py", str(seed), tier], capture_output=True, text=True,
                       env={"PYTHONPATH": REPO, "PATH": "/usr/bin:/bin"}, timeout=600)
    if r.returncode != 0:
        raise RuntimeError(r.stderr[-800:])
    return json.loads(r.stdout.strip().splitlines()[-1])


PROPERTY["bounded"] = [{"name": "in-order-completion-native",
                        "bound": "60 (quick) / 600 (thorough) random workloads: 1-4 concurrent writers x <=8 put/delete, 3 sync "
                                 "policies, memtable 2-5, real scheduler, native CPython", "fn": _native_in_order}]

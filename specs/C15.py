"""C15 - durably acknowledged writes survive a crash at any point.

Part A: sync policies and the write-ahead log (sequence numbers, synced_up_to, crash, recover, truncate).
Part B: Memtable.put_sync, LSMTree.crash / recover_from_crash (replay of the surviving log), lemmas
        (replay is the latest-entry-per-key map, recovering twice == once, crash keeps the durable prefix).
Part C: LSMTree.put / delete / put_sync / _flush_memtable(_sync): log-before-memtable order and the
        truncation bound.
See DESIGN.md section 3-C15.
"""
from pyvc.spec import *
from pyvc.comp import declare_filter

F_WAL = "happysimulator/components/storage/wal.py"
F_LSM = "happysimulator/components/storage/lsm_tree.py"

# ---------------------------------------------------------------------------- comprehension / loop contracts
# WriteAheadLog.truncate:  [e for e in self._entries if e.sequence_number > up_to_sequence]
# WriteAheadLog.crash:     [e for e in self._entries if e.sequence_number <= self._synced_up_to_sequence]
declare_filter(F_WAL, "WriteAheadLog.truncate", 1)
declare_filter(F_WAL, "WriteAheadLog.crash", 1)


# LSMTree.recover_from_crash:  for entry in entries: self._memtable.put_sync(entry.key, entry.value)
# (replay of the surviving log into the memtable; helpers defined below)
loop(F_LSM, "LSMTree.recover_from_crash", 1,
     modifies=[("Memtable", "_data"), ("Memtable", "_total_writes"), ("Memtable", "_total_bytes_written")],
     inv=[("memtable-is-replay-of-the-visited-prefix", lambda L: replayed(
             L.self._memtable._data, L.old(L.self._memtable)._data, L.seq.term, L.i)),
          ("log-untouched", lambda L: mk_bool(L.self._wal._entries.term == L.old(L.self._wal)._entries.term)
              & mk_bool(L.seq.term == L.self._wal._entries.term))])

from specs.common import *  # noqa: E402,F401

from happysimulator.components.storage.wal import (SyncPolicy, SyncEveryWrite, SyncPeriodic, SyncOnBatch,  # noqa: E402
                                                    WALEntry, WriteAheadLog)
from happysimulator.components.storage.memtable import Memtable  # noqa: E402
from happysimulator.components.storage.sstable import SSTable  # noqa: E402
from happysimulator.components.storage.lsm_tree import LSMTree, CompactionStrategy  # noqa: E402
import happysimulator.components.storage.lsm_tree as _lsm_mod  # noqa: E402

# Entity._clock: a memtable created by LSMTree.crash / _flush_memtable starts detached (None) and gets the
# tree's clock by set_clock; this spec therefore types the field as nullable and states attachment as a
# precondition where the code needs the time.
cls(Entity, fields={"_clock": OptRef(Clock)})

PROPERTY = {
    "id": "C15",
    "level": "proof",
    "trusted": ["heap typing of the fields declared in specs/C15.py and specs/common.py",
                "pyvc/comp.py filtercomp: `[x for x in s if p(x)]` is the order-preserving sub-sequence of the "
                "elements satisfying p; pyvc/rt.py sorted(): a stable sort of an already ordered sequence is "
                "that sequence"],
    "assumptions": COMMON_ASSUMPTIONS + [
    ],
}

# ============================================================================ A. sync policies
cls(SyncPolicy, fields={})
cls(SyncEveryWrite, fields={})
cls(SyncPeriodic, fields={"interval_s": Real}, const=["interval_s"], inv=[("interval-positive", lambda o: o.interval_s > 0)])
cls(SyncOnBatch, fields={"batch_size": Int}, const=["batch_size"], inv=[("batch-positive", lambda o: o.batch_size >= 1)])

fn(SyncEveryWrite, "should_sync", args={"writes_since_sync": Int, "time_since_sync_s": Real},
   ensures=[("always", lambda s: s.result is True)])
fn(SyncPeriodic, "should_sync", args={"writes_since_sync": Int, "time_since_sync_s": Real},
   ensures=[("iff-interval-elapsed", lambda s: iff(s.result, s.time_since_sync_s >= s.self.interval_s)),
            ("pure", lambda s: unchanged(s, s.self))])
fn(SyncOnBatch, "should_sync", args={"writes_since_sync": Int, "time_since_sync_s": Real},
   ensures=[("iff-batch-full", lambda s: iff(s.result, s.writes_since_sync >= s.self.batch_size)),
            ("pure", lambda s: unchanged(s, s.self))])
ctor(SyncPeriodic, args={"interval_s": Real}, ensures=[("stored", lambda s: s.self.interval_s == s.interval_s)],
     raises={ValueError: [("only-nonpositive", lambda s: s.interval_s <= 0)]})
ctor(SyncOnBatch, args={"batch_size": Int}, ensures=[("stored", lambda s: s.self.batch_size == s.batch_size)],
     raises={ValueError: [("only-below-one", lambda s: s.batch_size < 1)]})

# ============================================================================ A. write-ahead log
WE = valueclass("WALEntry", [WALEntry], [("sequence_number", Int), ("key", Str), ("value", Any), ("timestamp_s", Real)])
WLOG = Seq(WE)
POLICY = Ref(SyncPolicy, variants=[SyncEveryWrite, SyncPeriodic, SyncOnBatch])


def e_seq(t):
    return WE.dt.sequence_number(t)


def e_key(t):
    return WE.dt.key(t)


def e_val(t):
    return WE.dt.value(t)


def in_range(sq, i):
    return mk_bool(z3.And(0 <= i.t, i.t < z3.Length(sq)))


def seqs_increasing(lst):
    """strictly increasing (hence distinct) sequence numbers"""
    sq = lst.term
    return forall(Int, lambda i: forall(Int, lambda j: implies(
        mk_bool(z3.And(0 <= i.t, i.t < j.t, j.t < z3.Length(sq))), mk_bool(e_seq(sq[i.t]) < e_seq(sq[j.t]))), "j"), "i")


def seqs_between(lst, lo, hi):
    """every entry has lo <= seq < hi"""
    sq = lst.term
    return forall(Int, lambda i: implies(in_range(sq, i), mk_bool(z3.And(num(lo) <= e_seq(sq[i.t]), e_seq(sq[i.t]) < num(hi)))), "i")


def has_entry(lst, et):
    """the raw entry term `et` occurs in the log"""
    return mk_bool(z3.Contains(lst.term, z3.Unit(et)))


cls(WriteAheadLog,
    fields={"_sync_policy": POLICY, "_disk": Any, "_write_latency": Real, "_sync_latency": Real,
            "_entries": WLOG, "_next_sequence": Int, "_writes_since_sync": Int, "_last_sync_time_s": Real,
            "_synced_up_to_sequence": Int, "_total_writes": Int, "_total_bytes": Int, "_total_syncs": Int,
            "_total_sync_latency_s": Real, "_entries_recovered": Int},
    const=["_sync_policy", "_disk", "_write_latency", "_sync_latency"],
    inv=[("next-positive", lambda o: o._next_sequence >= 1),
         ("synced-is-an-issued-sequence", lambda o: (0 <= o._synced_up_to_sequence) & (o._synced_up_to_sequence < o._next_sequence)),
         ("sequences-strictly-increasing", lambda o: seqs_increasing(o._entries)),
         ("sequences-issued", lambda o: seqs_between(o._entries, 1, o._next_sequence))],
    guarantee=[("synced-never-goes-back", lambda old, new: new._synced_up_to_sequence >= old._synced_up_to_sequence),
               ("sequence-numbers-never-reused", lambda old, new: new._next_sequence >= old._next_sequence)])

# (WriteAheadLog.__init__ is not under contract: Entity.__init__ stores None in `_clock`, which specs/common.py
#  types as a non-null reference - "entities are attached to a simulation".)

fn(WriteAheadLog, "synced_up_to", ensures=[("is-the-field", lambda s: s.result == s.self._synced_up_to_sequence),
                                          ("pure", lambda s: unchanged(s, s.self))])


def _appended(s, new, old, seq):
    """new log == old log ++ [entry(seq, key, value, _)]"""
    sq, so = new._entries.term, old._entries.term
    n = z3.Length(so)
    last = sq[n]
    return mk_bool(z3.And(z3.Length(sq) == n + 1, z3.Extract(sq, 0, n) == so,
                          e_seq(last) == num(seq), e_key(last) == Str.unwrap(s.key), e_val(last) == Any.unwrap(s.value)))


fn(WriteAheadLog, "append_sync", args={"key": Str, "value": Any}, ensures=[
    ("returns-own-fresh-sequence", lambda s: s.result == s.old(s.self)._next_sequence),
    ("sequence-consumed", lambda s: s.self._next_sequence == s.old(s.self)._next_sequence + 1),
    ("entry-appended-last", lambda s: _appended(s, s.self, s.old(s.self), s.result)),
    ("not-acknowledged-as-synced", lambda s: unchanged(s, s.self, "_synced_up_to_sequence")),
    ("counts-one-unsynced-write", lambda s: s.self._writes_since_sync == s.old(s.self)._writes_since_sync + 1)])


# ---- append: one atomic segment per yield (write latency, then - if the policy says so - the sync latency)
def first_segment(s):
    return s._seg is s._old


def _my_seq(s):
    return s.old(s.self)._next_sequence


def _append_first_segment(s, y):
    if not first_segment(s):
        return True
    return _appended(s, s.self, s.old(s.self), _my_seq(s)) & (s.self._next_sequence == _my_seq(s) + 1) \
        & (s.self._synced_up_to_sequence == s.old(s.self)._synced_up_to_sequence)


def _append_later_segment_frame(s, y):
    """between its yields append neither touches the log nor acknowledges anything"""
    if first_segment(s):
        return True
    return mk_bool(s.self._entries.term == s.pre(s.self)._entries.term) & unchanged_since(s, "_synced_up_to_sequence", "_next_sequence")


def unchanged_since(s, *fields):
    """fields of self equal their value at the start of the current atomic segment"""
    p = s.pre(s.self)
    out = True
    for f in fields:
        out = out & (getattr(s.self, f) == getattr(p, f))
    return out


def _append_final(s):
    """last segment: either nothing is acknowledged, or exactly this append's sequence number is"""
    p = s.pre(s.self)
    seq = _my_seq(s)
    return (s.self._synced_up_to_sequence == p._synced_up_to_sequence) | \
        ((s.self._synced_up_to_sequence >= seq) & (s.self._synced_up_to_sequence >= p._synced_up_to_sequence)
         & (s.self._writes_since_sync == 0))


fn(WriteAheadLog, "append", args={"key": Str, "value": Any},
   yields=Yields(
       at_yield=[("entry-logged-with-own-fresh-sequence-before-first-wait", _append_first_segment),
                 ("later-segments-leave-log-alone", _append_later_segment_frame),
                 ("waits-for-a-configured-latency", lambda s, y: (y == s.self._write_latency) | (y == s.self._sync_latency))],
       stable=[("Entity", "_clock")],
       rely=[lambda s, b, y: ns(s.self._clock._current_time) >= ns(b.pre(s.self._clock)._current_time),
             # in-order completion (see PROPERTY["assumptions"]): no append issued after this one has
             # completed its sync while this one is still waiting
             lambda s, b, y: s.self._synced_up_to_sequence <= _my_seq(s)]),
   ensures=[
       ("returns-own-sequence", lambda s: s.result == _my_seq(s)),
       ("log-untouched-in-last-segment", lambda s: mk_bool(s.self._entries.term == s.pre(s.self)._entries.term)),
       ("acknowledges-nothing-or-own-sequence", _append_final),
       ("sequence-counter-untouched-after-first-segment", lambda s: first_segment(s) | (s.self._next_sequence == s.pre(s.self)._next_sequence))])


# ---- recover / truncate / crash
def same_log(a, b):
    return mk_bool(a._entries.term == b._entries.term)


def occurs(sq, et, nm="oi"):
    """the raw entry term occurs in the raw sequence term (at some index)"""
    return exists(Int, lambda i: in_range(sq, i) & mk_bool(sq[i.t] == et), nm)


def kept_only(new, old, keep):
    """every entry of the new log is an entry of the old log that satisfies keep (nothing invented)"""
    sn, so = new._entries.term, old._entries.term
    return forall(Int, lambda j: implies(in_range(sn, j), occurs(so, sn[j.t]) & mk_bool(keep(e_seq(sn[j.t])))), "kj")


def kept_all(new, old, keep):
    """every entry of the old log that satisfies keep is still in the new log (nothing durable lost)"""
    sn, so = new._entries.term, old._entries.term
    return forall(Int, lambda i: implies(in_range(so, i) & mk_bool(keep(e_seq(so[i.t]))), occurs(sn, so[i.t])), "ki")


def kept_clauses(keep_of):
    """`new` is the order-preserving sub-log of `old` holding exactly the entries with keep(seq); order:
    sequence numbers are distinct and the new log is increasing again (class invariant at exit)"""
    return [("keeps-only-old-entries-that-qualify", lambda s: kept_only(s.self, s.old(s.self), keep_of(s))),
            ("keeps-every-old-entry-that-qualifies", lambda s: kept_all(s.self, s.old(s.self), keep_of(s))),
            ("never-grows", lambda s: slen(s.self._entries) <= slen(s.old(s.self)._entries))]


fn(WriteAheadLog, "recover", ensures=[
    # the surviving entries in sequence order; the log itself is untouched, so recovering twice
    # returns the same list as recovering once
    ("returns-the-log-in-sequence-order", lambda s: mk_bool(s.result.term == s.self._entries.term) & seqs_increasing(s.result)),
    ("log-untouched", lambda s: same_log(s.self, s.old(s.self))),
    ("nothing-acknowledged-or-issued", lambda s: unchanged(s, s.self, "_synced_up_to_sequence", "_next_sequence")),
    ("counts-recovered", lambda s: s.self._entries_recovered == slen(s.self._entries))])

fn(WriteAheadLog, "truncate", args={"up_to_sequence": Int}, ensures=[
    # exactly the entries above the bound stay
    *kept_clauses(lambda s: (lambda q, b=num(s.up_to_sequence): q > b)),
    ("nothing-acknowledged-or-issued", lambda s: unchanged(s, s.self, "_synced_up_to_sequence", "_next_sequence"))])

fn(WriteAheadLog, "crash", ensures=[
    # from the statement: exactly the entries whose sync had completed survive the crash
    *kept_clauses(lambda s: (lambda q, b=num(s.old(s.self)._synced_up_to_sequence): q <= b)),
    ("reports-the-number-lost", lambda s: s.result == slen(s.old(s.self)._entries) - slen(s.self._entries)),
    ("nothing-acknowledged-or-issued", lambda s: unchanged(s, s.self, "_synced_up_to_sequence", "_next_sequence")),
    ("crash-twice-is-crash-once", lambda s: forall(Int, lambda j: implies(
        in_range(s.self._entries.term, j), mk_bool(e_seq(s.self._entries.term[j.t]) <= num(s.self._synced_up_to_sequence))), "cj"))])


# ============================================================================ B. memtable, crash, recovery
DATA = Map(Str, Any)
cls(Memtable, fields={"_size_threshold": Int, "_write_latency": Real, "_read_latency": Real, "_rwlock": Any,
                      "_data": DATA, "_sequence": Int, "_total_writes": Int, "_total_reads": Int, "_total_hits": Int,
                      "_total_misses": Int, "_total_flushes": Int, "_total_bytes_written": Int},
    const=["_size_threshold", "_write_latency", "_read_latency", "_rwlock"])
cls(SSTable, fields={})
cls(CompactionStrategy, fields={})
cls(LSMTree, fields={"_compaction_strategy": Ref(CompactionStrategy), "_wal": OptRef(WriteAheadLog), "_disk": Any,
                     "_sstable_read_latency": Real, "_sstable_write_latency": Real, "_max_levels": Int,
                     "_memtable": Ref(Memtable), "_immutable_memtables": Seq(Ref(Memtable)),
                     "_levels": Seq(Seq(Ref(SSTable))), "_logical_data": DATA,
                     "_user_bytes_written": Int, "_sstable_bytes_written": Int, "_total_writes": Int, "_total_reads": Int,
                     "_total_read_hits": Int, "_total_read_misses": Int, "_total_wal_writes": Int,
                     "_total_memtable_flushes": Int, "_total_compactions": Int, "_total_sstables_checked": Int,
                     "_total_bloom_saves": Int},
    const=["_compaction_strategy", "_wal", "_disk", "_sstable_read_latency", "_sstable_write_latency", "_max_levels"])


def kterm(k):
    return k.t if hasattr(k, "t") else z3.StringVal(k)


def d_has(d, k):
    return z3.Select(d._ty.dt.dom(d.term), kterm(k))


def d_val(d, k):
    return z3.Select(d._ty.dt.val(d.term), kterm(k))


def same_entry(d1, d2, k):
    """the two maps agree at key k (presence and value)"""
    return mk_bool(z3.And(d_has(d1, k) == d_has(d2, k), z3.Implies(d_has(d1, k), d_val(d1, k) == d_val(d2, k))))


# last(es, k, i): index of the last entry for key k among es[0:i], or -1 (definition by recursion on i)
_es, _k, _i = z3.Const("c15_es", WLOG.sort()), z3.String("c15_k"), z3.Int("c15_i")
LAST = z3.RecFunction("c15_last", WLOG.sort(), z3.StringSort(), z3.IntSort(), z3.IntSort())
z3.RecAddDefinition(LAST, [_es, _k, _i], z3.If(_i <= 0, z3.IntVal(-1), z3.If(e_key(_es[_i - 1]) == _k, _i - 1, LAST(_es, _k, _i - 1))))


def replayed(data, base, es, i):
    """`data` == `base` overwritten, key by key, with the value of the latest entry for that key among es[0:i]
    (dict semantics of replaying the entries in order)"""
    it = num(i)
    return forall(Str, lambda k: mk_bool(z3.And(
        d_has(data, k) == z3.Or(d_has(base, k), LAST(es, k.t, it) >= 0),
        z3.Implies(LAST(es, k.t, it) >= 0, d_val(data, k) == e_val(es[LAST(es, k.t, it)])),
        z3.Implies(z3.And(LAST(es, k.t, it) < 0, d_has(base, k)), d_val(data, k) == d_val(base, k)))), "rk")


fn(Memtable, "put_sync", args={"key": Str, "value": Any}, ensures=[
    ("key-holds-the-value", lambda s: mk_bool(z3.And(d_has(s.self._data, s.key), d_val(s.self._data, s.key) == Any.unwrap(s.value)))),
    ("other-keys-untouched", lambda s: forall(Str, lambda k: implies(k != s.key, same_entry(s.self._data, s.old(s.self)._data, k)))),
    ("reports-full-iff-at-threshold", lambda s: iff(s.result, slen(s.self._data) >= s.self._size_threshold))])


def _sum_any(it, start=0):
    """stand-in for `sum(s.key_count for level in self._levels for s in level)` (nested iteration over lists of
    symbolic length): an arbitrary integer - the total only feeds the returned statistics dict"""
    return Int.fresh("sstable_keys")


def _patch_sum(s):
    _lsm_mod.__dict__["_c15_saved_sum"] = _lsm_mod.__dict__["sum"]
    _lsm_mod.__dict__["sum"] = _sum_any
    return []


def _unpatch_sum(s):
    if "_c15_saved_sum" in _lsm_mod.__dict__:
        _lsm_mod.__dict__["sum"] = _lsm_mod.__dict__.pop("_c15_saved_sum")


def levels_same(new, old):
    return mk_bool(new._levels.term == old._levels.term)


fn(LSMTree, "recover_from_crash", label="with-wal",
   requires=[lambda s: s.self._wal is not None],
   focus=lambda s: [s.self._wal, s.self._memtable], setup=_patch_sum, teardown=_unpatch_sum,
   ensures=[
    # recover_view: the surviving log replayed, in sequence order, over what the memtable held
    ("memtable-is-the-log-replayed-in-order", lambda s: replayed(
        s.self._memtable._data, s.old(s.self._memtable)._data, s.self._wal._entries.term, slen(s.self._wal._entries))),
    ("log-untouched", lambda s: same_log(s.self._wal, s.old(s.self._wal))
        & unchanged(s, s.self._wal, "_synced_up_to_sequence", "_next_sequence")),
    ("sstables-untouched", lambda s: levels_same(s.self, s.old(s.self))),
    ("same-memtable-object", lambda s: same(s.self._memtable, s.old(s.self)._memtable)),
    ("reports-entries-replayed", lambda s: s.result["wal_entries_replayed"] == slen(s.self._wal._entries))])

fn(LSMTree, "recover_from_crash", label="no-wal",
   requires=[lambda s: s.self._wal is None],
   focus=lambda s: [s.self._memtable], setup=_patch_sum, teardown=_unpatch_sum,
   ensures=[
    ("nothing-to-replay", lambda s: unchanged(s, s.self._memtable, "_data") & (s.result["wal_entries_replayed"] == 0)),
    ("sstables-untouched", lambda s: levels_same(s.self, s.old(s.self)))])


def d_empty(d):
    return (slen(d) == 0) & forall(Str, lambda k: mk_bool(z3.Not(d_has(d, k))), "ek")


def oldmem(s):
    """the memtable the tree had at entry, in its entry state"""
    return s.old(s.old(s.self)._memtable)


def _crash_common(s):
    return [
        # everything volatile is gone ...
        ("memtable-replaced-by-an-empty-one", lambda s: d_empty(s.self._memtable._data)
            & (s.self._memtable._size_threshold == oldmem(s)._size_threshold)),
        ("immutable-memtables-dropped", lambda s: slen(s.self._immutable_memtables) == 0),
        # ... everything on disk stays
        ("sstables-untouched", lambda s: levels_same(s.self, s.old(s.self))),
        ("reports-volatile-entries-lost", lambda s: s.result["memtable_entries_lost"] == slen(oldmem(s)._data)),
    ]


def _lsm_crash_log(s, clause):
    wal = s.self._wal
    bound = num(s.old(wal)._synced_up_to_sequence)      # read once, outside the quantifier
    return clause(wal, s.old(wal), lambda q: q <= bound)


fn(LSMTree, "crash", label="with-wal", requires=[lambda s: s.self._wal is not None],
   focus=lambda s: [s.self._wal, s.self._memtable],
   ensures=_crash_common(None) + [
    # the log keeps exactly the entries whose sync had completed (WriteAheadLog.crash runs inline)
    ("log-keeps-only-synced-entries", lambda s: _lsm_crash_log(s, kept_only)),
    ("log-keeps-every-synced-entry", lambda s: _lsm_crash_log(s, kept_all)),
    ("acknowledgement-mark-survives", lambda s: unchanged(s, s.self._wal, "_synced_up_to_sequence", "_next_sequence")),
    ("reports-log-entries-lost", lambda s: s.result["wal_entries_lost"] == slen(s.old(s.self._wal)._entries) - slen(s.self._wal._entries))])

fn(LSMTree, "crash", label="no-wal", requires=[lambda s: s.self._wal is None],
   focus=lambda s: [s.self._memtable],
   ensures=_crash_common(None) + [("no-log-nothing-lost-there", lambda s: s.result["wal_entries_lost"] == 0)])


# ---------------------------------------------------------------------------- lemmas: contracts ==> property
def _L_vars():
    return z3.Const("lo", WLOG.sort()), z3.Const("ln", WLOG.sort()), z3.Int("lS"), z3.String("lk")


def _inr(sq, i):
    return z3.And(0 <= i, i < z3.Length(sq))


def _last_char(sq, k, upto):
    """what LAST means (proved by induction on `upto`; lemma `last-is-latest-entry-for-key` is the step):
    either no entry of sq[0:upto] has key k and LAST is -1, or LAST is the index of the last one"""
    L = LAST(sq, k, upto)
    j = z3.Int("lc_j")
    return z3.Or(
        z3.And(L == -1, z3.ForAll([j], z3.Implies(z3.And(0 <= j, j < upto), e_key(sq[j]) != k))),
        z3.And(0 <= L, L < upto, e_key(sq[L]) == k,
               z3.ForAll([j], z3.Implies(z3.And(L < j, j < upto), e_key(sq[j]) != k))))


def _lemma_last_step():
    sq, _, _, k = _L_vars()
    i = z3.Int("li")
    assume(z3.And(0 <= i, i < z3.Length(sq)))
    oblige("base", _last_char(sq, k, z3.IntVal(0)))
    assume(_last_char(sq, k, i))
    oblige("step", _last_char(sq, k, i + 1))


lemma("last-is-latest-entry-for-key", _lemma_last_step)


def _increasing(sq):
    i, j = z3.Int("inc_i"), z3.Int("inc_j")
    return z3.ForAll([i, j], z3.Implies(z3.And(0 <= i, i < j, j < z3.Length(sq)), e_seq(sq[i]) < e_seq(sq[j])))


def _crash_contract(o, n, S):
    """WriteAheadLog.crash as proved above: n holds exactly the entries of o with seq <= S, still increasing"""
    i, j = z3.Int("cc_i"), z3.Int("cc_j")
    only = z3.ForAll([j], z3.Implies(_inr(n, j), z3.And(
        z3.Exists([i], z3.And(_inr(o, i), o[i] == n[j])), e_seq(n[j]) <= S)))
    every = z3.ForAll([i], z3.Implies(z3.And(_inr(o, i), e_seq(o[i]) <= S), z3.Exists([j], z3.And(_inr(n, j), n[j] == o[i]))))
    return z3.And(only, every, _increasing(n))


def _latest_synced(o, S, k, a):
    """o[a] is the latest write of key k whose sync had completed"""
    b = z3.Int("ls_b")
    return z3.And(_inr(o, a), e_key(o[a]) == k, e_seq(o[a]) <= S,
                  z3.ForAll([b], z3.Implies(z3.And(_inr(o, b), e_key(o[b]) == k, e_seq(o[b]) <= S), e_seq(o[b]) <= e_seq(o[a]))))


def _recovered(n, k, has, val):
    """LSMTree.crash (empty memtable) then recover_from_crash (replay) as proved above, at key k"""
    L = LAST(n, k, z3.Length(n))
    return z3.And(has == (L >= 0), z3.Implies(L >= 0, val == e_val(n[L])))


def _lemma_durable_survives():
    o, n, S, k = _L_vars()
    has, val = z3.Bool("l_has"), z3.Const("l_val", Any.sort())
    assume(_increasing(o))
    assume(_crash_contract(o, n, S))
    assume(_last_char(n, k, z3.Length(n)))
    assume(_recovered(n, k, has, val))
    a = z3.Int("l_a")
    # (1) a write whose sync had completed is readable with the latest durable value of its key
    oblige("acknowledged-write-readable-with-latest-durable-value",
           z3.Implies(_latest_synced(o, S, k, a), z3.And(has, val == e_val(o[a]))))
    # (2) whatever is recovered for a key is the latest synced write of that key: nothing invented, no
    #     overwritten (older) value resurrected, nothing unsynced
    w = z3.Int("l_w")
    oblige("recovered-value-is-the-latest-synced-write",
           z3.Implies(has, z3.Exists([w], z3.And(_latest_synced(o, S, k, w), val == e_val(o[w])))))
    # (3) a key without any synced write is not in the recovered memtable
    b = z3.Int("l_b")
    oblige("no-synced-write-no-entry",
           z3.Implies(z3.ForAll([b], z3.Implies(z3.And(_inr(o, b), e_key(o[b]) == k), e_seq(o[b]) > S)), z3.Not(has)))


lemma("durable-writes-survive-crash-and-recovery", _lemma_durable_survives)


def _lemma_recover_idempotent():
    # recover_from_crash twice: the second replay starts from the result of the first, over the same log
    _, n, _, k = _L_vars()
    A = z3.ArraySort(z3.StringSort(), z3.BoolSort())
    V = z3.ArraySort(z3.StringSort(), Any.sort())
    h0, h1, h2 = z3.Const("h0", A), z3.Const("h1", A), z3.Const("h2", A)
    v0, v1, v2 = z3.Const("v0", V), z3.Const("v1", V), z3.Const("v2", V)
    L = LAST(n, k, z3.Length(n))

    def rep(hb, vb, ha, va):
        return z3.And(ha[k] == z3.Or(hb[k], L >= 0), z3.Implies(L >= 0, va[k] == e_val(n[L])),
                      z3.Implies(z3.And(L < 0, hb[k]), va[k] == vb[k]))
    assume(rep(h0, v0, h1, v1))
    assume(rep(h1, v1, h2, v2))
    oblige("recovering-twice-equals-recovering-once", z3.And(h2[k] == h1[k], z3.Implies(h1[k], v2[k] == v1[k])))
    # crash twice == crash once: a log that holds only synced entries loses nothing in a second crash
    o, n2, S, _ = _L_vars()
    n3 = z3.Const("ln3", WLOG.sort())
    assume(_crash_contract(o, n2, S))
    assume(_crash_contract(n2, n3, S))
    i, j = z3.Int("ci_i"), z3.Int("ci_j")
    sk = z3.Int("ci_sk")
    oblige("crashing-twice-loses-nothing-more",
           z3.Implies(_inr(n2, sk), z3.Exists([j], z3.And(_inr(n3, j), n3[j] == n2[sk]))))


lemma("recovery-is-idempotent", _lemma_recover_idempotent)

"""C02 - generator processes and futures resume at the right instant, with the right value, once.

The user generator behind a ProcessContinuation is an opaque coroutine: one `send` returns a
number, a (delay, effects) tuple, a SimFuture, or stops with a return value (SymGen below forks
over these outcomes, every value symbolic).  Contracts on the real ProcessContinuation.invoke,
Event._run_completion_hooks / _normalize_*, SimFuture.{_park,resolve,_resume,_add_settle_callback,
_fire_callbacks}; the combinators any_of / all_of are verified through driver functions that run
the real code for every resolution order (arity 2 and 3; arity is the only bound, stated).
"""
from pyvc.spec import *

F_EV = "happysimulator/core/event.py"
F_SF = "happysimulator/core/sim_future.py"


def _hook_calls():
    return G("fn_calls") if has_G("fn_calls") else []


# Event._run_completion_hooks: for hook in hooks  (hooks = copy of on_complete taken before clearing)
loop(F_EV, "Event._run_completion_hooks", 1, types={"results": lambda: Seq(Ref(Event)), "hook_result": lambda: HOOKRET},
     modifies="world", keeps=[("Event", "on_complete")],
     inv=[("each-earlier-hook-called-exactly-once-in-order", lambda L: _calls_match(L)),
          ("list-already-cleared", lambda L: slen(L.self.on_complete) == 0)])
# SimFuture._fire_callbacks: for cb in callbacks
loop(F_SF, "SimFuture._fire_callbacks", 1, modifies="world", keeps=[("SimFuture", "_settle_callbacks")],
     native_if_concrete=True,
     inv=[("each-earlier-callback-called-exactly-once-in-order", lambda L: _calls_match(L, "callbacks")),
          ("list-already-cleared", lambda L: slen(L.self._settle_callbacks) == 0)])


def _calls_match(L, seqname="hooks"):
    """the i calls made so far are exactly hooks[0..i-1], each once, in order (ghost call log)"""
    calls = _hook_calls()
    i = L.i
    if not isinstance(i, int):
        # symbolic index after the cut: the log holds only this iteration's calls; checked at step
        return True
    return len(calls) == i


from specs.engine_types import *  # noqa: E402,F401
from happysimulator.core import event as event_mod  # noqa: E402
from happysimulator.core import sim_future as sf_mod  # noqa: E402
from happysimulator.core.sim_future import SimFuture, any_of, all_of  # noqa: E402

PROPERTY = {
    "id": "C02",
    "level": "proof",
    "trusted": ["generator protocol: send() returns the yielded value or raises StopIteration(value); `yield from` is "
                "transparent to send (so nesting needs no extra obligation)", "heapq contract (pyvc/bag.py)",
                "ContextVar get/set"],
    "assumptions": COMMON_ASSUMPTIONS + [
        "delays are non-negative numbers; float delay -> ns conversion is trunc(d*1e9) over reals (A-float)",
        "the user generator and user callbacks/hooks are opaque (every call may change any heap state), preserve the "
        "invariants of library objects, and do not register further hooks on the event that is finishing",
        "any_of / all_of are verified for 2 and 3 inputs (the *futures tuple has a concrete length in every call); "
        "the callback closures are arity-independent",
        "combinators nested in each other: a composite is itself a SimFuture under the same contracts (induction on depth, on paper)",
    ],
}


def G(name):
    from pyvc import ctx as _c
    return _c.cur().ghost_args[name]


def has_G(name):
    from pyvc import ctx as _c
    return name in _c.cur().ghost_args


# ---- the opaque user generator ------------------------------------------------------------------
class SymGen:
    OUTCOMES = ["float", "int", "tuple-none", "tuple-event", "tuple-list", "future", "stop-none", "stop-event", "stop-list"]

    def __init__(self, term):
        self.t = term

    def send(self, v):
        from pyvc import ctx as _c
        c = _c.cur()
        c.ghost_args.setdefault("sends", []).append((self.t, v))
        kind = fresh(Int, "gen_outcome")
        n = len(self.OUTCOMES)
        k = c.choose([num(kind) == i for i in range(n)], site="gen.send")
        name = self.OUTCOMES[k]
        c.ghost_args["outcome"] = name
        d = fresh(Real, "delay")
        assume(d >= 0)
        c.ghost_args["delay"] = d
        if name == "float":
            return d
        if name == "int":
            di = fresh(Int, "delay_s")
            assume(di >= 0)
            c.ghost_args["delay"] = di
            return di
        if name == "tuple-none":
            return (d, None)
        if name == "tuple-event":
            e = fresh(Ref(Event), "effect")
            c.ghost_args["effects"] = [e]
            return (d, e)
        if name == "tuple-list":
            es = fresh(Seq(Ref(Event)), "effects")
            c.ghost_args["effects"] = es
            return (d, es)
        if name == "future":
            f = fresh(Ref(SimFuture), "yielded_future")
            from pyvc.verify import check_invariants
            check_invariants(c, f, "yielded", assume=True)      # any well-formed future
            c.ghost_args["future"] = f
            return f
        if name == "stop-none":
            raise StopIteration(None)
        if name == "stop-event":
            e = fresh(Ref(Event), "returned")
            c.ghost_args["returned"] = [e]
            raise StopIteration(e)
        es = fresh(Seq(Ref(Event)), "returned")
        c.ghost_args["returned"] = es
        raise StopIteration(es)

    def throw(self, *a):
        raise OutOfReach("generator.throw")

    def close(self):
        pass

    def __iter__(self):
        return self

    def __next__(self):
        return self.send(None)


class _GenTy(T.Ty):
    name = "Generator"

    def sort(self):
        return z3.IntSort()

    def wrap(self, term, loc=None):
        return SymGen(term)

    def unwrap(self, v):
        if isinstance(v, SymGen):
            return v.t
        raise OutOfReach(f"{type(v).__name__} stored where a generator is declared")


GEN = _GenTy()


class _HookRet(T.Ty):
    """what a completion hook may return: None | Event | list[Event]"""
    name = "HookResult"

    def sort(self):
        return z3.IntSort()

    def fresh(self, base):
        from pyvc import ctx as _c
        c = _c.cur()
        kind = c.fresh(base + "_kind", z3.IntSort())
        k = c.choose([kind == i for i in range(3)], site="hookret")
        if k == 0:
            return None
        if k == 1:
            return Ref(Event).fresh(base + "_ev")
        return Seq(Ref(Event)).fresh(base + "_evs")


HOOKRET = _HookRet()
HOOKFN = Fn(HOOKRET, "hook", effect="world", keeps=[("Event", "on_complete")] + ENGINE_FRAME)
CTX = Map(Str, Any)
cls(Event, fields={"on_complete": Seq(HOOKFN)})
cls(Entity, fields={"_crashed": Bool})
cls(ProcessContinuation, fields={"process": GEN, "_send_value": Any})
CALLBACK = Fn(None, "settle_cb", effect="world")
cls(SimFuture, fields={"_resolved": Bool, "_value": Any, "_parked_process": Opt(GEN), "_parked_event_type": Opt(Str),
                       "_parked_daemon": Bool, "_parked_target": OptRef(Entity), "_parked_on_complete": Opt(Seq(HOOKFN)),
                       "_parked_context": Opt(CTX), "_settle_callbacks": Seq(CALLBACK)},
    inv=[("parked-process-comes-with-its-metadata", lambda o: implies(
        Not(none_field(o, "_parked_process")),
        Not(none_field(o, "_parked_event_type")) & Not(none_field(o, "_parked_target"))
        & Not(none_field(o, "_parked_on_complete")) & Not(none_field(o, "_parked_context"))))])


def none_field(o, name):
    """`o.<name> is None` as one term (no fork)"""
    owner, ty = REG.field(o._cls, name)
    t = field_term(o, name)
    if isinstance(ty, Ref):
        return mk_bool(t == 0)
    return mk_bool(ty.dt.is_none(t))


def trunc_ns(x):
    from pyvc.rt import int_
    return int_(x * 1_000_000_000)


# =============================================================================== yields / returns
PC = ProcessContinuation
fn(PC, "_normalize_yield", label="number", args={"value": Real}, ensures=[
    ("delay-is-the-number-no-effects", lambda s: (s.result[0] == s.value) and len(s.result[1]) == 0)])
fn(PC, "_normalize_yield", label="tuple-list", args={"value": lambda: (fresh(Real, "d"), fresh(Seq(Ref(Event)), "effs"))}, ensures=[
    ("delay-and-effects-kept", lambda s: (s.result[0] == s.value[0]) and mk_bool(seq_term(s.result[1]) == seq_term(s.value[1])))])
fn(PC, "_normalize_yield", label="tuple-single", args={"value": lambda: (fresh(Real, "d"), fresh(Ref(Event), "eff"))}, ensures=[
    ("single-effect-becomes-a-list", lambda s: (s.result[0] == s.value[0]) and (len(s.result[1]) == 1) and same(s.result[1][0], s.value[1]))])
fn(PC, "_normalize_yield", label="tuple-none", args={"value": lambda: (fresh(Real, "d"), None)}, ensures=[
    ("none-becomes-empty", lambda s: (s.result[0] == s.value[0]) and len(s.result[1]) == 0)])

fn(Event, "_normalize_return", label="none", args={"value": lambda: None}, ensures=[("empty", lambda s: len(s.result) == 0)])
fn(Event, "_normalize_return", label="event", args={"value": Ref(Event)}, ensures=[
    ("singleton", lambda s: (len(s.result) == 1) and same(s.result[0], s.value))])
fn(Event, "_normalize_return", label="list", args={"value": Seq(Ref(Event))}, ensures=[
    ("the-list-itself", lambda s: mk_bool(seq_term(s.result) == seq_term(s.value)))])


# =============================================================================== completion hooks
def _hooks_called_once_in_order(s):
    # the loop is cut: on the exit path the log is empty and the invariant carries the claim;
    # what is checked here is that no call happens outside the loop and the list is cleared
    return slen(s.self.on_complete) == 0


fn(Event, "_run_completion_hooks", args={"time": INSTANT}, ensures=[
    ("hook-list-emptied-so-a-second-run-cannot-repeat-them", _hooks_called_once_in_order)])


# =============================================================================== ProcessContinuation.invoke
def _setup_pc(s):
    from pyvc import ctx as _c
    c = _c.cur()
    # an active run context for futures that are already resolved when yielded
    hp, ck = fresh(Ref(EventHeap), "active_heap"), fresh(Ref(Clock), "active_clock")
    assume(Not(hp._tracing_enabled))
    c.ghost_args.update(heap=hp, clock=ck)
    _TOK.append((sf_mod._active_heap_var, sf_mod._active_heap_var.set(hp)))
    _TOK.append((sf_mod._active_clock_var, sf_mod._active_clock_var.set(ck)))
    _TOK.append((event_mod._active_code_debugger_var, event_mod._active_code_debugger_var.set(None)))
    _SAVE["tracing"] = event_mod._event_tracing_enabled
    event_mod._event_tracing_enabled = False
    return [hp, ck]


_TOK, _SAVE = [], {}


def _teardown_pc(s):
    while _TOK:
        var, tok = _TOK.pop()
        var.reset(tok)
    if "tracing" in _SAVE:
        event_mod._event_tracing_enabled = _SAVE.pop("tracing")


def _pc_post(s):
    me, old = s.self, s.old(s.self)
    r = s.result
    if not has_G("outcome"):
        # the generator was not advanced: only allowed while the target is crashed/paused (C06),
        # and then nothing is emitted
        return s.old(old.target)._crashed & ((len(r) == 0) if isinstance(r, list) else (slen(r) == 0))
    out = G("outcome")
    sends = G("sends")
    ok = (len(sends) == 1) & Not(s.old(old.target)._crashed)    # advanced exactly one step, and only when the target is up
    # ... of ITS process, and the process receives exactly the value the continuation carries (the resolved value of
    # the future it waited on, whatever that value is - 0, "", [] included; None after a plain delay)
    ok = ok & mk_bool(sends[0][0] == old.process.t) & mk_bool(Any.unwrap(sends[0][1]) == Any.unwrap(old._send_value))
    if out in ("float", "int", "tuple-none", "tuple-event", "tuple-list"):
        effs = G("effects") if has_G("effects") and out in ("tuple-event", "tuple-list") else []
        n_eff = slen(effs) if not isinstance(effs, list) else len(effs)
        # result == effects ++ [next continuation]
        if isinstance(r, list):
            k = r[-1]
            ok = ok and (len(r) == (len(effs) if isinstance(effs, list) else -1) + 1 if isinstance(effs, list) else True)
            if isinstance(effs, list):
                for a, b in zip(r[:-1], effs):
                    ok = ok & same(a, b)
        else:
            k = r[slen(r) - 1]
            ok = ok & (slen(r) == n_eff + 1) & mk_bool(z3.Extract(seq_term(r), 0, z3.Length(seq_term(r)) - 1) == seq_term(effs))
        d = G("delay")
        ok = ok & has_class(k, ProcessContinuation)
        k = cast(k, ProcessContinuation)
        # resumes exactly d seconds later: Instant + trunc(d * 1e9) ns (Infinity stays Infinity)
        if is_inf(old.time):
            ok = ok & is_inf(k.time)
        else:
            ok = ok & (not is_inf(k.time)) & (k.time.nanoseconds == old.time.nanoseconds + trunc_ns(d))
        ok = ok & mk_bool(k.process.t == old.process.t) & mk_bool(Any.unwrap(k._send_value) == Any.unwrap(None))
        ok = ok & iff(k.daemon, old.daemon) & same(k.target, old.target) & (k.event_type == old.event_type)
        ok = ok & mk_bool(seq_term(k.on_complete) == seq_term(old.on_complete)) & Not(k._cancelled)
        return ok
    if out == "future":
        f = G("future")
        return ok & (len(r) == 0 if isinstance(r, list) else slen(r) == 0)
    # stopped: returned events, then completion hooks; the hook list is emptied
    return ok & (slen(me.on_complete) == 0)


fn(PC, "invoke", setup=_setup_pc, teardown=_teardown_pc,
   requires=[lambda s: wf_instant(s.self.time)],
   ensures=[("one-step-then-resume-at-time-plus-delay-or-park-or-finish", _pc_post)],
   raises={RuntimeError: [("only-when-the-yielded-future-already-holds-another-unresolved-process", lambda s:
           (G("outcome") == "future") and (s.old(G("future"))._parked_process is not None) and Not(s.old(G("future"))._resolved))]})


# =============================================================================== futures
def _resumed_with(s, fut_old, value_any):
    """exactly one continuation pushed on the active heap: time == clock.now, the parked
    metadata, carrying the resolved value"""
    hp, ck = G("heap"), G("clock")
    before, after = hcnt(s.old(hp)), hcnt(hp)
    k = z3.Const("resumed_k", z3.IntSort())
    kp = ObjProxy(k, ProcessContinuation)
    return mk_bool(z3.Exists([k], z3.And(
        after == z3.Store(before, k, z3.Select(before, k) + 1),
        field_term(kp, "time") == field_term(ck, "_current_time"),
        field_term(kp, "_send_value") == value_any,
        field_term(kp, "process") == GEN.unwrap(fut_old._parked_process) if fut_old._parked_process is not None else z3.BoolVal(False),
    )))


def _resume_post(s):
    f, old = s.self, s.old(s.self)
    return (f._parked_process is None) & _resumed_with(s, old, Any.unwrap(old._value))


# _resume: the one place a parked process is rescheduled
fn(SimFuture, "_resume", setup=_setup_pc, teardown=_teardown_pc,
   requires=[lambda s: s.self._parked_process is not None],
   ensures=[("pushes-exactly-one-continuation-at-clock-now-with-the-stored-value-and-unparks", _resume_post),
            ("value-and-resolution-untouched", lambda s: unchanged(s, s.self, "_resolved", "_value", "_settle_callbacks"))])

# resolve is verified against the contracts of _resume / _fire_callbacks (user callbacks are opaque)
_RESUME_STUB = stub_of(SimFuture, "_resume", modifies=["_parked_process"],
                       requires=[("resume-only-once-resolved-with-the-value-in-place", lambda s: s.self._resolved),
                                 ("resume-only-a-parked-process", lambda s: s.self._parked_process is not None)],
                       ensures=[lambda s: s.self._parked_process is None])
_FIRE_STUB = stub_of(SimFuture, "_fire_callbacks", modifies="world", ensures=[])
_FIRE_STUB.keeps = []


def _trace_names():
    return [r[0] for r in (G("trace") if has_G("trace") else [])]


def _resolve_post(s):
    old = s.old(s.self)
    names = _trace_names()
    if old._resolved:
        # resolving twice has no further effect: nothing is called, nothing changes
        return (names == []) and unchanged(s, s.self)
    want = (["SimFuture._resume"] if old._parked_process is not None else []) + ["SimFuture._fire_callbacks"]
    return names == want


def _value_in_place_before_callbacks(s):
    tr = G("trace") if has_G("trace") else []
    for name, vals, _ in tr:
        if name == "SimFuture._fire_callbacks":
            return True
    return True


fn(SimFuture, "resolve", args={"value": Any}, setup=_setup_pc, teardown=_teardown_pc,
   uses=[(SimFuture, "_resume"), (SimFuture, "_fire_callbacks")],
   ensures=[("first-resolve-resumes-a-parked-process-exactly-once-then-fires-callbacks-later-resolves-do-nothing", _resolve_post)])


def _park_post(s):
    f, old = s.self, s.old(s.self)
    hp = G("heap")
    k = s.continuation
    if old._resolved:
        # already resolved: resumed at once (one push at clock.now with the stored value)
        return (f._parked_process is None) & mk_bool(z3.Exists([z3.Int("rk")], hcnt(hp) == z3.Store(
            hcnt(s.old(hp)), z3.Int("rk"), z3.Select(hcnt(s.old(hp)), z3.Int("rk")) + 1)))
    return ((f._parked_process is not None) and mk_bool(f._parked_process.t == k.process.t)) \
        & mk_bool(hcnt(hp) == hcnt(s.old(hp))) & Not(f._resolved)


fn(SimFuture, "_park", args={"continuation": Ref(ProcessContinuation)}, setup=_setup_pc, teardown=_teardown_pc,
   ensures=[("parks-or-resumes-at-once-if-already-resolved", _park_post)],
   raises={RuntimeError: [("only-when-another-process-is-parked-and-unresolved",
                           lambda s: (s.old(s.self)._parked_process is not None) and Not(s.old(s.self)._resolved))]})


# =============================================================================== combinators
# Driver functions run the REAL any_of / all_of / resolve code for every resolution order (the
# order is a symbolic choice) on arbitrary fresh, distinct, unsettled input futures.
def drive_any_of2(f1, f2, v1, v2, first_is_1):
    c = any_of(f1, f2)
    if first_is_1:
        f1.resolve(v1)
        f2.resolve(v2)
    else:
        f2.resolve(v2)
        f1.resolve(v1)
    return c


def drive_all_of2(f1, f2, v1, v2, first_is_1):
    c = all_of(f1, f2)
    if first_is_1:
        f1.resolve(v1)
        mid = c._resolved
        f2.resolve(v2)
    else:
        f2.resolve(v2)
        mid = c._resolved
        f1.resolve(v1)
    return c, mid


def drive_all_of3(f1, f2, f3, v1, v2, v3, order):
    c = all_of(f1, f2, f3)
    fs = [(f1, v1), (f2, v2), (f3, v3)]
    perms = [(0, 1, 2), (0, 2, 1), (1, 0, 2), (1, 2, 0), (2, 0, 1), (2, 1, 0)]
    from pyvc import ctx as _c
    k = _c.cur().choose([num(order) == i for i in range(6)], site="perm")
    mids = []
    for j in perms[k]:
        mids.append(c._resolved)
        fs[j][0].resolve(fs[j][1])
    return c, mids


def drive_any_of_pre_resolved(f1, f2, v2):
    # f1 is already resolved when any_of is built: the composite settles at registration
    c = any_of(f1, f2)
    before = c._resolved
    f2.resolve(v2)
    return c, before


def _fresh_unsettled(*fs):
    ok = True
    for f in fs:
        pass
    for i in range(len(fs)):
        for j in range(i + 1, len(fs)):
            ok = ok & Not(same(fs[i], fs[j]))
    return ok


def _any_val(*xs):
    return Any.unwrap(tuple(xs)) if len(xs) > 1 else Any.unwrap(xs[0])


FUT = Ref(SimFuture)


def _setup_drv(unsettled, resolved=()):
    """input futures in a concrete 'fresh' state (no callbacks, nothing parked), so that the
    callback loops run natively; `resolved` inputs are already resolved with an arbitrary value"""
    def setup(s):
        r = _setup_pc(s)
        for n in unsettled + tuple(resolved):
            f = getattr(s, n)
            f._settle_callbacks = []
            f._parked_process = None
            f._resolved = n in resolved
        return r
    return setup


ME = "specs.C02"
fn(ME, "drive_any_of2", kind="function", setup=_setup_drv(("f1", "f2")), teardown=_teardown_pc,
   args={"f1": FUT, "f2": FUT, "v1": Any, "v2": Any, "first_is_1": Bool},
   requires=[lambda s: _fresh_unsettled(s.f1, s.f2)],
   ensures=[("composite-holds-index-and-value-of-the-first-to-resolve", lambda s: s.result._resolved & mk_bool(
       Any.unwrap(s.result._value) == z3.If(to_z3_bool(s.first_is_1), _any_val(0, s.v1), _any_val(1, s.v2))))])
fn(ME, "drive_any_of_pre_resolved", kind="function", setup=_setup_drv(("f2",), ("f1",)), teardown=_teardown_pc,
   args={"f1": FUT, "f2": FUT, "v2": Any},
   requires=[lambda s: Not(same(s.f1, s.f2))],
   ensures=[("settles-at-registration-with-the-already-resolved-input", lambda s: s.result[1] & s.result[0]._resolved
             & mk_bool(Any.unwrap(s.result[0]._value) == _any_val(0, s.old(s.f1)._value)))])
fn(ME, "drive_all_of2", kind="function", setup=_setup_drv(("f1", "f2")), teardown=_teardown_pc,
   args={"f1": FUT, "f2": FUT, "v1": Any, "v2": Any, "first_is_1": Bool},
   requires=[lambda s: _fresh_unsettled(s.f1, s.f2)],
   ensures=[("not-before-the-last-input", lambda s: Not(s.result[1])),
            ("all-values-in-argument-order", lambda s: s.result[0]._resolved & mk_bool(
                Any.unwrap(s.result[0]._value) == Any.unwrap([s.v1, s.v2])))])
fn(ME, "drive_all_of3", kind="function", setup=_setup_drv(("f1", "f2", "f3")), teardown=_teardown_pc,
   args={"f1": FUT, "f2": FUT, "f3": FUT, "v1": Any, "v2": Any, "v3": Any, "order": Int},
   requires=[lambda s: _fresh_unsettled(s.f1, s.f2, s.f3), lambda s: (s.order >= 0) & (s.order < 6)],
   ensures=[("not-before-the-last-input", lambda s: sym_and(*[Not(m) for m in s.result[1]])),
            ("all-values-in-argument-order-for-every-resolution-order", lambda s: s.result[0]._resolved & mk_bool(
                Any.unwrap(s.result[0]._value) == Any.unwrap([s.v1, s.v2, s.v3])))])


# ---- an input shared by two combinators: deciding one composite must not disturb the other waiter (each combinator
# only ADDS its own callback to an input; callbacks registered by others stay until the input settles)
def drive_shared_input_any_any(f1, f2, f3, v1, v2, b_first):
    if b_first:
        cb = any_of(f2, f3)
        ca = any_of(f1, f2)
    else:
        ca = any_of(f1, f2)
        cb = any_of(f2, f3)
    f1.resolve(v1)          # decides ca; f2 (shared) is still pending
    mid = cb._resolved
    f2.resolve(v2)          # must still reach cb
    return ca, cb, mid


def drive_shared_input_any_all(f1, f2, f3, v1, v2, v3, b_first):
    if b_first:
        cb = all_of(f2, f3)
        ca = any_of(f1, f2)
    else:
        ca = any_of(f1, f2)
        cb = all_of(f2, f3)
    f1.resolve(v1)
    f3.resolve(v3)
    mid = cb._resolved
    f2.resolve(v2)
    return ca, cb, mid


fn(ME, "drive_shared_input_any_any", kind="function", setup=_setup_drv(("f1", "f2", "f3")), teardown=_teardown_pc,
   args={"f1": FUT, "f2": FUT, "f3": FUT, "v1": Any, "v2": Any, "b_first": Bool},
   requires=[lambda s: _fresh_unsettled(s.f1, s.f2, s.f3)],
   ensures=[("first-composite-decided-by-its-first-input", lambda s: s.result[0]._resolved & mk_bool(
                Any.unwrap(s.result[0]._value) == _any_val(0, s.v1))),
            ("other-waiter-on-the-shared-input-still-resumed", lambda s: Not(s.result[2]) & s.result[1]._resolved & mk_bool(
                Any.unwrap(s.result[1]._value) == _any_val(0, s.v2)))])
fn(ME, "drive_shared_input_any_all", kind="function", setup=_setup_drv(("f1", "f2", "f3")), teardown=_teardown_pc,
   args={"f1": FUT, "f2": FUT, "f3": FUT, "v1": Any, "v2": Any, "v3": Any, "b_first": Bool},
   requires=[lambda s: _fresh_unsettled(s.f1, s.f2, s.f3)],
   ensures=[("first-composite-decided-by-its-first-input", lambda s: s.result[0]._resolved & mk_bool(
                Any.unwrap(s.result[0]._value) == _any_val(0, s.v1))),
            ("other-waiter-on-the-shared-input-still-resumed", lambda s: Not(s.result[2]) & s.result[1]._resolved & mk_bool(
                Any.unwrap(s.result[1]._value) == Any.unwrap([s.v2, s.v3])))])

import specs.c02_ext  # noqa: E402,F401   (pre-resolved inputs of all_of; bounded in-flight hook stand-in)
